package main

import (
	"bytes"
	"context"
	"crypto/x509"
	"encoding/json"
	"errors"
	"fmt"
	"strings"
	"time"

	"github.com/notaryproject/notation-core-go/signature"
	"github.com/notaryproject/notation-core-go/signature/cose"
	"github.com/notaryproject/notation-core-go/signature/jws"
	"github.com/notaryproject/tspclient-go"
)

func init() { register("C20", "Run.C20", genC20) }

var mediaTypes = []string{jws.MediaTypeEnvelope, cose.MediaTypeEnvelope}

const payloadCT = "application/vnd.cncf.notary.payload.v1+json"

// failingSigner is a remote signer whose Sign fails (the format-level Sign returns an error)
type failingSigner struct{ ks signature.KeySpec }

func (f failingSigner) Sign([]byte) ([]byte, []*x509.Certificate, error) {
	return nil, nil, errors.New("remote signer failed (injected)")
}
func (f failingSigner) KeySpec() (signature.KeySpec, error) { return f.ks, nil }

// failingTimestamper: the time stamp authority cannot be reached (the format-level Sign fails after the signature was made)
type failingTimestamper struct{}

func (failingTimestamper) Timestamp(context.Context, *tspclient.Request) (*tspclient.Response, error) {
	return nil, errors.New("time stamp authority unreachable (injected)")
}

type envFixture struct {
	signer signature.Signer
	chain  []*x509.Certificate
}

var envFix *envFixture

func envFixtureGet() *envFixture {
	if envFix != nil {
		return envFix
	}
	b := basePlan(2, "cs", "ec256b").build()
	s, err := signature.NewLocalSigner(b.xs, Key("ec256b"))
	if err != nil {
		panic(err)
	}
	envFix = &envFixture{signer: s, chain: b.xs}
	return envFix
}

func reqPayload(r int) []byte { return []byte(fmt.Sprintf(`{"subject":"R%d"}`, r)) }

// content id of a payload produced by reqPayload (-1 = something else)
func payloadID(p []byte) int {
	var m map[string]any
	if json.Unmarshal(p, &m) != nil {
		return -1
	}
	s, _ := m["subject"].(string)
	var k int
	if _, err := fmt.Sscanf(s, "R%d", &k); err != nil {
		return -1
	}
	return k
}

func goodReq(r int) *signature.SignRequest {
	f := envFixtureGet()
	return &signature.SignRequest{
		Payload:       signature.Payload{ContentType: payloadCT, Content: reqPayload(r)},
		Signer:        f.signer,
		SigningTime:   baseTime,
		SigningScheme: signature.SigningSchemeX509,
		SigningAgent:  fmt.Sprintf("agent-%d", r),
	}
}

func classifyRead(c *signature.EnvelopeContent, err error) string {
	if err == nil {
		if c == nil {
			return "OOther"
		}
		id := payloadID(c.Payload.Content)
		if id < 0 {
			return "OOther"
		}
		return fmt.Sprintf("(OContent %d)", id)
	}
	var nf *signature.SignatureNotFoundError
	if errors.As(err, &nf) {
		return "ONoSig"
	}
	var ie *signature.SignatureIntegrityError
	if errors.As(err, &ie) {
		return "OIntegrity"
	}
	return "OOther"
}

// tamperSignature flips one bit inside the signature bytes of a valid envelope
func tamperSignature(mt string, env []byte) []byte {
	out := append([]byte{}, env...)
	if mt == jws.MediaTypeEnvelope {
		var m map[string]json.RawMessage
		if err := json.Unmarshal(env, &m); err != nil {
			panic(err)
		}
		var sig string
		json.Unmarshal(m["signature"], &sig)
		b := []byte(sig)
		if len(b) < 4 {
			return out
		}
		if b[3] == 'A' {
			b[3] = 'B'
		} else {
			b[3] = 'A'
		}
		m["signature"], _ = json.Marshal(string(b))
		out, _ = json.Marshal(m)
		return out
	}
	// COSE_Sign1: the signature is the last byte string of the array
	if len(out) < 3 {
		return out
	}
	out[len(out)-3] ^= 0x01
	return out
}

func genC20(tier string, rng *RNG, w *CaseWriter) {
	w.ShardSize = 600
	maxLen := 4
	if tier == "thorough" {
		maxLen = 5
	}
	w.Extra["max_history_len"] = maxLen
	letters := []string{"SA", "SB", "FE", "FI", "FL", "V", "C"}
	f := envFixtureGet()
	// pre-built parsed starts per format
	type start struct{ valid, tampered []byte }
	starts := map[string]start{}
	for _, mt := range mediaTypes {
		e, _ := signature.NewEnvelope(mt)
		b, err := e.Sign(goodReq(1))
		if err != nil {
			panic(err)
		}
		starts[mt] = start{valid: b, tampered: tamperSignature(mt, b)}
	}
	nHist := 0
	tsaRoots := x509.NewCertPool()
	tsaRoots.AddCert(f.chain[len(f.chain)-1])
	runHistory := func(fmtIdx, startKind int, hist []string) {
		mt := mediaTypes[fmtIdx]
		nHist++
		// other envelope objects of the same format live and work next to the one under test (every 4th history and
		// all short ones): what they sign or verify must never show through the object under test
		var sibling signature.Envelope
		if nHist%4 == 0 || len(hist) <= 2 {
			sibling, _ = signature.NewEnvelope(mt)
		}
		neighbour := func() {
			if sibling == nil {
				return
			}
			sibling.Sign(goodReq(9))
			if p, err := signature.ParseEnvelope(mt, starts[mt].valid); err == nil {
				p.Verify()
			}
		}
		var env signature.Envelope
		var err error
		switch startKind {
		case 0:
			env, err = signature.NewEnvelope(mt)
		case 1:
			env, err = signature.ParseEnvelope(mt, starts[mt].valid)
		case 2:
			env, err = signature.ParseEnvelope(mt, starts[mt].tampered)
		}
		if err != nil {
			panic(fmt.Sprintf("start %d %s: %v", startKind, mt, err))
		}
		var ops, outs []string
		extra := 0
		func() {
			defer func() {
				if r := recover(); r != nil {
					extra = 3
				}
			}()
			for _, l := range hist {
				switch l {
				case "SA", "SB", "FE", "FI", "FL":
					var req *signature.SignRequest
					var r int
					switch l {
					case "SA":
						r = 2
						req = goodReq(r)
						ops = append(ops, "(SignOk 2)")
					case "SB":
						r = 3
						req = goodReq(r)
						req.SigningScheme = signature.SigningSchemeX509SigningAuthority
						req.Expiry = baseTime.Add(24 * time.Hour)
						ops = append(ops, "(SignOk 3)")
					case "FE":
						r = 4
						req = goodReq(r)
						if fmtIdx == 0 {
							req.Expiry = req.SigningTime // not later than the signing time
						} else {
							req.SigningScheme = ""
						}
						ops = append(ops, "(SignFailEarly 4)")
					case "FI":
						r = 5
						req = goodReq(r)
						if (nHist+len(ops))%2 == 0 {
							ks, _ := f.signer.KeySpec()
							req.Signer = failingSigner{ks}
						} else { // the signer succeeds, the time stamp authority named by the request does not answer
							req.Timestamper = failingTimestamper{}
							req.TSARootCAs = tsaRoots
						}
						ops = append(ops, "(SignFailInner 5)")
					case "FL":
						r = 6
						req = goodReq(r)
						req.SigningTime = time.Date(2000, 1, 1, 0, 0, 0, 0, time.UTC) // chain not yet valid
						ops = append(ops, "(SignFailLate 6)")
					}
					b, err := env.Sign(req)
					neighbour()
					if err != nil {
						if b != nil {
							outs = append(outs, "OOther")
						} else {
							outs = append(outs, "OErr")
						}
						continue
					}
					outs = append(outs, fmt.Sprintf("(OBytes %d)", r))
					// the bytes returned must parse and verify to the request
					p, perr := signature.ParseEnvelope(mt, b)
					if perr != nil {
						extra = 1
						continue
					}
					c, verr := p.Verify()
					if verr != nil || !bytes.Equal(c.Payload.Content, req.Payload.Content) || c.SignerInfo.UnsignedAttributes.SigningAgent != req.SigningAgent {
						extra = 1
					}
					c2, cerr := env.Content()
					if cerr != nil || !bytes.Equal(c2.SignerInfo.Signature, c.SignerInfo.Signature) {
						extra = 1
					}
				case "V":
					neighbour()
					ops = append(ops, "Verify")
					a := classifyRead(env.Verify())
					if b := classifyRead(env.Verify()); a != b {
						extra = 2
					}
					outs = append(outs, a)
				case "C":
					ops = append(ops, "Content")
					a := classifyRead(env.Content())
					if b := classifyRead(env.Content()); a != b {
						extra = 2
					}
					outs = append(outs, a)
				}
			}
		}()
		for len(outs) < len(ops) {
			outs = append(outs, "OOther")
		}
		term := fmt.Sprintf("(mk @ID@ %d %d %s %s %d)", fmtIdx, startKind, cList(ops), cList(outs), extra)
		desc := map[string]any{"format": mt, "start": []string{"new", "parsed-valid", "parsed-tampered"}[startKind], "history": strings.Join(hist, " "), "impl": strings.Join(outs, " "), "extra": extra}
		w.Count(fmt.Sprintf("len:%d", len(hist)))
		w.Count("start:" + desc["start"].(string))
		nt := false
		for _, l := range hist {
			if l[0] == 'F' || l[0] == 'S' {
				nt = true
			}
		}
		w.Emit(term, desc, fmt.Sprintf("fmt%d/start%d", fmtIdx, startKind), nt)
	}
	for n := 1; n <= maxLen; n++ {
		for _, h := range seqs(letters, n) {
			for fi := range mediaTypes {
				for sk := 0; sk < 3; sk++ {
					if sk == 2 && n == maxLen && tier != "thorough" && (len(h[0])+len(h[n-1]))%2 == 0 {
						continue
					}
					runHistory(fi, sk, h)
				}
			}
		}
	}
	_ = rng
}
