package main

import (
	"bytes"
	"encoding/base64"
	"net/url"
	"strings"

	"context"
	"crypto/x509"
	"encoding/json"
	"errors"
	"fmt"
	"golang.org/x/crypto/ocsp"
	"io"
	"math/big"
	"net/http"
	"os"
	"path/filepath"
	"runtime"
	"sort"
	"sync"
	"sync/atomic"
	"time"

	"github.com/notaryproject/notation-core-go/revocation"
	crlpkg "github.com/notaryproject/notation-core-go/revocation/crl"
	revocsp "github.com/notaryproject/notation-core-go/revocation/ocsp"
	"github.com/notaryproject/notation-core-go/revocation/purpose"
	"github.com/notaryproject/notation-core-go/revocation/result"
)

// certSlots describes the revocation sources one non-root certificate names.
type certSlots struct {
	OCSP        []string // per URL: "ok" | "badurl" | "scheme"
	NCRL        int
	Freshest    bool
	FreshestRaw string   // with Freshest: raw extension value (as a string so that the slot stays comparable / printable)
	CRLKinds    []string // per distribution point: "" / "ok" = http URL, "ldap" | "https" | "ftp" = that scheme
}

type revChain struct {
	certs []*Cert // leaf first
	slots []certSlots
}

var revChainCache sync.Map

// revRootNamesSources: chains built while it is set have a root that names an OCSP responder and a CRL distribution point
var revRootNamesSources bool

// revSelfIssuedIntermediate: chains (length >= 3) built while it is set have a self-issued, not self-signed, CA below the root
var revSelfIssuedIntermediate bool

// buildRevChain builds (and caches) a valid chain of n certificates whose non-root
// certificates name the given sources. noCRLSign[i]: certificate i (an issuer) lacks cRLSign.
func buildRevChain(purp string, slots []certSlots, noCRLSign map[int]bool, bigSerial map[int]int) *revChain {
	n := len(slots) + 1
	key := fmt.Sprintf("%s|%v|%v|%v|%v|%v", purp, slots, noCRLSign, bigSerial, revRootNamesSources, revSelfIssuedIntermediate)
	if v, ok := revChainCache.Load(key); ok {
		return v.(*revChain)
	}
	p := basePlan(n, purp, "ec256b")
	if revSelfIssuedIntermediate && n > 2 {
		// a key-rollover certificate: the CA below the root carries the root's name (issuer == subject) but its own key
		// and the root's signature; it is not self-signed, so the chain is valid, and it is not the trust anchor
		p.certs[n-2].spec.CN = p.certs[n-1].spec.CN
	}
	if revRootNamesSources && n > 1 {
		// the trust anchor itself names a responder and a distribution point: they must never be consulted
		p.certs[n-1].spec.OCSP = []string{"http://ocsp.test/root/o0"}
		p.certs[n-1].spec.CRL = []string{"http://crl.test/root/p0.crl"}
	}
	for i := 0; i < n-1; i++ {
		for k, kind := range slots[i].OCSP {
			p.certs[i].spec.OCSP = append(p.certs[i].spec.OCSP, ocspURL(i, k, kind))
		}
		for k := 0; k < slots[i].NCRL; k++ {
			u := crlURL(i, k)
			if k < len(slots[i].CRLKinds) && slots[i].CRLKinds[k] != "" && slots[i].CRLKinds[k] != "ok" {
				u = fmt.Sprintf("%s://crl.test/c%d/p%d.crl", slots[i].CRLKinds[k], i, k)
				if slots[i].CRLKinds[k] == "casevariant" && k > 0 {
					// another distribution point: the previous one's URL with the path in capitals (paths are case-sensitive)
					u = fmt.Sprintf("http://crl.test/C%d/P%d.CRL", i, k-1)
				}
			}
			p.certs[i].spec.CRL = append(p.certs[i].spec.CRL, u)
		}
		p.certs[i].spec.Freshest = slots[i].Freshest
		if slots[i].FreshestRaw != "" {
			p.certs[i].spec.FreshestRaw = []byte(slots[i].FreshestRaw)
		}
		if n := bigSerial[i]; n > 0 {
			// n octets 0x7f 0xff 0xff ...: in base64 mostly '/' characters, each of which triples when URL-escaped, so
			// that 60 octets give a request below 255 characters in base64 and above it once escaped
			b := bytes.Repeat([]byte{0xff}, n)
			b[0] = 0x7f
			p.certs[i].spec.Serial = new(big.Int).SetBytes(b)
		}
	}
	for i := 1; i < n; i++ {
		if noCRLSign[i] {
			p.certs[i].spec.KU = x509.KeyUsageCertSign
		}
	}
	b := p.build()
	rc := &revChain{certs: b.certs, slots: slots}
	revChainCache.Store(key, rc)
	return rc
}

func (rc *revChain) xs() []*x509.Certificate {
	out := make([]*x509.Certificate, len(rc.certs))
	for i, c := range rc.certs {
		out[i] = c.X
	}
	return out
}

// crlDelivery: what the fetcher returns for one distribution point
type crlDelivery struct {
	FetchErr bool
	Base     *crlSpec
	Delta    *crlSpec
	PanicV   any
}

type revCase struct {
	Entry    int // 0 = ValidateContext, 1 = ocsp.CheckStatus, 2 = Validate
	Purpose  string
	Chain    *revChain
	OCSP     map[string]ocspBehav   // by URL
	CRL      map[string]crlDelivery // by URL
	HTTPCRL  bool                   // deliver CRLs through the real HTTPFetcher over the transport
	ST       time.Time              // zero = no signing time
	Cancel   string                 // "" | "before" | "during" (at the first exchange) | "after1" (once the first exchange has completed); only with one certificate naming sources and Entry 0
	Labels   []string
	Iso      *revCase // C06 isolation companion: same chain, the URLs of position IsoPos behave identically, all others differently
	IsoPos   int
	CRLFault map[string]string // by URL, with HTTPCRL and FetchErr: how the download fails (503 | 404 | empty | garbage | oversized | truncated | transport | timeout | readerr)
	Cache    string            // with HTTPCRL: "" no cache | "miss" | "getfail" | "setfail" | "getfail-discard" | "setfail-discard" | "stale" (expired entry cached)
	Order    []int             // C17: completion order of the per-certificate exchanges (certificate positions), enforced by a barrier
	PanicAt  map[int]string    // C17: the exchange of the certificate at that position panics with this value
	Callers  int               // C17: number of concurrent callers sharing validator, client and fetcher (0 = one call)
	// outputs of the C17 observations
	PanicValue     string
	GoroutineDelta int
	CallersAgree   bool
	Summary        string              // results of the main call
	WantCallers    string              // if set: what the concurrent callers must see (results of a reference run without cancellation)
	WarmChain      []*x509.Certificate // Entry 0: the same validator object first validates this chain (it names no sources), then the case's chain
}

type certOut struct {
	Result  int
	Method  int
	Servers [][2]int // (result, url id)
	Log     []int
}

// runRevCase executes the case against the implementation and renders the Coq case term
// (fields of Run/Rev.v rcase after the id) plus a JSON description.
func runRevCase(c *revCase) (string, map[string]any, []certOut, bool) {
	term, _, desc, outs, panicked := runRevCaseFull(c)
	iso := "None 0"
	if c.Iso != nil {
		_, impl2, d2, _, p2 := runRevCaseFull(c.Iso)
		if p2 {
			impl2 = "None"
		}
		iso = fmt.Sprintf("%s %d", impl2, c.IsoPos)
		desc["iso"] = map[string]any{"pos": c.IsoPos, "impl": d2["impl"], "ocsp": d2["ocsp"], "crl": d2["crl"]}
	}
	return term + " " + iso, desc, outs, panicked
}

func runRevCaseFull(c *revCase) (string, string, map[string]any, []certOut, bool) {
	xs := c.Chain.xs()
	rt := newWorldRT()
	wf := newWorldFetcher()
	seq := &eventSeq{}
	rt.seq, wf.seq = seq, seq
	var ocspTerms, fetchTerms []string
	allowed, contactable := 1<<30, 0 // exchanges that complete before the context is cancelled
	switch c.Cancel {
	case "before", "during":
		allowed = 0
	case "after1", "after1done":
		allowed = 1
	}
	desc := map[string]any{"entry": c.Entry, "purpose": c.Purpose, "len": len(xs), "labels": c.Labels, "http_crl": c.HTTPCRL, "cancel": c.Cancel}
	od := map[string]string{}
	cd := map[string]any{}
	urlOwner := map[string]int{}
	for i := 0; i < len(xs)-1; i++ {
		cert, issuer := c.Chain.certs[i], c.Chain.certs[i+1]
		for _, u := range xs[i].OCSPServer {
			urlOwner[u] = i
			b, ok := c.OCSP[u]
			if !ok {
				b = ocspBehav{Kind: "transport"}
			}
			od[u] = b.String()
			h, term := ocspHandlerFor(b, cert, issuer)
			if term != "UBadURL" {
				contactable++
				if contactable > allowed {
					term = "UErr"
				}
			}
			if h != nil {
				rt.handlers[u] = strictOCSP(h, cert, issuer)
			}
			ocspTerms = append(ocspTerms, fmt.Sprintf("(%d, %s)", urlIDs.id([]byte(u)), term))
		}
		for _, u := range xs[i].CRLDistributionPoints {
			urlOwner[u] = i
			d, ok := c.CRL[u]
			if !ok {
				d = crlDelivery{FetchErr: true}
			}
			term := "FetchErr"
			dd := map[string]any{"fetch_err": d.FetchErr}
			contactable++
			cancelled := contactable > allowed
			if d.PanicV != nil {
				wf.res[u] = fetchResult{panicV: d.PanicV}
			} else if d.FetchErr {
				wf.res[u] = fetchResult{err: errors.New("fetch failed (injected)")}
				rt.handlers[u] = crlFaultHandler(c.CRLFault[u], issuer)
				dd["fault"] = c.CRLFault[u]
			} else {
				baseSpec := *d.Base
				deltaURL := u + ".delta"
				if c.HTTPCRL && d.Delta != nil {
					baseSpec.Freshest = deltaURL
				}
				baseDER := buildCRL(baseSpec, issuer, xs[i].SerialNumber)
				base := mustParseCRL(baseDER)
				bundle := &crlpkg.Bundle{BaseCRL: base}
				bt := crlTerm(base, issuer.X)
				dt := "None"
				dd["base"] = fmt.Sprintf("%+v", baseSpec)
				rt.handlers[u] = func(*http.Request) (*http.Response, error) { return httpBody(200, baseDER) }
				if d.Delta != nil {
					deltaDER := buildCRL(*d.Delta, issuer, xs[i].SerialNumber)
					delta := mustParseCRL(deltaDER)
					bundle.DeltaCRL = delta
					dt = "(Some " + crlTerm(delta, issuer.X) + ")"
					dd["delta"] = fmt.Sprintf("%+v", *d.Delta)
					rt.handlers[deltaURL] = func(*http.Request) (*http.Response, error) { return httpBody(200, deltaDER) }
				}
				wf.res[u] = fetchResult{bundle: bundle}
				term = fmt.Sprintf("(Fetched (Bundle %s %s))", bt, dt)
				if c.HTTPCRL && (c.Cache == "getfail" || c.Cache == "setfail") {
					term = "FetchErr" // the cache failure is returned as the fetch error
				}
				if cancelled {
					term = "FetchErr" // the context is cancelled by then: the genuine server is never heard (the handler stays genuine for other callers)
				}
				if c.HTTPCRL && d.Delta != nil && (c.Cancel == "after1" || c.Cancel == "after1done") && contactable == allowed {
					term = "FetchErr" // the base download is the last exchange that completes: the delta download is cancelled
				}
			}
			cd[u] = dd
			fetchTerms = append(fetchTerms, fmt.Sprintf("(%d, %s)", urlIDs.id([]byte(u)), term))
		}
	}
	desc["ocsp"] = od
	desc["crl"] = cd
	client := &http.Client{Transport: rt, Timeout: 5 * time.Second}
	var fetcher crlpkg.Fetcher = wf
	if c.HTTPCRL {
		hf, err := crlpkg.NewHTTPFetcher(client)
		if err != nil {
			panic(err)
		}
		if c.Cache == "mem" {
			hf.Cache = &memCache{m: map[string]*crlpkg.Bundle{}}
		} else if c.Cache != "" {
			hf.Cache = &faultCache{mode: c.Cache, stale: staleBundleFor(c)}
			hf.DiscardCacheError = c.Cache == "getfail-discard" || c.Cache == "setfail-discard"
		}
		fetcher = &loggingFetcher{inner: hf, seq: seq}
		for i := 0; i < len(xs)-1; i++ {
			for _, u := range xs[i].CRLDistributionPoints {
				rt.noSeq[u] = true
			}
		}
	}
	purp := purpose.CodeSigning
	purpZ := 0
	if c.Purpose == "ts" {
		purp, purpZ = purpose.Timestamping, 1
	}
	ctx, cancel := context.WithCancel(context.Background())
	defer cancel()
	if c.Cancel == "before" {
		cancel()
	}
	if c.Cancel == "after1done" { // cancel as soon as the first exchange has completed
		var ndone int32
		rt.onDone = func(string) {
			if atomic.AddInt32(&ndone, 1) == 1 {
				cancel()
			}
		}
		wf.onDone = rt.onDone
	}
	if c.Cancel == "during" || c.Cancel == "after1" {
		var nreq int32
		hook := func(string) {
			if int(atomic.AddInt32(&nreq, 1)) > allowed {
				cancel()
			}
		}
		rt.onReq, wf.onReq = hook, hook
	}
	// C17: injected panics and the schedule barrier
	for i, vs := range c.PanicAt {
		// panic values of different dynamic types: a string at even positions, an error at odd ones
		var v any = vs
		if i%2 == 1 {
			v = errors.New(vs)
		}
		for _, u := range xs[i].OCSPServer {
			rt.handlers[u] = func(*http.Request) (*http.Response, error) { panic(v) }
		}
		for _, u := range xs[i].CRLDistributionPoints {
			wf.res[u] = fetchResult{panicV: v}
			rt.handlers[u] = func(*http.Request) (*http.Response, error) { panic(v) }
		}
	}
	if len(c.Order) > 0 {
		bar := newBarrier(c.Order)
		hook := func(u string) {
			if i, ok := urlOwner[u]; ok {
				bar.arrive(i)
			}
		}
		rt.onReq, wf.onReq = hook, hook
		go bar.run()
		defer bar.stop()
	}
	noteCurrentCase(desc)
	goroutinesBefore := runtime.NumGoroutine()
	now := time.Now()
	var res []*result.CertRevocationResult
	var err error
	panicked := false
	var validator revocation.Validator
	call := func() (rs []*result.CertRevocationResult, e error) {
		switch c.Entry {
		case 0:
			if validator == nil {
				v, e := revocation.NewWithOptions(revocation.Options{OCSPHTTPClient: client, CRLFetcher: fetcher, CertChainPurpose: purp})
				if e != nil {
					panic(e)
				}
				validator = v
			}
			return validator.ValidateContext(ctx, revocation.ValidateContextOptions{CertChain: xs, AuthenticSigningTime: c.ST})
		case 1:
			return revocsp.CheckStatus(revocsp.Options{CertChain: xs, CertChainPurpose: purp, SigningTime: c.ST, HTTPClient: client})
		}
		return nil, nil
	}
	func() {
		defer func() {
			if r := recover(); r != nil {
				panicked = true
				desc["panic"] = fmt.Sprint(r)
				c.PanicValue = fmt.Sprint(r)
			}
		}()
		if len(c.WarmChain) > 0 && c.Entry == 0 {
			v, e := revocation.NewWithOptions(revocation.Options{OCSPHTTPClient: client, CRLFetcher: fetcher, CertChainPurpose: purp})
			if e != nil {
				panic(e)
			}
			validator = v
			func() {
				defer func() { recover() }()
				validator.ValidateContext(context.Background(), revocation.ValidateContextOptions{CertChain: c.WarmChain})
			}()
		}
		res, err = call()
	}()
	// the call has returned (or re-raised a panic): none of its exchanges may still be under way
	inFlightAtReturn := int(atomic.LoadInt32(&exchangesInFlight))
	c.Summary = summarizeResults(res, err)
	evsMain := seq.all() // the exchanges of this call (before any concurrent-caller phase adds its own)
	// nothing is left behind: the goroutines the call started have finished when it returns
	c.GoroutineDelta = 0
	for k := 0; k < 20; k++ {
		c.GoroutineDelta = runtime.NumGoroutine() - goroutinesBefore
		if len(c.Order) > 0 {
			c.GoroutineDelta-- // the barrier controller
		}
		if c.GoroutineDelta <= 0 {
			break
		}
		time.Sleep(time.Millisecond)
	}
	if inFlightAtReturn > 0 && c.GoroutineDelta <= 0 {
		c.GoroutineDelta = inFlightAtReturn // reported through the same observable: work of the call outlived the call
		desc["in_flight_at_return"] = inFlightAtReturn
	}
	// concurrent callers sharing the validator, the client and the fetcher must all see the same results
	c.CallersAgree = true
	if c.Callers > 1 && !panicked {
		rt.onReq, wf.onReq = nil, nil
		want := summarizeResults(res, err)
		if c.WantCallers != "" {
			want = c.WantCallers
			ctx = context.Background() // the other callers are not cancelled
		}
		var cwg sync.WaitGroup
		var mu sync.Mutex
		for k := 0; k < c.Callers; k++ {
			cwg.Add(1)
			go func() {
				defer cwg.Done()
				defer func() {
					if r := recover(); r != nil {
						mu.Lock()
						c.CallersAgree = false
						mu.Unlock()
					}
				}()
				rs, e := call()
				if summarizeResults(rs, e) != want {
					mu.Lock()
					c.CallersAgree = false
					mu.Unlock()
				}
			}()
		}
		cwg.Wait()
	}
	stZ := int64(0)
	if !c.ST.IsZero() {
		stZ = c.ST.UnixNano()
	}
	sf, ss := oracleTerms(xs)
	// project the implementation output
	implTerm := "None"
	var outs []certOut
	if panicked {
		implTerm = "None"
	} else if err == nil {
		evs := evsMain // delta downloads (URL + ".delta") are not owned by a certificate slot and are skipped
		var items []string
		for i, r := range res {
			co := certOut{}
			if r == nil {
				items = append(items, "(CRes RUnknown [] MUnknown, [])")
				outs = append(outs, co)
				continue
			}
			co.Result, co.Method = int(r.Result), int(r.RevocationMethod)
			var srv []string
			for _, s := range r.ServerResults {
				if s == nil { // a hole in the list: reported as an entry for a URL nobody named
					co.Servers = append(co.Servers, [2]int{0, -1})
					srv = append(srv, "(SRes RUnknown (-1))")
					desc["nil_server_result"] = fmt.Sprintf("certificate %d", i)
					continue
				}
				uid := 0
				emptyNamed := s != nil && s.Server == "" && i < len(xs) && containsStr(xs[i].OCSPServer, "")
				if s.Server != "" || emptyNamed { // the empty string may itself be a responder URI the certificate names
					uid = urlIDs.id([]byte(s.Server))
				}
				// every server result is labelled with the method that produced it (results.go): OCSP for a responder,
				// CRL for a distribution point, Unknown (standalone OCSP entry point, non-root: OCSP) for the placeholder without a
				// server.  A wrong label is reported as a method the certificate's result cannot have.
				want := -1
				switch {
				case s == nil:
				case emptyNamed:
					want = int(result.RevocationMethodOCSP)
				case s.Server == "":
					want = int(result.RevocationMethodUnknown)
					if c.Entry == 1 && i < len(res)-1 {
						want = int(result.RevocationMethodOCSP)
					}
				case i < len(xs) && containsStr(xs[i].OCSPServer, s.Server):
					want = int(result.RevocationMethodOCSP)
				case i < len(xs) && containsStr(xs[i].CRLDistributionPoints, s.Server):
					want = int(result.RevocationMethodCRL)
				}
				if want >= 0 && int(s.RevocationMethod) != want {
					co.Method = int(result.RevocationMethodOCSP) // a method the result cannot have
					if r.RevocationMethod == result.RevocationMethodOCSP || r.RevocationMethod == result.RevocationMethodUnknown {
						co.Method = int(result.RevocationMethodCRL)
					}
					desc["server_result_label"] = fmt.Sprintf("certificate %d: server result for %q is labelled %v", i, s.Server, s.RevocationMethod)
				}
				co.Servers = append(co.Servers, [2]int{int(s.Result), uid})
				srv = append(srv, fmt.Sprintf("(SRes %s %d)", resTerm(int(s.Result)), uid))
			}
			var lg []string
			for _, u := range evs {
				if o, ok := urlOwner[u]; ok && o == i {
					id := urlIDs.id([]byte(u))
					lg = append(lg, fmt.Sprint(id))
					co.Log = append(co.Log, id)
				}
			}
			outs = append(outs, co)
			items = append(items, fmt.Sprintf("(CRes %s %s %s, %s)", resTerm(co.Result), cList(srv), methTerm(co.Method), cList(lg)))
		}
		implTerm = "(Some " + cList(items) + ")"
	} else {
		var ice result.InvalidChainError
		if !errors.As(err, &ice) || res != nil {
			desc["unexpected_error"] = err.Error()
			implTerm = "(Some [])" // neither results nor an invalid-chain error: never equals a model output for a non-empty chain
		}
	}
	desc["impl"] = outs
	desc["impl_error"] = fmt.Sprint(err)
	sort.Strings(ocspTerms)
	sort.Strings(fetchTerms)
	term := fmt.Sprintf("%d %d %s %s %s %s %s %s %s %s %s", c.Entry, purpZ, chainTerm(xs), sf, ss, cList(ocspTerms), cList(fetchTerms), cZ(now.UnixNano()), cZ(stZ), implTerm, cB(panicked))
	return term, implTerm, desc, outs, panicked
}

func resTerm(r int) string {
	switch result.Result(r) {
	case result.ResultOK:
		return "ROK"
	case result.ResultNonRevokable:
		return "RNonRevokable"
	case result.ResultRevoked:
		return "RRevoked"
	}
	return "RUnknown"
}
func methTerm(m int) string {
	switch result.RevocationMethod(m) {
	case result.RevocationMethodOCSP:
		return "MOCSP"
	case result.RevocationMethodCRL:
		return "MCRL"
	case result.RevocationMethodOCSPFallbackCRL:
		return "MFallback"
	}
	return "MUnknown"
}

// noteCurrentCase records the case about to run, so that a process abort can be attributed.
var currentCaseDir string

func noteCurrentCase(desc map[string]any) {
	if currentCaseDir == "" {
		return
	}
	b, _ := json.Marshal(desc)
	os.WriteFile(filepath.Join(currentCaseDir, "current_case.json"), b, 0o644)
}

// crlFaultHandler: how a CRL download fails over the real HTTPFetcher
func crlFaultHandler(kind string, issuer *Cert) rtHandler {
	switch kind {
	case "404":
		return func(*http.Request) (*http.Response, error) { return httpBody(404, []byte("not found")) }
	case "empty":
		return func(*http.Request) (*http.Response, error) { return httpBody(200, nil) }
	case "garbage":
		return func(*http.Request) (*http.Response, error) {
			return httpBody(200, []byte("-----BEGIN X509 CRL-----\nnot der\n"))
		}
	case "truncated":
		der := buildCRL(crlSpec{Number: 5, Next: "+1h", Signer: "issuer"}, issuer, big.NewInt(1))
		return func(*http.Request) (*http.Response, error) { return httpBody(200, der[:len(der)/2]) }
	case "oversized":
		return func(*http.Request) (*http.Response, error) { return httpBody(200, make([]byte, 33*1024*1024)) }
	case "transport":
		return func(*http.Request) (*http.Response, error) { return nil, errors.New("connection refused (injected)") }
	case "timeout":
		return func(*http.Request) (*http.Response, error) { return nil, timeoutErr{} }
	case "readerr":
		return func(*http.Request) (*http.Response, error) {
			return &http.Response{StatusCode: 200, Body: io.NopCloser(errReader{}), Header: http.Header{}}, nil
		}
	case "302":
		return func(*http.Request) (*http.Response, error) { return httpBody(302, nil) }
	case "500-valid-crl", "404-valid-crl", "201-valid-crl":
		// a genuine, current CRL that does not list the certificate, delivered with a status other than 200
		der := buildCRL(crlSpec{Number: 5, Next: "+1h", Signer: "issuer"}, issuer, big.NewInt(1))
		code := map[string]int{"500-valid-crl": 500, "404-valid-crl": 404, "201-valid-crl": 201}[kind]
		return func(*http.Request) (*http.Response, error) { return httpBody(code, der) }
	case "delta-nonhttp", "delta-unreachable", "delta-ext-malformed":
		// a genuine, current base CRL that does not list the certificate but advertises a delta CRL which cannot
		// be obtained: only locations with a scheme other than http / a location that answers 404 / an extension
		// that does not parse.  The fetcher must fail, so the point is a download fault.
		raw := cdpExtValue([][]string{{"ldap://dir.test/cn=delta", "https://crl.test/delta.crl"}})
		switch kind {
		case "delta-unreachable":
			raw = cdpExtValue([][]string{{"http://crl.test/no-such-delta.crl"}})
		case "delta-ext-malformed":
			raw = []byte{0x30, 0x05, 0x30, 0x03, 0xA0, 0x01, 0xA1}
		}
		der := buildCRL(crlSpec{Number: 5, Next: "+1h", Signer: "issuer", FreshestRaw: raw}, issuer, big.NewInt(1))
		return func(*http.Request) (*http.Response, error) { return httpBody(200, der) }
	}
	return func(*http.Request) (*http.Response, error) { return httpBody(503, nil) }
}

func containsStr(l []string, x string) bool {
	for _, y := range l {
		if y == x {
			return true
		}
	}
	return false
}

// strictOCSP: a responder that answers only well-formed requests for the certificate it is responsible for, as real
// responders do: GET with the request in the last path segment (at most 255 octets, RFC 5019 section 5) or POST with
// the application/ocsp-request media type; anything else is refused before the behaviour h is consulted.
func strictOCSP(h rtHandler, cert, issuer *Cert) rtHandler {
	return func(req *http.Request) (*http.Response, error) {
		var der []byte
		switch req.Method {
		case http.MethodGet:
			p := req.URL.EscapedPath()
			seg := p[strings.LastIndex(p, "/")+1:]
			if len(seg) > 255 {
				return httpBody(414, []byte("request URI too long"))
			}
			un, err := url.QueryUnescape(seg)
			if err != nil {
				return httpBody(400, []byte("bad escape"))
			}
			if der, err = base64.StdEncoding.DecodeString(un); err != nil {
				return httpBody(400, []byte("bad base64"))
			}
		case http.MethodPost:
			if req.Header.Get("Content-Type") != "application/ocsp-request" {
				return httpBody(415, []byte("unsupported media type"))
			}
			if req.Body != nil {
				der, _ = io.ReadAll(req.Body)
			}
		default:
			return httpBody(405, []byte("method not allowed"))
		}
		r, err := ocsp.ParseRequest(der)
		if err != nil {
			return httpBody(400, []byte("malformed request"))
		}
		want, err := ocsp.CreateRequest(cert.X, issuer.X, &ocsp.RequestOptions{Hash: r.HashAlgorithm})
		if err != nil || !bytes.Equal(want, der) {
			return httpBody(400, []byte("request is not for the certificate this responder serves"))
		}
		return h(req)
	}
}

// faultCache: a crl.Cache that misses, fails, or serves a stale (expired) bundle
type faultCache struct {
	mode  string
	stale *crlpkg.Bundle
}

func (f *faultCache) Get(ctx context.Context, url string) (*crlpkg.Bundle, error) {
	switch f.mode {
	case "getfail", "getfail-discard":
		return nil, errors.New("cache get failed (injected)")
	case "stale":
		if f.stale != nil {
			return f.stale, nil
		}
	}
	return nil, crlpkg.ErrCacheMiss
}
func (f *faultCache) Set(ctx context.Context, url string, b *crlpkg.Bundle) error {
	switch f.mode {
	case "setfail", "setfail-discard":
		return errors.New("cache set failed (injected)")
	}
	return nil
}

// an expired but otherwise clean bundle signed by the leaf's issuer: must never be served
func staleBundleFor(c *revCase) *crlpkg.Bundle {
	if len(c.Chain.certs) < 2 {
		return nil
	}
	der := buildCRL(crlSpec{Number: 4, Next: "-1h", Signer: "issuer"}, c.Chain.certs[1], c.Chain.certs[0].X.SerialNumber)
	return &crlpkg.Bundle{BaseCRL: mustParseCRL(der)}
}

func summarizeResults(rs []*result.CertRevocationResult, err error) string {
	s := fmt.Sprint(err != nil)
	for _, r := range rs {
		if r == nil {
			s += "|nil"
			continue
		}
		s += fmt.Sprintf("|%d/%d", r.Result, r.RevocationMethod)
		for _, sr := range r.ServerResults {
			if sr == nil {
				s += ",nil"
				continue
			}
			s += fmt.Sprintf(",%d@%s", sr.Result, sr.Server)
		}
	}
	return s
}

// barrier: holds the first exchange of every listed certificate until all of them have arrived, then
// releases them one at a time in the given order
type barrier struct {
	order   []int
	gates   map[int]chan struct{}
	arrived chan int
	quit    chan struct{}
	once    sync.Once
}

func newBarrier(order []int) *barrier {
	b := &barrier{order: order, gates: map[int]chan struct{}{}, arrived: make(chan int, 64), quit: make(chan struct{})}
	for _, i := range order {
		b.gates[i] = make(chan struct{})
	}
	return b
}
func (b *barrier) arrive(i int) {
	g, ok := b.gates[i]
	if !ok {
		return
	}
	select {
	case <-g: // already released: later exchanges of this certificate pass
		return
	default:
	}
	select {
	case b.arrived <- i:
	default:
	}
	select {
	case <-g:
	case <-b.quit:
	case <-time.After(3 * time.Second):
	}
}
func (b *barrier) run() {
	seen := map[int]bool{}
	deadline := time.After(2 * time.Second)
	for len(seen) < len(b.order) {
		select {
		case i := <-b.arrived:
			seen[i] = true
		case <-b.quit:
			return
		case <-deadline:
			seen = nil
			for _, i := range b.order { // give up waiting: release everything
				close(b.gates[i])
			}
			return
		}
	}
	for _, i := range b.order {
		close(b.gates[i])
		time.Sleep(1500 * time.Microsecond) // let this certificate's check run to completion before the next is released
	}
}
func (b *barrier) stop() { b.once.Do(func() { close(b.quit) }) }

// memCache: a plain shared in-memory crl.Cache
type memCache struct {
	mu sync.Mutex
	m  map[string]*crlpkg.Bundle
}

func (c *memCache) Get(ctx context.Context, url string) (*crlpkg.Bundle, error) {
	c.mu.Lock()
	defer c.mu.Unlock()
	if b, ok := c.m[url]; ok {
		return b, nil
	}
	return nil, crlpkg.ErrCacheMiss
}
func (c *memCache) Set(ctx context.Context, url string, b *crlpkg.Bundle) error {
	c.mu.Lock()
	defer c.mu.Unlock()
	c.m[url] = b
	return nil
}
