package main

import (
	"bytes"
	"context"
	"crypto"
	"crypto/rand"
	"crypto/sha256"
	"crypto/x509"
	"crypto/x509/pkix"
	"encoding/asn1"
	"errors"
	"io"
	"math/big"
	"net/http"
	"sync"
	"time"

	"github.com/notaryproject/notation-core-go/revocation"
	"github.com/notaryproject/notation-core-go/revocation/result"
	tspclient "github.com/notaryproject/tspclient-go"
	"github.com/notaryproject/tspclient-go/pki"
)

// An in-process RFC 3161 timestamp authority behind tspclient.NewHTTPTimestamper: it answers over an
// http.RoundTripper with a TimeStampResp whose token is a CMS SignedData assembled with encoding/asn1.

var (
	oidSignedData    = asn1.ObjectIdentifier{1, 2, 840, 113549, 1, 7, 2}
	oidTSTInfo       = asn1.ObjectIdentifier{1, 2, 840, 113549, 1, 9, 16, 1, 4}
	oidAttrCT        = asn1.ObjectIdentifier{1, 2, 840, 113549, 1, 9, 3}
	oidAttrMD        = asn1.ObjectIdentifier{1, 2, 840, 113549, 1, 9, 4}
	oidAttrSigCertV2 = asn1.ObjectIdentifier{1, 2, 840, 113549, 1, 9, 16, 2, 47}
	oidSHA256        = asn1.ObjectIdentifier{2, 16, 840, 1, 101, 3, 4, 2, 1}
	oidECDSASHA256   = asn1.ObjectIdentifier{1, 2, 840, 10045, 4, 3, 2}
	oidTSAPolicy     = asn1.ObjectIdentifier{1, 3, 6, 1, 4, 1, 99999, 9, 1}
)

type cmsAttribute struct {
	Type   asn1.ObjectIdentifier
	Values asn1.RawValue
}
type essCertIDv2 struct{ CertHash []byte }
type signingCertificateV2 struct{ Certificates []essCertIDv2 }
type issuerAndSerial struct {
	Issuer       asn1.RawValue
	SerialNumber *big.Int
}
type cmsSignerInfo struct {
	Version            int
	SignerIdentifier   issuerAndSerial
	DigestAlgorithm    pkix.AlgorithmIdentifier
	SignedAttributes   asn1.RawValue
	SignatureAlgorithm pkix.AlgorithmIdentifier
	Signature          []byte
}
type encapContentInfo struct {
	ContentType asn1.ObjectIdentifier
	Content     []byte `asn1:"explicit,tag:0"`
}
type cmsSignedData struct {
	Version          int
	DigestAlgorithms []pkix.AlgorithmIdentifier `asn1:"set"`
	EncapContentInfo encapContentInfo
	Certificates     asn1.RawValue
	SignerInfos      []cmsSignerInfo `asn1:"set"`
}
type cmsContentInfo struct {
	ContentType asn1.ObjectIdentifier
	Content     asn1.RawValue
}

func mustASN1(v any, params string) []byte {
	b, err := asn1.MarshalWithParams(v, params)
	if err != nil {
		panic(err)
	}
	return b
}
func cmsAttr(id asn1.ObjectIdentifier, value any) cmsAttribute {
	inner := mustASN1(value, "")
	set := mustASN1(asn1.RawValue{Class: asn1.ClassUniversal, Tag: asn1.TagSet, IsCompound: true, Bytes: inner}, "")
	return cmsAttribute{Type: id, Values: asn1.RawValue{FullBytes: set}}
}

var tsaSerial int64 = 900000

// tsaToken issues a token over imprint/nonce signed by chain[0] (an EC P-256 key) embedding the chain
func tsaToken(imprint tspclient.MessageImprint, nonce *big.Int, chain []*Cert) []byte {
	tsaSerial++
	info := tspclient.TSTInfo{Version: 1, Policy: oidTSAPolicy, MessageImprint: imprint, SerialNumber: big.NewInt(tsaSerial),
		GenTime: time.Now().UTC().Truncate(time.Second), Accuracy: tspclient.Accuracy{Seconds: 1}, Nonce: nonce}
	tst := mustASN1(info, "")
	tstDigest := sha256.Sum256(tst)
	leaf := chain[0]
	leafHash := sha256.Sum256(leaf.X.Raw)
	attrs := []cmsAttribute{cmsAttr(oidAttrCT, oidTSTInfo), cmsAttr(oidAttrMD, tstDigest[:]),
		cmsAttr(oidAttrSigCertV2, signingCertificateV2{Certificates: []essCertIDv2{{CertHash: leafHash[:]}}})}
	attrSet := mustASN1(attrs, "set")
	toSign := sha256.Sum256(attrSet)
	sig, err := leaf.Key.Sign(rand.Reader, toSign[:], crypto.SHA256)
	if err != nil {
		panic(err)
	}
	implicitAttrs := append([]byte{0xA0}, attrSet[1:]...)
	var rawCerts []byte
	for _, c := range chain {
		rawCerts = append(rawCerts, c.X.Raw...)
	}
	certs := mustASN1(asn1.RawValue{Class: asn1.ClassContextSpecific, Tag: 0, IsCompound: true, Bytes: rawCerts}, "")
	sd := cmsSignedData{Version: 3, DigestAlgorithms: []pkix.AlgorithmIdentifier{{Algorithm: oidSHA256}},
		EncapContentInfo: encapContentInfo{ContentType: oidTSTInfo, Content: tst}, Certificates: asn1.RawValue{FullBytes: certs},
		SignerInfos: []cmsSignerInfo{{Version: 1, SignerIdentifier: issuerAndSerial{Issuer: asn1.RawValue{FullBytes: leaf.X.RawIssuer}, SerialNumber: leaf.X.SerialNumber},
			DigestAlgorithm: pkix.AlgorithmIdentifier{Algorithm: oidSHA256}, SignedAttributes: asn1.RawValue{FullBytes: implicitAttrs},
			SignatureAlgorithm: pkix.AlgorithmIdentifier{Algorithm: oidECDSASHA256}, Signature: sig}}}
	return mustASN1(cmsContentInfo{ContentType: oidSignedData, Content: asn1.RawValue{Class: asn1.ClassContextSpecific, Tag: 0, IsCompound: true, Bytes: mustASN1(sd, "")}}, "")
}

// fakeTSA: behaviour in {granted, rejected, wrong-imprint, wrong-nonce, garbage, http500, wrong-content-type, transport, empty}
type fakeTSA struct {
	mu       sync.Mutex
	behav    string
	chain    []*Cert
	calls    int
	issued   [][]byte
	requests []*tspclient.Request
}

func (t *fakeTSA) RoundTrip(hreq *http.Request) (*http.Response, error) {
	t.mu.Lock()
	defer t.mu.Unlock()
	t.calls++
	body, _ := io.ReadAll(hreq.Body)
	var req tspclient.Request
	if err := req.UnmarshalBinary(body); err != nil {
		return httpBody(400, nil)
	}
	t.requests = append(t.requests, &req)
	reply := func(b []byte, ct string) (*http.Response, error) {
		r, _ := httpBody(200, b)
		r.Header.Set("Content-Type", ct)
		r.Request = hreq
		return r, nil
	}
	switch t.behav {
	case "transport":
		return nil, errors.New("connection refused (injected)")
	case "http500":
		return httpBody(500, nil)
	case "empty":
		return reply(nil, tspclient.MediaTypeTimestampReply)
	case "garbage":
		return reply([]byte("not a timestamp response"), tspclient.MediaTypeTimestampReply)
	case "rejected":
		resp := tspclient.Response{Status: pki.StatusInfo{Status: pki.StatusRejection}}
		b, _ := resp.MarshalBinary()
		return reply(b, tspclient.MediaTypeTimestampReply)
	}
	imprint, nonce := req.MessageImprint, req.Nonce
	switch t.behav {
	case "wrong-imprint":
		h := append([]byte{}, imprint.HashedMessage...)
		h[0] ^= 0xff
		imprint = tspclient.MessageImprint{HashAlgorithm: imprint.HashAlgorithm, HashedMessage: h}
	case "wrong-nonce":
		nonce = new(big.Int).Add(req.Nonce, big.NewInt(1))
	}
	tok := tsaToken(imprint, nonce, t.chain)
	t.issued = append(t.issued, tok)
	resp := tspclient.Response{Status: pki.StatusInfo{Status: pki.StatusGranted}, TimestampToken: asn1.RawValue{FullBytes: tok}}
	b, err := resp.MarshalBinary()
	if err != nil {
		panic(err)
	}
	if t.behav == "wrong-content-type" {
		return reply(b, "application/octet-stream")
	}
	return reply(b, tspclient.MediaTypeTimestampReply)
}

func (t *fakeTSA) timestamper() tspclient.Timestamper {
	ts, err := tspclient.NewHTTPTimestamper(&http.Client{Transport: t, Timeout: 5 * time.Second}, "http://tsa.test/ts")
	if err != nil {
		panic(err)
	}
	return ts
}

// fakeValidator returns a configured vector of results (or an error) for any chain
type fakeValidator struct {
	err     bool
	results []int // result.Result values
	calls   int
}

func (v *fakeValidator) Validate(chain []*x509.Certificate, t time.Time) ([]*result.CertRevocationResult, error) {
	return v.ValidateContext(context.Background(), revocation.ValidateContextOptions{CertChain: chain, AuthenticSigningTime: t})
}
func (v *fakeValidator) ValidateContext(ctx context.Context, opts revocation.ValidateContextOptions) ([]*result.CertRevocationResult, error) {
	v.calls++
	if v.err {
		return nil, errors.New("revocation validator failed (injected)")
	}
	out := make([]*result.CertRevocationResult, len(v.results))
	for i, r := range v.results {
		out[i] = &result.CertRevocationResult{Result: result.Result(r), ServerResults: []*result.ServerResult{{Result: result.Result(r)}}}
	}
	return out, nil
}

var _ = bytes.Equal
