package main

import (
	"crypto"
	"crypto/ecdsa"
	"crypto/ed25519"
	"crypto/rsa"
	"crypto/sha256"
	"crypto/x509"
	"crypto/x509/pkix"
	"encoding/asn1"
	"fmt"
	"strings"
	"sync"
	"time"
)

// ---------- abstraction of a parsed certificate into the model's cert record ----------

type idTable struct {
	mu sync.Mutex
	m  map[[32]byte]int
}

func (t *idTable) id(b []byte) int {
	t.mu.Lock()
	defer t.mu.Unlock()
	if t.m == nil {
		t.m = map[[32]byte]int{}
	}
	h := sha256.Sum256(b)
	if v, ok := t.m[h]; ok {
		return v
	}
	v := len(t.m) + 1
	t.m[h] = v
	return v
}

var rawIDs, nameIDs, urlIDs idTable

func extCrit(x *x509.Certificate, oid []int) int {
	for _, e := range x.Extensions {
		if e.Id.Equal(oid) {
			if e.Critical {
				return ExtCritical
			}
			return ExtNonCritical
		}
	}
	return ExtAbsent
}

func pkTerm(x *x509.Certificate) string {
	switch k := x.PublicKey.(type) {
	case *rsa.PublicKey:
		return fmt.Sprintf("(PkRSA %d)", k.N.BitLen())
	case *ecdsa.PublicKey:
		return fmt.Sprintf("(PkEC %d)", k.Curve.Params().BitSize)
	case ed25519.PublicKey:
		return "PkEd25519"
	}
	return "PkOther"
}

// certTerm renders the model's cert record for x at chain position idx.
func certTerm(x *x509.Certificate, idx int) string {
	ekus := make([]int, len(x.ExtKeyUsage))
	for i, e := range x.ExtKeyUsage {
		ekus[i] = int(e)
	}
	var ocsp, crl []int
	for _, u := range x.OCSPServer {
		ocsp = append(ocsp, urlIDs.id([]byte(u)))
	}
	for _, u := range x.CRLDistributionPoints {
		crl = append(crl, urlIDs.id([]byte(u)))
	}
	fresh := false
	for _, e := range x.Extensions {
		if e.Id.Equal(oidFreshest) {
			fresh = true
		}
	}
	serial := "0"
	if x.SerialNumber != nil {
		serial = x.SerialNumber.String()
		if x.SerialNumber.Sign() < 0 {
			serial = "(" + serial + ")"
		}
	}
	return fmt.Sprintf("(Cert %d %d %d %d %s %s %s %s %s %s %s %d %d %s %d %d %s %s %s %s)",
		idx, rawIDs.id(x.Raw), nameIDs.id(x.RawSubject), nameIDs.id(x.RawIssuer), serial,
		timeTermNZ(x.NotBefore), timeTermNZ(x.NotAfter),
		cB(x.BasicConstraintsValid), cB(x.IsCA), cZ(int64(x.MaxPathLen)), cB(x.MaxPathLenZero),
		int(x.KeyUsage), extCrit(x, oidKU), cInts(ekus), len(x.UnknownExtKeyUsage), extCrit(x, oidEKU),
		pkTerm(x), cInts(ocsp), cInts(crl), cB(fresh))
}

func chainTerm(xs []*x509.Certificate) string {
	t := make([]string, len(xs))
	for i, x := range xs {
		t[i] = certTerm(x, i)
	}
	return cList(t)
}

// oracle answers, computed by calling the same stdlib methods the code calls
func oracleTerms(xs []*x509.Certificate) (string, string) {
	rows := make([]string, len(xs))
	ss := make([]string, len(xs))
	for i, c := range xs {
		cols := make([]string, len(xs))
		for j, p := range xs {
			cols[j] = cB(c.CheckSignatureFrom(p) == nil)
		}
		rows[i] = cList(cols)
		ss[i] = cB(c.CheckSignature(c.SignatureAlgorithm, c.RawTBSCertificate, c.Signature) == nil)
	}
	return cList(rows), cList(ss)
}

// ---------- chain plans ----------

type certPlan struct {
	spec            CertSpec
	selfSigned      bool   // issue self-signed regardless of position
	signKey         string // sign with this pool key instead of the parent's
	issuerCN        string // name this issuer instead of the parent's subject
	twinOfNext      bool   // same subject and key as the next certificate (a re-issued copy), signed by that key
	issuerReordered bool   // the issuer field has the parent's attributes in another order (a different DN with the same String())
}

type chainPlan struct {
	certs  []certPlan // leaf first
	labels []string
}

func (p *chainPlan) clone() *chainPlan {
	q := &chainPlan{certs: make([]certPlan, len(p.certs)), labels: append([]string{}, p.labels...)}
	copy(q.certs, p.certs)
	for i := range q.certs {
		q.certs[i].spec.EKU = append([]string{}, p.certs[i].spec.EKU...)
		q.certs[i].spec.OCSP = append([]string{}, p.certs[i].spec.OCSP...)
		q.certs[i].spec.CRL = append([]string{}, p.certs[i].spec.CRL...)
		q.certs[i].spec.Extra = append([]pkix.Extension{}, p.certs[i].spec.Extra...)
	}
	return q
}

var chainT0 = baseTime

// conformant chain of n certificates for the given purpose ("cs" or "ts")
func basePlan(n int, purpose string, leafKey string) *chainPlan {
	p := &chainPlan{}
	caKeys := []string{"ec256a", "ec384", "ec256c", "ec521", "ec256a"}
	for i := 0; i < n; i++ {
		var s CertSpec
		s.NotBefore = chainT0.Add(-time.Duration(i+1) * 24 * time.Hour)
		s.NotAfter = chainT0.Add(time.Duration(i+1) * 30 * 24 * time.Hour)
		if i == 0 {
			s.CN = fmt.Sprintf("leaf-%s", purpose)
			s.KeyName = leafKey
			s.KU = x509.KeyUsageDigitalSignature
			s.KUExt = ExtCritical
			if purpose == "ts" {
				s.EKU = []string{"ts"}
				s.EKUExt = ExtCritical
			}
		} else {
			s.CN = fmt.Sprintf("ca-%d-of-%d", i, n)
			s.KeyName = caKeys[(i-1)%len(caKeys)]
			s.BC = true
			s.IsCA = true
			s.MaxPathLen = -1
			s.KU = x509.KeyUsageCertSign | x509.KeyUsageCRLSign
			s.KUExt = ExtCritical
		}
		p.certs = append(p.certs, certPlan{spec: s})
	}
	return p
}

type builtChain struct {
	certs []*Cert
	xs    []*x509.Certificate
}

func (p *chainPlan) build() *builtChain {
	n := len(p.certs)
	out := make([]*Cert, n)
	for i := n - 1; i >= 0; i-- {
		cp := p.certs[i]
		var parent *Cert
		if i < n-1 && !cp.selfSigned {
			parent = out[i+1]
		}
		spec := cp.spec
		if cp.twinOfNext && i < n-1 {
			spec.CN = p.certs[i+1].spec.CN
			spec.KeyName = p.certs[i+1].spec.KeyName
			parent = nil // self-issued with the shared key: signed by, and naming, the twin as well
		}
		if cp.issuerCN != "" {
			spec.IssuerName = &pkix.Name{CommonName: cp.issuerCN, Organization: []string{"verif"}}
		}
		if cp.issuerReordered {
			pcn := spec.CN // a self-issued certificate names itself
			if parent != nil {
				pcn = parent.Spec.CN
			}
			spec.IssuerName = &pkix.Name{ExtraNames: []pkix.AttributeTypeAndValue{
				{Type: asn1.ObjectIdentifier{2, 5, 4, 3}, Value: pcn}, {Type: asn1.ObjectIdentifier{2, 5, 4, 10}, Value: "verif"}}}
		}
		var sk crypto.Signer
		if cp.signKey != "" {
			sk = Key(cp.signKey)
		}
		out[i] = Issue(spec, parent, sk)
	}
	b := &builtChain{certs: out}
	for _, c := range out {
		b.xs = append(b.xs, c.X)
	}
	return b
}

var _ = strings.Join

// ---------- modifications: violations and benign variations ----------

type chainMod struct {
	name   string
	benign bool
	// apply modifies plan p at position pos; returns false when not applicable there
	apply func(p *chainPlan, pos int, purpose string) bool
}

func isLeaf(pos int) bool { return pos == 0 }

func leafOnly(f func(s *CertSpec)) func(p *chainPlan, pos int, purpose string) bool {
	return func(p *chainPlan, pos int, purpose string) bool {
		if pos != 0 {
			return false
		}
		f(&p.certs[0].spec)
		return true
	}
}
func caOnly(f func(s *CertSpec, pos int, n int)) func(p *chainPlan, pos int, purpose string) bool {
	return func(p *chainPlan, pos int, purpose string) bool {
		if pos == 0 {
			return false
		}
		f(&p.certs[pos].spec, pos, len(p.certs))
		return true
	}
}
func anyPos(f func(cp *certPlan, pos, n int) bool) func(p *chainPlan, pos int, purpose string) bool {
	return func(p *chainPlan, pos int, purpose string) bool { return f(&p.certs[pos], pos, len(p.certs)) }
}

func chainMods() []chainMod {
	var ms []chainMod
	add := func(name string, benign bool, f func(p *chainPlan, pos int, purpose string) bool) {
		ms = append(ms, chainMod{name, benign, f})
	}
	// --- key usage of the leaf
	kuBitsNames := map[string]x509.KeyUsage{
		"contentCommitment": x509.KeyUsageContentCommitment, "keyEncipherment": x509.KeyUsageKeyEncipherment,
		"dataEncipherment": x509.KeyUsageDataEncipherment, "keyAgreement": x509.KeyUsageKeyAgreement,
		"certSign": x509.KeyUsageCertSign, "crlSign": x509.KeyUsageCRLSign,
		"encipherOnly": x509.KeyUsageEncipherOnly | x509.KeyUsageKeyAgreement, "decipherOnly": x509.KeyUsageDecipherOnly | x509.KeyUsageKeyAgreement,
		"encipherOnlyAlone": x509.KeyUsageEncipherOnly, "decipherOnlyAlone": x509.KeyUsageDecipherOnly,
	}
	for _, nm := range []string{"contentCommitment", "keyEncipherment", "dataEncipherment", "keyAgreement", "certSign", "crlSign", "encipherOnly", "decipherOnly", "encipherOnlyAlone", "decipherOnlyAlone"} {
		bit := kuBitsNames[nm]
		add("leaf-ku+"+nm, nm == "contentCommitment", leafOnly(func(s *CertSpec) { s.KU |= bit }))
	}
	add("leaf-ku-nodigsig", false, leafOnly(func(s *CertSpec) { s.KU = x509.KeyUsageContentCommitment }))
	add("leaf-ku-noncritical", false, func(p *chainPlan, pos int, purpose string) bool {
		if pos != 0 {
			return false
		}
		p.certs[0].spec.KUExt = ExtNonCritical
		return true
	})
	add("leaf-ku-absent", false, leafOnly(func(s *CertSpec) { s.KUExt = ExtAbsent }))
	// --- extended key usage of the leaf
	for _, e := range []string{"server", "client", "email", "ts", "ocsp", "code", "any", "other"} {
		e := e
		add("leaf-eku+"+e, false, leafOnly(func(s *CertSpec) {
			s.EKU = append(s.EKU, e)
			if s.EKUExt == ExtAbsent {
				s.EKUExt = ExtNonCritical
			}
		}))
	}
	add("leaf-eku-critical-flip", false, leafOnly(func(s *CertSpec) {
		if len(s.EKU) == 0 {
			s.EKU = []string{"code"}
			s.EKUExt = ExtCritical
		} else if s.EKUExt == ExtCritical {
			s.EKUExt = ExtNonCritical
		} else {
			s.EKUExt = ExtCritical
		}
	}))
	add("leaf-eku-removed", false, leafOnly(func(s *CertSpec) { s.EKU = nil; s.EKUExt = ExtAbsent }))
	add("leaf-eku-ts-twice", false, leafOnly(func(s *CertSpec) { s.EKU = []string{"ts", "ts"}; s.EKUExt = ExtCritical }))
	// --- basic constraints of the leaf
	add("leaf-is-ca", false, leafOnly(func(s *CertSpec) { s.BC = true; s.IsCA = true; s.MaxPathLen = -1 }))
	add("leaf-bc-notca", true, leafOnly(func(s *CertSpec) { s.BC = true; s.IsCA = false; s.MaxPathLen = -1 }))
	// --- leaf keys
	for _, k := range []string{"rsa1024", "rsa2040", "rsa2050", "ec224", "ed25519"} {
		k := k
		add("leaf-key-"+k, false, leafOnly(func(s *CertSpec) { s.KeyName = k }))
	}
	for _, k := range []string{"rsa2048a", "rsa3072", "rsa4096", "ec384", "ec521"} {
		k := k
		add("leaf-key-"+k, true, leafOnly(func(s *CertSpec) { s.KeyName = k }))
	}
	// --- CA rules
	add("ca-bc-absent", false, caOnly(func(s *CertSpec, pos, n int) { s.BC = false; s.IsCA = false }))
	add("ca-bc-notca", false, caOnly(func(s *CertSpec, pos, n int) { s.BC = true; s.IsCA = false; s.MaxPathLen = -1 }))
	add("ca-ku-nocertsign", false, caOnly(func(s *CertSpec, pos, n int) { s.KU = x509.KeyUsageCRLSign | x509.KeyUsageDigitalSignature }))
	add("ca-ku-noncritical", false, caOnly(func(s *CertSpec, pos, n int) { s.KUExt = ExtNonCritical }))
	add("ca-ku-absent", false, caOnly(func(s *CertSpec, pos, n int) { s.KUExt = ExtAbsent }))
	add("ca-ku+digsig", true, caOnly(func(s *CertSpec, pos, n int) { s.KU |= x509.KeyUsageDigitalSignature }))
	add("ca-pathlen=depth-1", false, func(p *chainPlan, pos int, purpose string) bool {
		if pos < 2 {
			return false // depth 0: constraint would be negative
		}
		p.certs[pos].spec.MaxPathLen = pos - 2
		return true
	})
	add("ca-pathlen=depth", true, caOnly(func(s *CertSpec, pos, n int) { s.MaxPathLen = pos - 1 }))
	add("ca-pathlen=depth+1", true, caOnly(func(s *CertSpec, pos, n int) { s.MaxPathLen = pos }))
	add("ca-pathlen=0", false, caOnly(func(s *CertSpec, pos, n int) { s.MaxPathLen = 0 }))
	add("ca-key-rsa1024", true, caOnly(func(s *CertSpec, pos, n int) { s.KeyName = "rsa1024" }))
	add("ca-key-ed25519", true, caOnly(func(s *CertSpec, pos, n int) { s.KeyName = "ed25519" }))
	add("ca-key-rsa2048", true, caOnly(func(s *CertSpec, pos, n int) { s.KeyName = "rsa2048b" }))
	add("ca-eku-server", true, caOnly(func(s *CertSpec, pos, n int) { s.EKU = []string{"server"}; s.EKUExt = ExtNonCritical }))
	// --- issuance
	add("wrong-issuer-name", false, anyPos(func(cp *certPlan, pos, n int) bool { cp.issuerCN = "somebody else"; return true }))
	// the extended key usage extension as the first extension of the leaf, critical and not
	add("leaf-eku-first", true, func(p *chainPlan, pos int, purpose string) bool {
		if pos != 0 || len(p.certs[0].spec.EKU) == 0 {
			return false
		}
		p.certs[0].spec.EKUFirst = true
		return true
	})
	add("leaf-eku-first-noncritical", false, func(p *chainPlan, pos int, purpose string) bool {
		if pos != 0 || purpose != "ts" || len(p.certs[0].spec.EKU) == 0 {
			return false
		}
		p.certs[0].spec.EKUFirst = true
		p.certs[0].spec.EKUExt = ExtNonCritical
		return true
	})
	add("issuer-name-reordered", false, anyPos(func(cp *certPlan, pos, n int) bool { cp.issuerReordered = true; return true }))
	add("wrong-signer-key", false, anyPos(func(cp *certPlan, pos, n int) bool { cp.signKey = "ec256b"; return pos < n-1 || true }))
	add("self-signed-here", false, anyPos(func(cp *certPlan, pos, n int) bool {
		if pos == n-1 {
			return false
		}
		cp.selfSigned = true
		return true
	}))
	// self-issued certificates inside the chain whose authority key identifier differs from their subject key identifier
	add("self-signed-here-odd-aki", false, anyPos(func(cp *certPlan, pos, n int) bool {
		if pos == n-1 {
			return false
		}
		cp.selfSigned = true
		cp.spec.AKI = []byte{0xde, 0xad, 0xbe, 0xef, 1, 2, 3, 4}
		return true
	}))
	add("twin-of-next-odd-aki", false, anyPos(func(cp *certPlan, pos, n int) bool {
		if pos == n-1 || pos == 0 {
			return false
		}
		cp.twinOfNext = true
		cp.spec.AKI = []byte{0xde, 0xad, 0xbe, 0xef, 5, 6, 7, 8}
		return true
	}))
	add("root-odd-aki", true, func(p *chainPlan, pos int, purpose string) bool {
		p.certs[len(p.certs)-1].spec.AKI = []byte{9, 9, 9, 9}
		return pos == len(p.certs)-1
	})
	add("twin-of-next", false, anyPos(func(cp *certPlan, pos, n int) bool {
		if pos == n-1 || pos == 0 {
			return false
		}
		cp.twinOfNext = true
		return true
	}))
	add("root-not-self-signed", false, func(p *chainPlan, pos int, purpose string) bool {
		n := len(p.certs)
		if pos != n-1 {
			return false
		}
		// the last certificate is issued by a CA that is not part of the chain
		p.certs[n-1].issuerCN = "absent parent"
		p.certs[n-1].signKey = "ec521"
		return true
	})
	add("swap-with-next", false, func(p *chainPlan, pos int, purpose string) bool {
		// handled at build time by the caller (order violation)
		return false
	})
	add("extra-noncritical-ext", true, anyPos(func(cp *certPlan, pos, n int) bool {
		cp.spec.Extra = append(cp.spec.Extra, pkix.Extension{Id: []int{1, 3, 6, 1, 4, 1, 99999, 7}, Value: []byte{5, 0}})
		return true
	}))
	add("longer-validity", true, anyPos(func(cp *certPlan, pos, n int) bool {
		cp.spec.NotBefore = cp.spec.NotBefore.Add(-1000 * time.Hour)
		cp.spec.NotAfter = cp.spec.NotAfter.Add(1000 * time.Hour)
		return true
	}))
	return ms
}
