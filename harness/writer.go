package main

import (
	"crypto/sha256"
	"encoding/hex"
	"encoding/json"
	"fmt"
	"os"
	"path/filepath"
	"sort"
	"strings"
)

// CaseWriter collects the cases of one run: the Coq term of each case (abstract model
// input + projected implementation output), a JSON description for replay/evidence,
// and the input-distribution counters.
type CaseWriter struct {
	Prop      string
	OutDir    string
	RunModule string // Coq module that defines case and check_all, e.g. NCG.Run.C19
	ShardSize int

	n         int
	terms     []string
	descs     []json.RawMessage
	seenAll   map[string]bool
	seenNT    map[string]bool
	Dist      map[string]int
	samples   []json.RawMessage
	sampleCls map[string]int
	Notes     []string
	Extra     map[string]any
}

func NewCaseWriter(prop, out, mod string) *CaseWriter {
	return &CaseWriter{Prop: prop, OutDir: out, RunModule: mod, ShardSize: 500,
		seenAll: map[string]bool{}, seenNT: map[string]bool{}, Dist: map[string]int{}, sampleCls: map[string]int{}, Extra: map[string]any{}}
}

func (w *CaseWriter) Count(key string) { w.Dist[key]++ }

// NextID returns the id the next emitted case will get.
func (w *CaseWriter) NextID() int { return w.n }

// Emit adds a case. term is a Coq term of type `case` in which the literal @ID@ is
// replaced by the case id. class is a short label of the behaviour class (used for the
// distribution and for choosing samples); nontrivial says whether the case exercises
// more than the default path. Identical terms are emitted once.
func (w *CaseWriter) Emit(term string, desc any, class string, nontrivial bool) {
	h := sha256.Sum256([]byte(term))
	k := hex.EncodeToString(h[:12])
	w.Dist["class:"+class]++
	w.Dist["generated"]++
	if w.seenAll[k] {
		w.Dist["duplicates_skipped"]++
		return
	}
	w.seenAll[k] = true
	if nontrivial {
		w.seenNT[k] = true
	}
	id := w.n
	w.n++
	w.terms = append(w.terms, strings.ReplaceAll(term, "@ID@", fmt.Sprint(id)))
	d, _ := json.Marshal(map[string]any{"id": id, "class": class, "case": desc})
	w.descs = append(w.descs, d)
	if w.sampleCls[class] < 1 && len(w.samples) < 12 {
		w.sampleCls[class]++
		w.samples = append(w.samples, d)
	}
}

func (w *CaseWriter) Flush() error {
	if err := os.MkdirAll(w.OutDir, 0o755); err != nil {
		return err
	}
	old, _ := filepath.Glob(filepath.Join(w.OutDir, "cases_*"))
	for _, f := range old {
		os.Remove(f)
	}
	shards := 0
	for i := 0; i < len(w.terms); i += w.ShardSize {
		j := i + w.ShardSize
		if j > len(w.terms) {
			j = len(w.terms)
		}
		var b strings.Builder
		fmt.Fprintf(&b, "From NCG Require Import %s.\nImport ListNotations.\nOpen Scope Z_scope.\n", w.RunModule)
		fmt.Fprintf(&b, "Definition cases : list case := [\n")
		for k := i; k < j; k++ {
			b.WriteString("  ")
			b.WriteString(w.terms[k])
			if k+1 < j {
				b.WriteString(";")
			}
			b.WriteString("\n")
		}
		fmt.Fprintf(&b, "].\nDefinition R := Eval vm_compute in (check_all cases).\nPrint R.\n")
		name := filepath.Join(w.OutDir, fmt.Sprintf("cases_%03d.v", shards))
		if err := os.WriteFile(name, []byte(b.String()), 0o644); err != nil {
			return err
		}
		shards++
	}
	f, err := os.Create(filepath.Join(w.OutDir, "cases.jsonl"))
	if err != nil {
		return err
	}
	for _, d := range w.descs {
		f.Write(d)
		f.Write([]byte("\n"))
	}
	f.Close()
	keys := make([]string, 0, len(w.Dist))
	for k := range w.Dist {
		keys = append(keys, k)
	}
	sort.Strings(keys)
	meta := map[string]any{
		"property": w.Prop, "evaluations": w.n, "distinct_nontrivial": len(w.seenNT),
		"shards": shards, "shard_size": w.ShardSize, "distribution": w.Dist, "samples": w.samples, "notes": w.Notes, "extra": w.Extra,
	}
	mb, _ := json.MarshalIndent(meta, "", " ")
	return os.WriteFile(filepath.Join(w.OutDir, "meta.json"), mb, 0o644)
}

// ---- Coq term helpers ----

func cZ(n int64) string {
	if n < 0 {
		return fmt.Sprintf("(%d)", n)
	}
	return fmt.Sprint(n)
}
func cB(b bool) string {
	if b {
		return "true"
	}
	return "false"
}
func cList(xs []string) string { return "[" + strings.Join(xs, "; ") + "]" }
func cZs(xs []int64) string {
	s := make([]string, len(xs))
	for i, x := range xs {
		s[i] = cZ(x)
	}
	return cList(s)
}
func cInts(xs []int) string {
	s := make([]string, len(xs))
	for i, x := range xs {
		s[i] = cZ(int64(x))
	}
	return cList(s)
}
func cOpt(present bool, v string) string {
	if !present {
		return "None"
	}
	return "(Some " + v + ")"
}
