package main

import "time"

func init() { register("C11", "Run.C11", genC11) }

// method selection: 0..3 responders x 0..3 distribution points, all outcome classes per source
func genC11(tier string, rng *RNG, w *CaseWriter) {
	w.ShardSize = 200
	oAl := []ocspBehav{oGood, oRevoked, oUnknown, oErr}
	cAl := []dpBehav{dpByName("clean"), dpByName("lists-cert"), dpByName("fetch-fail")}
	oExtra := []ocspBehav{oBadURL, oStale, oForged, {Kind: "http500"}, {Kind: "canned-trylater"}, respB("issuer", 1, "+1h", "after")}
	cExtra := []dpBehav{dpByName("expired"), dpByName("wrong-signer"), dpByName("delta-clean"), dpByName("lists-hold"), dpByName("delta-number-equal")}
	randPlan := func() srcPlan {
		var p srcPlan
		for k := rng.Intn(3); k > 0; k-- {
			if rng.Chance(1, 4) {
				p.O = append(p.O, Pick(rng, oExtra))
			} else {
				p.O = append(p.O, Pick(rng, oAl))
			}
		}
		for k := rng.Intn(3); k > 0; k-- {
			if rng.Chance(1, 4) {
				p.C = append(p.C, Pick(rng, cExtra))
			} else {
				p.C = append(p.C, Pick(rng, cAl))
			}
		}
		return p
	}
	n := 0
	run := func(leaf srcPlan, exhaustiveCell bool) {
		n++
		entry := 0
		if n%5 == 4 {
			entry = 1
		}
		purp := "cs"
		if n%7 == 3 {
			purp = "ts"
		}
		st := time.Time{}
		if n%3 == 1 {
			st = stRef
		}
		plans := []srcPlan{leaf}
		for k := (n / 2) % 3; k > 0; k-- { // chain length 2..4
			plans = append(plans, randPlan())
		}
		revSelfIssuedIntermediate = n%4 == 2 // only chains of three and more have the CA it renames
		emitRev(w, buildPlanCase(entry, purp, plans, st, n%11 == 5), true)
		revSelfIssuedIntermediate = false
	}
	for nO := 0; nO <= 3; nO++ {
		for nC := 0; nC <= 3; nC++ {
			os, cs := seqs(oAl, nO), seqs(cAl, nC)
			full := tier == "thorough" || (nO <= 2 && nC <= 2) || nO+nC <= 4 && len(os)*len(cs) <= 200
			for i, o := range os {
				for j, c := range cs {
					if !full && (i*37+j*11+nO+nC)%9 != 0 {
						continue
					}
					run(srcPlan{O: o, C: c}, full)
				}
			}
		}
	}
	// both entry points on the same leaf plans (standalone never consults CRLs)
	for _, o := range seqs(oAl, 2) {
		for _, c := range seqs(cAl, 1) {
			for _, entry := range []int{0, 1} {
				emitRev(w, buildPlanCase(entry, "cs", []srcPlan{{O: o, C: c}}, time.Time{}, false), true, "paired-entry")
			}
		}
	}
	extra := 300
	if tier == "thorough" {
		extra = 6000
	}
	for k := 0; k < extra; k++ {
		plans := []srcPlan{randPlan()}
		for j := rng.Intn(3); j > 0; j-- {
			plans = append(plans, randPlan())
		}
		st := time.Time{}
		if rng.Bool() {
			st = stRef
		}
		purp := "cs"
		if rng.Chance(1, 5) {
			purp = "ts"
		}
		emitRev(w, buildPlanCase(rng.Intn(2), purp, plans, st, rng.Chance(1, 6)), true, "random")
	}
}
