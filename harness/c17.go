package main

import (
	"fmt"
	"time"
)

func init() { register("C17", "Run.C17", genC17) }

func perms(xs []int) [][]int {
	if len(xs) <= 1 {
		return [][]int{append([]int{}, xs...)}
	}
	var out [][]int
	for i := range xs {
		rest := append(append([]int{}, xs[:i]...), xs[i+1:]...)
		for _, p := range perms(rest) {
			out = append(out, append([]int{xs[i]}, p...))
		}
	}
	return out
}

func emitC17(w *CaseWriter, rc *revCase, extra ...string) {
	term, desc, outs, panicked := runRevCase(rc)
	pan := "[]"
	var ps []string
	for i, v := range rc.PanicAt {
		ps = append(ps, fmt.Sprintf("(%d%%nat, %d)", i, valueIDs.id([]byte("panic:"+v))))
	}
	sortStrings(ps)
	if len(ps) > 0 {
		pan = cList(ps)
	}
	implPanic := 0
	if panicked {
		implPanic = -1
		for _, v := range rc.PanicAt {
			if rc.PanicValue == v {
				implPanic = valueIDs.id([]byte("panic:" + v))
			}
		}
	}
	var order []string
	for _, i := range rc.Order {
		order = append(order, fmt.Sprintf("%d%%nat", i))
	}
	if len(rc.Order) == 0 { // free-running call: any order is as good as another for the model (confluence); use chain order
		for i := 0; i+1 < len(rc.Chain.certs); i++ {
			order = append(order, fmt.Sprintf("%d%%nat", i))
		}
	}
	full := fmt.Sprintf("(mk (Run.Rev.mk @ID@ %s) %s %s %s %s %s)", term, cList(order), pan, cZ(int64(implPanic)), cZ(int64(rc.GoroutineDelta)), cB(rc.CallersAgree))
	desc["order"] = rc.Order
	desc["panic_at"] = rc.PanicAt
	desc["impl_panic_value"] = rc.PanicValue
	desc["goroutine_delta"] = rc.GoroutineDelta
	desc["callers"] = rc.Callers
	desc["callers_agree"] = rc.CallersAgree
	cls := "returned"
	if panicked {
		cls = "panicked"
	}
	_ = outs
	w.Count(fmt.Sprintf("len:%d", len(rc.Chain.certs)))
	w.Count(fmt.Sprintf("entry:%d", rc.Entry))
	for _, e := range extra {
		w.Count(e)
	}
	w.Emit(full, desc, cls, true)
}

func genC17(tier string, rng *RNG, w *CaseWriter) {
	w.ShardSize = 100
	maxLen := 4
	if tier == "thorough" {
		maxLen = 5
	}
	w.Extra["max_chain_len"] = maxLen
	oOut := []ocspBehav{oGood, oRevoked, oUnknown, oErr}
	cOut := []dpBehav{dpByName("clean"), dpByName("lists-cert"), dpByName("fetch-fail")}
	mkPlans := func(n int, variant int) []srcPlan {
		plans := make([]srcPlan, n-1)
		for i := range plans {
			switch (i + variant) % 4 {
			case 0:
				plans[i] = srcPlan{O: []ocspBehav{oOut[(i+variant)%len(oOut)]}}
			case 1:
				plans[i] = srcPlan{C: []dpBehav{cOut[(i+variant)%len(cOut)]}}
			case 2:
				plans[i] = srcPlan{O: []ocspBehav{oErr}, C: []dpBehav{cOut[(i+variant/2)%len(cOut)]}} // OCSP then CRL fallback: two exchanges
			case 3:
				plans[i] = srcPlan{O: []ocspBehav{oOut[(variant)%len(oOut)]}}
			}
		}
		return plans
	}
	// (1) every completion order of the concurrent exchanges, three outcome assignments each
	for n := 2; n <= maxLen; n++ {
		var idx []int
		for i := 0; i < n-1; i++ {
			idx = append(idx, i)
		}
		for variant := 0; variant < 6; variant++ {
			for pi, order := range perms(idx) {
				entry := 0
				plans := mkPlans(n, variant)
				if (pi+variant)%4 == 3 {
					entry = 1
					for i := range plans { // the standalone entry point needs a responder on every certificate for the barrier
						plans[i] = srcPlan{O: []ocspBehav{oOut[(i+pi)%len(oOut)]}}
					}
				}
				rc := buildPlanCase(entry, "cs", plans, time.Time{}, pi%3 == 1 && entry == 0)
				rc.Order = order
				if pi == 0 {
					rc.Callers = []int{1, 8, 32, 2, 4, 16}[variant]
				}
				emitC17(w, rc, "all-orders")
			}
		}
	}
	// (2) a panic injected at each exchange, alone and two at once, under different orders
	for n := 2; n <= maxLen; n++ {
		var idx []int
		for i := 0; i < n-1; i++ {
			idx = append(idx, i)
		}
		ps := perms(idx)
		for at := 0; at < n-1; at++ {
			for _, entry := range []int{0, 1} {
				for k := 0; k < 2 && k < len(ps); k++ {
					plans := mkPlans(n, at+k)
					if entry == 1 {
						for i := range plans {
							plans[i] = srcPlan{O: []ocspBehav{oGood}}
						}
					}
					rc := buildPlanCase(entry, "cs", plans, time.Time{}, false)
					rc.Order = ps[(at+k*3)%len(ps)]
					rc.PanicAt = map[int]string{at: fmt.Sprintf("injected panic at %d", at)}
					if n > 2 && k == 1 {
						rc.PanicAt[(at+1)%(n-1)] = fmt.Sprintf("second injected panic at %d", (at+1)%(n-1))
					}
					emitC17(w, rc, "panic-injected")
				}
			}
		}
		// every exchange panics
		if n > 2 {
			plans := mkPlans(n, 1)
			rc := buildPlanCase(0, "cs", plans, time.Time{}, false)
			rc.Order = ps[len(ps)-1]
			rc.PanicAt = map[int]string{}
			for i := 0; i < n-1; i++ {
				rc.PanicAt[i] = fmt.Sprintf("panic %d of all", i)
			}
			emitC17(w, rc, "panic-all")
		}
	}
	// (3) cancellation before the exchanges, over every order (every exchange fails; the call still returns with nothing left behind)
	for n := 2; n <= maxLen; n++ {
		var idx []int
		for i := 0; i < n-1; i++ {
			idx = append(idx, i)
		}
		for pi, order := range perms(idx) {
			if pi%3 != 0 {
				continue
			}
			rc := buildPlanCase(0, "cs", mkPlans(n, pi), time.Time{}, pi%2 == 0)
			rc.Order = order
			rc.Cancel = "before"
			emitC17(w, rc, "cancelled")
		}
	}
	// (3b) a caller cancelled at each point of its exchanges must not influence other callers sharing the
	// fetcher and its cache: base CRL with a delta over the real HTTPFetcher; the others must see what a
	// run without any cancellation sees
	for _, b := range []string{"delta-lists-cert", "delta-clean", "delta-removes-hold", "clean"} {
		for _, cancel := range []string{"before", "during", "after1", "after1done"} {
			for _, withOCSP := range []bool{false, true} {
				plan := srcPlan{C: []dpBehav{dpByName(b)}}
				if withOCSP {
					plan.O = []ocspBehav{oErr}
				}
				ref := buildPlanCase(0, "cs", []srcPlan{plan}, time.Time{}, true)
				runRevCaseFull(ref)
				rc := buildPlanCase(0, "cs", []srcPlan{plan}, time.Time{}, true)
				rc.Cache, rc.Cancel, rc.Callers, rc.WantCallers = "mem", cancel, 3, ref.Summary
				if withOCSP && (cancel == "after1" || cancel == "after1done") {
					continue // the first exchange is the responder's: covered by the case without a responder
				}
				emitC17(w, rc, "cancelled-caller-then-others")
			}
		}
	}
	// (4) many concurrent callers, free running
	for _, callers := range []int{2, 4, 16, 32} {
		for n := 2; n <= maxLen; n++ {
			rc := buildPlanCase(callers%2, "cs", mkPlans(n, callers), stRef, callers%4 == 0)
			if rc.Entry == 1 {
				plans := make([]srcPlan, n-1)
				for i := range plans {
					plans[i] = srcPlan{O: []ocspBehav{oOut[(i+callers)%len(oOut)]}}
				}
				rc = buildPlanCase(1, "cs", plans, stRef, false)
			}
			rc.Callers = callers
			emitC17(w, rc, "concurrent-callers")
		}
	}
	_ = rng
}
