package main

import (
	"fmt"
	"time"
)

func init() { register("C06", "Run.C06", genC06) }

// fault injection: every OCSP responder URL and every CRL URL of every non-root certificate gets
// a fault or a genuine answer; plus cache faults, cancellation, and the isolation companion run.
func genC06(tier string, rng *RNG, w *CaseWriter) {
	w.ShardSize = 200
	oFaults := []ocspBehav{{Kind: "transport"}, {Kind: "timeout"}, {Kind: "http404"}, {Kind: "http500"}, {Kind: "http302"}, {Kind: "http500-good-body"}, {Kind: "http201-good-body"}, {Kind: "empty"},
		{Kind: "truncated"}, {Kind: "oversized"}, {Kind: "garbage"}, {Kind: "readerr"}, {Kind: "canned-unauthorized"}, {Kind: "canned-malformed"},
		{Kind: "canned-internal"}, {Kind: "canned-trylater"}, {Kind: "canned-sigrequired"}, {Kind: "badurl"}, {Kind: "scheme"}, {Kind: "emptyurl"}, {Kind: "blankurl"}, oStale, oForged,
		respB("issuer", 0, "absent", "none"),
		// an authentic, current Good answer about ANOTHER certificate of the issuer (a misrouted body); siblings that are not authorised responders
		{Kind: "resp", Signer: "issuer", Serial: "other", Status: 0, Next: "+1h", Inv: "none"},
		{Kind: "resp", Signer: "delegate-othereku", Serial: "match", Status: 0, Next: "+1h", Inv: "none"},
		{Kind: "resp", Signer: "sibling-issuer-name", Serial: "match", Status: 0, Next: "+1h", Inv: "none"}}
	oGenuine := []ocspBehav{oGood, oRevoked, oUnknown}
	cFaultKinds := []string{"503", "404", "302", "empty", "garbage", "truncated", "transport", "timeout", "readerr", "delta-nonhttp", "delta-unreachable", "delta-ext-malformed", "500-valid-crl", "404-valid-crl", "201-valid-crl"}
	cInvalid := []dpBehav{dpByName("expired"), dpByName("wrong-signer"), dpByName("no-nextupdate"), dpByName("bad-signature"), dpByName("crit-ext"), dpByName("delta-number-equal")}
	cGenuine := []dpBehav{dpByName("clean"), dpByName("lists-cert"), dpByName("delta-clean")}
	caches := []string{"", "", "miss", "getfail", "setfail", "getfail-discard", "setfail-discard", "stale"}

	type cplan struct {
		srcPlan
		faults []string // per CRL point: "" genuine / http fault kind (then the dpBehav is fetch-fail)
	}
	mkCase := func(entry int, plans []cplan, st time.Time, http bool, cache, cancel string) *revCase {
		sp := make([]srcPlan, len(plans))
		for i, p := range plans {
			sp[i] = p.srcPlan
		}
		rc := buildPlanCase(entry, "cs", sp, st, http)
		rc.Cache, rc.Cancel = cache, cancel
		rc.CRLFault = map[string]string{}
		xs := rc.Chain.xs()
		for i, p := range plans {
			for k, f := range p.faults {
				if f != "" {
					rc.CRLFault[xs[i].CRLDistributionPoints[k]] = f
				}
			}
		}
		rc.Labels = append(rc.Labels, "cache="+cache, "cancel="+cancel)
		return rc
	}
	crlPoint := func(kind int) (dpBehav, string) { // 0 genuine, 1 invalid CRL, 2 download fault
		switch kind {
		case 0:
			return Pick(rng, cGenuine), ""
		case 1:
			return Pick(rng, cInvalid), ""
		}
		return dpByName("fetch-fail"), Pick(rng, cFaultKinds)
	}
	randCert := func(faulty int) cplan { // faulty: 0 mostly genuine, 1 mixed, 2 all faults
		var p cplan
		pickO := func() ocspBehav {
			switch {
			case faulty == 2 || (faulty == 1 && rng.Bool()):
				return Pick(rng, oFaults)
			}
			return Pick(rng, oGenuine)
		}
		for k := rng.Intn(4); k > 0; k-- {
			p.O = append(p.O, pickO())
		}
		for k := rng.Intn(4); k > 0; k-- {
			kind := 0
			if faulty == 2 || (faulty == 1 && rng.Bool()) {
				kind = 1 + rng.Intn(2)
			}
			b, f := crlPoint(kind)
			p.C = append(p.C, b)
			p.faults = append(p.faults, f)
		}
		return p
	}

	// (1) single certificate, single source: every fault on its own, through both entry points, all cache modes
	for _, f := range oFaults {
		for _, entry := range []int{0, 1} {
			emitRev(w, mkCase(entry, []cplan{{srcPlan: srcPlan{O: []ocspBehav{f}}}}, time.Time{}, false, "", ""), true, "single-ocsp-fault")
		}
		// fault first, genuine second, and the reverse
		for _, g := range oGenuine {
			emitRev(w, mkCase(0, []cplan{{srcPlan: srcPlan{O: []ocspBehav{f, g}}}}, stRef, false, "", ""), true, "ocsp-fault-then-genuine")
			emitRev(w, mkCase(1, []cplan{{srcPlan: srcPlan{O: []ocspBehav{g, f}}}}, time.Time{}, false, "", ""), true, "ocsp-genuine-then-fault")
		}
		// OCSP fault + CRL fault: nothing delivered
		emitRev(w, mkCase(0, []cplan{{srcPlan: srcPlan{O: []ocspBehav{f}, C: []dpBehav{dpByName("fetch-fail")}}, faults: []string{Pick(rng, cFaultKinds)}}}, time.Time{}, true, "", ""), true, "ocsp-fault+crl-fault")
		emitRev(w, mkCase(0, []cplan{{srcPlan: srcPlan{O: []ocspBehav{f}, C: []dpBehav{dpByName("clean")}}, faults: []string{""}}}, time.Time{}, true, "miss", ""), true, "ocsp-fault+crl-clean")
	}
	for _, fk := range append(cFaultKinds, "oversized") {
		for _, cache := range []string{"", "miss"} {
			emitRev(w, mkCase(0, []cplan{{srcPlan: srcPlan{C: []dpBehav{dpByName("fetch-fail")}}, faults: []string{fk}}}, time.Time{}, true, cache, ""), true, "single-crl-fault")
		}
		emitRev(w, mkCase(0, []cplan{{srcPlan: srcPlan{C: []dpBehav{dpByName("clean"), dpByName("fetch-fail")}}, faults: []string{"", fk}}}, time.Time{}, true, "", ""), true, "crl-clean-then-fault")
		emitRev(w, mkCase(0, []cplan{{srcPlan: srcPlan{C: []dpBehav{dpByName("fetch-fail"), dpByName("clean")}}, faults: []string{fk, ""}}}, time.Time{}, true, "", ""), true, "crl-fault-then-clean")
	}
	// unsupported URL schemes on distribution points: alone, mixed with http points, at any position, with and without responders
	for _, sch := range []string{"ldap", "https", "ftp"} {
		ff := dpByName("fetch-fail")
		for _, http := range []bool{true, false} {
			emitRev(w, mkCase(0, []cplan{{srcPlan: srcPlan{C: []dpBehav{ff}, CKinds: []string{sch}}, faults: []string{""}}}, time.Time{}, http, "", ""), true, "crl-scheme:"+sch)
			emitRev(w, mkCase(0, []cplan{{srcPlan: srcPlan{C: []dpBehav{ff, ff}, CKinds: []string{sch, "ldap"}}, faults: []string{"", ""}}}, time.Time{}, http, "", ""), true, "crl-scheme:"+sch)
			emitRev(w, mkCase(0, []cplan{{srcPlan: srcPlan{C: []dpBehav{dpByName("clean"), ff}, CKinds: []string{"", sch}}, faults: []string{"", ""}}}, time.Time{}, http, "", ""), true, "crl-scheme:"+sch)
			emitRev(w, mkCase(0, []cplan{{srcPlan: srcPlan{C: []dpBehav{ff, dpByName("clean")}, CKinds: []string{sch, ""}}, faults: []string{"", ""}}}, time.Time{}, http, "", ""), true, "crl-scheme:"+sch)
			emitRev(w, mkCase(0, []cplan{{srcPlan: srcPlan{O: []ocspBehav{oErr}, C: []dpBehav{ff}, CKinds: []string{sch}}, faults: []string{""}}}, time.Time{}, http, "", ""), true, "crl-scheme:"+sch)
			// at an intermediate position
			emitRev(w, mkCase(0, []cplan{{srcPlan: srcPlan{O: []ocspBehav{oGood}}}, {srcPlan: srcPlan{C: []dpBehav{ff}, CKinds: []string{sch}}, faults: []string{""}}}, time.Time{}, http, "", ""), true, "crl-scheme:"+sch)
		}
	}
	// two distribution points whose URLs differ only in the letter case of the path, with a real (in-memory) cache: they are
	// two sources; a fault on either is a fault
	for _, fk := range []string{"503", "garbage", "transport"} {
		for _, order := range [][2]string{{"", fk}, {fk, ""}} {
			bs := []dpBehav{dpByName("clean"), dpByName("clean")}
			for i, f := range order {
				if f != "" {
					bs[i] = dpByName("fetch-fail")
				}
			}
			for _, cache := range []string{"mem", ""} {
				emitRev(w, mkCase(0, []cplan{{srcPlan: srcPlan{C: bs, CKinds: []string{"", "casevariant"}}, faults: []string{order[0], order[1]}}}, time.Time{}, true, cache, ""), true, "crl-url-case-variant")
			}
		}
	}
	emitRev(w, mkCase(0, []cplan{{srcPlan: srcPlan{C: []dpBehav{dpByName("clean"), dpByName("lists-cert")}, CKinds: []string{"", "casevariant"}}, faults: []string{"", ""}}}, time.Time{}, true, "mem", ""), true, "crl-url-case-variant")
	for _, cache := range caches[2:] {
		for _, b := range append(append([]dpBehav{}, cGenuine...), cInvalid[0], dpByName("fetch-fail")) {
			f := ""
			if b.name == "fetch-fail" {
				f = "503"
			}
			emitRev(w, mkCase(0, []cplan{{srcPlan: srcPlan{C: []dpBehav{b}}, faults: []string{f}}}, time.Time{}, true, cache, ""), true, "cache:"+cache)
			emitRev(w, mkCase(0, []cplan{{srcPlan: srcPlan{O: []ocspBehav{oErr}, C: []dpBehav{b, dpByName("clean")}}, faults: []string{f, ""}}}, stRef, true, cache, ""), true, "cache:"+cache)
		}
	}
	// (2) cancellation before / during / after the first exchange (one certificate naming sources)
	for _, cancel := range []string{"before", "during", "after1", "after1done"} {
		for _, o := range [][]ocspBehav{nil, {oGood}, {oErr, oGood}, {oGood, oGood}, {oBadURL, oGood}, {oUnknown, oGood}, {oErr, oErr, oGood}, {oRevoked}} {
			for _, c := range [][]dpBehav{nil, {dpByName("clean")}, {dpByName("clean"), dpByName("clean")}, {dpByName("lists-cert"), dpByName("clean")}} {
				if len(o)+len(c) == 0 {
					continue
				}
				http := cancel != "after1" && cancel != "after1done" && len(c) > 0 && (len(o)+len(c))%2 == 0
				emitRev(w, mkCase(0, []cplan{{srcPlan: srcPlan{O: o, C: c}, faults: make([]string, len(c))}}, time.Time{}, http, "", cancel), true, "cancel:"+cancel)
			}
		}
	}
	for k := 0; k < 40; k++ {
		ln := 2 + rng.Intn(3)
		plans := make([]cplan, ln-1)
		for i := range plans {
			plans[i] = randCert(0)
		}
		emitRev(w, mkCase(0, plans, time.Time{}, rng.Bool(), "", "before"), true, "cancel:before-chain")
	}
	// (3) random fault assignments over chains of length 2..4, with the isolation companion
	n := 700
	if tier == "thorough" {
		n = 12000
	}
	for k := 0; k < n; k++ {
		ln := 2 + rng.Intn(3)
		plans := make([]cplan, ln-1)
		for i := range plans {
			plans[i] = randCert(rng.Intn(3))
		}
		st := time.Time{}
		if rng.Bool() {
			st = stRef
		}
		entry := 0
		if rng.Chance(1, 4) {
			entry = 1
		}
		http := rng.Chance(1, 2)
		cache := ""
		if http {
			cache = Pick(rng, caches)
		}
		rc := mkCase(entry, plans, st, http, cache, "")
		// companion: position j keeps its own behaviours, every other certificate gets all-fault (or all-genuine) behaviours
		j := rng.Intn(ln - 1)
		other := make([]cplan, ln-1)
		for i := range other {
			if i == j {
				other[i] = plans[i]
				continue
			}
			o := plans[i]
			var q cplan
			flip := rng.Bool()
			for range o.O {
				if flip {
					q.O = append(q.O, Pick(rng, oFaults[:15])) // keep the URL kinds (contactable) unchanged
				} else {
					q.O = append(q.O, Pick(rng, oGenuine))
				}
			}
			for idx := range o.O { // URL strings are baked into the certificate: preserve badurl/scheme slots
				if k := o.O[idx].Kind; k == "badurl" || k == "scheme" || k == "emptyurl" || k == "blankurl" {
					q.O[idx] = o.O[idx]
				}
			}
			for range o.C {
				kind := 0
				if flip {
					kind = 1 + rng.Intn(2)
				}
				b, f := crlPoint(kind)
				q.C = append(q.C, b)
				q.faults = append(q.faults, f)
			}
			other[i] = q
		}
		if cache != "getfail" && cache != "setfail" { // those make every fetch of the run fail: not a per-certificate fault
			rc.Iso = mkCase(entry, other, st, http, cache, "")
			rc.IsoPos = j
		}
		emitRev(w, rc, true, fmt.Sprintf("random-len%d", ln))
	}
}
