package main

// workerMain runs one sandboxed job in a child process (used by the panic/abort
// observations of C09/C17). Filled in by the properties that need it.
var workerJobs = map[string]func(args []string){}

func workerMain(args []string) {
	if len(args) == 0 {
		return
	}
	if f, ok := workerJobs[args[0]]; ok {
		f(args[1:])
	}
}
