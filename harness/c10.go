package main

import (
	"fmt"
	"time"
)

func init() { register("C10", "Run.C10", genC10) }

// one leaf, one distribution point, authentic current bundle; the entry lists vary
func genC10(tier string, rng *RNG, w *CaseWriter) {
	w.ShardSize = 300
	chain := buildRevChain("cs", []certSlots{{NCRL: 1}}, nil, nil)
	u := chain.xs()[0].CRLDistributionPoints[0]
	emit := func(base, delta []entrySpec, withDelta bool, st time.Time, http bool, lab string) {
		b := &crlSpec{Entries: base, Number: 5, Next: "+1h", Signer: "issuer"}
		var d *crlSpec
		if withDelta {
			d = &crlSpec{Entries: delta, Number: 6, Next: "+1h", Signer: "issuer", Indicator: "5"}
		}
		rc := &revCase{Entry: 0, Purpose: "cs", Chain: chain, CRL: map[string]crlDelivery{u: {Base: b, Delta: d}}, ST: st, HTTPCRL: http, Labels: []string{lab}}
		term, desc, outs, _ := runRevCase(rc)
		cls := "?"
		if len(outs) > 0 {
			cls = resTerm(outs[0].Result)
		}
		nm := 0
		for _, e := range append(append([]entrySpec{}, base...), delta...) {
			if e.Match {
				nm++
			}
		}
		desc["base"] = fmt.Sprint(base)
		desc["delta"] = fmt.Sprint(delta)
		desc["st_set"] = !st.IsZero()
		w.Count(fmt.Sprintf("entries:%d", len(base)+len(delta)))
		w.Count(fmt.Sprintf("matching:%d", nm))
		w.Emit("(mk @ID@ "+term+")", desc, cls, nm > 0)
	}
	// reduced alphabet for exhaustive enumeration
	var alpha []entrySpec
	for _, match := range []bool{true, false} {
		for _, reason := range []int{1, 6, 8} {
			for _, rt := range []int{1, 2, 3} {
				for _, inv := range []string{"none", "before", "equal", "after"} {
					for _, crit := range []bool{false, true} {
						if !match && (reason != 1 || rt != 1 || (inv != "none" && inv != "after")) {
							continue // other-serial entries: a few representatives suffice
						}
						if crit && (inv == "before" || inv == "equal") {
							continue
						}
						alpha = append(alpha, entrySpec{Match: match, Reason: reason, RTime: rt, Inv: inv, Crit: crit})
					}
				}
			}
		}
	}
	w.Extra["reduced_alphabet"] = len(alpha)
	// signing times: none, the reference (invalidity dates sit 1 s before / at / 1 s after it), and two with a
	// fractional part on either side of it (the comparison with the invalidity date is exact, not rounded)
	sts := []time.Time{{}, stRef, stRef.Add(600 * time.Millisecond), stRef.Add(-400 * time.Millisecond)}
	// all single entries (full reasons 0..10) in base or delta
	for _, st := range sts {
		emit(nil, nil, false, st, false, "empty")
		emit(nil, nil, true, st, false, "empty+delta")
		for reason := 0; reason <= 10; reason++ {
			for _, inv := range []string{"none", "before", "equal", "after", "malformed", "trailing"} {
				for _, crit := range []bool{false, true} {
					e := entrySpec{Match: true, Reason: reason, RTime: 2, Inv: inv, Crit: crit}
					emit([]entrySpec{e}, nil, false, st, false, "single-base")
					emit(nil, []entrySpec{e}, true, st, reason%3 == 0, "single-delta")
				}
			}
		}
	}
	// entries for the negated serial number (and other numbers sharing digits) never matter
	for _, st := range sts[:2] {
		for _, reason := range []int{0, 1, 6, 8} {
			neg := entrySpec{Match: false, Reason: reason, RTime: 2, Inv: "none", Neg: true}
			emit([]entrySpec{neg}, nil, false, st, false, "negated-serial")
			emit(nil, []entrySpec{neg}, true, st, true, "negated-serial")
			emit([]entrySpec{neg, {Match: true, Reason: 8, RTime: 1, Inv: "none"}}, nil, false, st, false, "negated-serial")
		}
	}
	// all ordered pairs over the reduced alphabet, split base/delta in every way
	maxPairs := 1 << 30
	if tier != "thorough" {
		maxPairs = 2500
	}
	np := 0
	for i, a := range alpha {
		for j, b := range alpha {
			if !a.Match && !b.Match {
				continue
			}
			if tier != "thorough" && (i*31+j*17)%5 != 0 {
				continue
			}
			if np >= maxPairs {
				break
			}
			np++
			st := sts[(i+j)%2]
			switch (i + 2*j) % 3 {
			case 0:
				emit([]entrySpec{a, b}, nil, false, st, false, "pair-base")
			case 1:
				emit([]entrySpec{a}, []entrySpec{b}, true, st, false, "pair-split")
			case 2:
				emit(nil, []entrySpec{a, b}, true, st, false, "pair-delta")
			}
			if tier == "thorough" {
				emit([]entrySpec{a, b}, nil, false, sts[(i+j+1)%2], false, "pair-base")
			}
		}
	}
	// sampled longer lists over the full alphabet
	n := 1200
	if tier == "thorough" {
		n = 12000
	}
	full := func() entrySpec {
		e := entrySpec{Match: rng.Chance(3, 4), Reason: rng.Intn(11), RTime: 1 + rng.Intn(3), Inv: Pick(rng, []string{"none", "none", "before", "equal", "after", "after", "malformed", "trailing"}), Crit: rng.Chance(1, 10)}
		if rng.Chance(1, 2) {
			e.Reason = Pick(rng, []int{6, 8, 6, 8, 1})
		}
		return e
	}
	for k := 0; k < n; k++ {
		l := 2 + rng.Intn(5)
		var base, delta []entrySpec
		wd := rng.Bool()
		for i := 0; i < l; i++ {
			if wd && rng.Bool() {
				delta = append(delta, full())
			} else {
				base = append(base, full())
			}
		}
		emit(base, delta, wd, sts[rng.Intn(2)], k%10 == 0, "sampled")
	}
}
