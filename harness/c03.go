package main

import (
	"crypto"

	"context"
	"crypto/x509"
	"errors"
	"fmt"
	"github.com/notaryproject/notation-core-go/signature"
	"net/http"
	"time"

	"github.com/notaryproject/notation-core-go/revocation"
	crlpkg "github.com/notaryproject/notation-core-go/revocation/crl"
	"github.com/notaryproject/notation-core-go/revocation/purpose"
	"github.com/notaryproject/notation-core-go/revocation/result"
	nx509 "github.com/notaryproject/notation-core-go/x509"
)

func init() {
	register("C03", "Run.C03", func(t string, r *RNG, w *CaseWriter) { genChains("cs", t, r, w) })
	register("C14", "Run.C14", func(t string, r *RNG, w *CaseWriter) { genChains("ts", t, r, w) })
}

var nSign int

// poolKeyFor: the private key of the chain's leaf, if it is one of the pool keys
func poolKeyFor(xs []*x509.Certificate) crypto.Signer {
	if len(xs) == 0 {
		return nil
	}
	type eq interface{ Equal(crypto.PublicKey) bool }
	pub, ok := xs[0].PublicKey.(eq)
	if !ok {
		return nil
	}
	for _, n := range keyNames {
		if k := Key(n); pub.Equal(k.Public()) {
			return k
		}
	}
	return nil
}

// trySign: 1 = a local signer could be made and Sign returned an envelope, 0 = an error somewhere
func trySign(xs []*x509.Certificate, k crypto.Signer, at time.Time, fmtIdx int) (res int) {
	defer func() {
		if r := recover(); r != nil {
			res = 2
		}
	}()
	s, err := signature.NewLocalSigner(xs, k)
	if err != nil {
		return 0
	}
	env, err := signature.NewEnvelope(mediaTypes[fmtIdx])
	if err != nil {
		return 0
	}
	b, err := env.Sign(&signature.SignRequest{Payload: signature.Payload{ContentType: payloadCT, Content: []byte(`{"k":1}`)}, Signer: s,
		SigningTime: at, SigningScheme: signature.SigningSchemeX509})
	if err != nil || len(b) == 0 {
		return 0
	}
	return 1
}

type failRT struct{}

func (failRT) RoundTrip(*http.Request) (*http.Response, error) {
	return nil, errors.New("no network in this observation")
}

type failFetcher struct{}

func (failFetcher) Fetch(ctx context.Context, url string) (*crlpkg.Bundle, error) {
	return nil, errors.New("no fetch in this observation")
}

func newValidator(p purpose.Purpose) revocation.Validator {
	v, err := revocation.NewWithOptions(revocation.Options{OCSPHTTPClient: &http.Client{Transport: failRT{}}, CRLFetcher: failFetcher{}, CertChainPurpose: p})
	if err != nil {
		panic(err)
	}
	return v
}

// revAccepts: 1 = ValidateContext returned results, 0 = InvalidChainError, -1 = something else
func revAccepts(v revocation.Validator, xs []*x509.Certificate) int {
	res, err := v.ValidateContext(context.Background(), revocation.ValidateContextOptions{CertChain: xs})
	if err == nil && len(res) == len(xs) {
		return 1
	}
	var ice result.InvalidChainError
	if errors.As(err, &ice) && res == nil {
		return 0
	}
	return -1
}

func genChains(purp string, tier string, rng *RNG, w *CaseWriter) {
	w.ShardSize = 250
	maxN, pairBudget, randBudget := 4, 700, 300
	if tier == "thorough" {
		maxN, pairBudget, randBudget = 5, 12000, 4000
	}
	mods := chainMods()
	var benign, viol []chainMod
	for _, m := range mods {
		if m.benign {
			benign = append(benign, m)
		} else {
			viol = append(viol, m)
		}
	}
	vCS, vTS := newValidator(purpose.CodeSigning), newValidator(purpose.Timestamping)
	leafKeys := []string{"ec256b", "rsa2048a", "ec384", "rsa3072", "ec521", "rsa4096"}

	emit := func(xs []*x509.Certificate, st *time.Time, labels []string) {
		sf, ss := oracleTerms(xs)
		var impl bool
		var rev int
		stTerm := "None"
		if purp == "cs" {
			impl = nx509.ValidateCodeSigningCertChain(xs, st) == nil
			rev = -1
			if st == nil {
				rev = revAccepts(vCS, xs)
			}
			if st != nil {
				stTerm = "(Some " + cZ(st.UnixNano()) + ")"
			}
		} else {
			impl = nx509.ValidateTimestampingCertChain(xs) == nil
			rev = revAccepts(vTS, xs)
		}
		cls := "rejected"
		if impl {
			cls = "accepted"
		}
		w.Count(fmt.Sprintf("len:%d", len(xs)))
		for _, l := range labels {
			w.Count("mod:" + l)
		}
		term := fmt.Sprintf("(mk @ID@ %s %s %s %s %s %s)", chainTerm(xs), sf, ss, stTerm, cB(impl), cZ(int64(rev)))
		desc := map[string]any{"purpose": purp, "len": len(xs), "mods": labels, "impl_accepts": impl, "impl_rev": rev}
		if purp == "cs" {
			// the same chain through the signing path: a local signer for the leaf's key signs at the signing time
			// (whole seconds only: Sign truncates); it must succeed exactly when the chain is valid at that time
			sign, signAt := -1, baseTime
			if st != nil {
				signAt = *st
			}
			if k := poolKeyFor(xs); k != nil && signAt.Nanosecond() == 0 {
				nSign++
				sign = trySign(xs, k, signAt, nSign%2)
			}
			term = fmt.Sprintf("(mk @ID@ %s %s %s %s %s %s %s %s)", chainTerm(xs), sf, ss, stTerm, cB(impl), cZ(int64(rev)), cZ(int64(sign)), cZ(signAt.UnixNano()))
			desc["impl_sign"] = sign
		}
		if st != nil {
			desc["st_unix_nano"] = st.UnixNano()
		}
		w.Emit(term, desc, cls+fmt.Sprintf("/len%d", len(xs)), len(labels) > 0 || impl)
	}
	mid := chainT0

	for n := 1; n <= maxN; n++ {
		for ki, lk := range leafKeys {
			if ki > 0 && (tier != "thorough" && n > 2) {
				continue
			}
			base := basePlan(n, purp, lk)
			b := base.build()
			emit(b.xs, nil, nil)
			if ki == 0 && n >= 2 {
				// after the genuine chain has been validated: the same certificates, except that one CA is replaced by a
				// look-alike with the same name, serial number and subject key identifier but ANOTHER key (the certificate
				// below it is still the genuine one, so it is not signed by the look-alike)
				for pos := 1; pos < n; pos++ {
					orig := b.certs[pos]
					spec := orig.Spec
					spec.KeyName = map[string]string{"ec256b": "ec256c", "ec256c": "ec256b", "ec256a": "ec256c"}[spec.KeyName]
					if spec.KeyName == "" {
						spec.KeyName = "ec256c"
					}
					spec.SKI = orig.X.SubjectKeyId
					spec.Serial = orig.X.SerialNumber
					var parent *Cert
					if pos < n-1 {
						parent = b.certs[pos+1]
					}
					forged := Issue(spec, parent, nil)
					xs2 := append([]*x509.Certificate{}, b.xs...)
					xs2[pos] = forged.X
					emit(xs2, nil, []string{fmt.Sprintf("ca-rekeyed-same-ski@%d", pos)})
					if purp == "cs" {
						emit(xs2, &mid, []string{fmt.Sprintf("ca-rekeyed-same-ski@%d", pos)})
					}
					emit(b.xs, nil, []string{"genuine-again"})
				}
			}
			if purp == "cs" {
				emit(b.xs, &mid, nil)
				if ki == 0 {
					for i, c := range b.xs {
						for _, d := range []time.Duration{-time.Second, -1, 0} {
							t := c.NotBefore.Add(d)
							emit(b.xs, &t, []string{fmt.Sprintf("st=nb[%d]%+d", i, int64(d))})
						}
						for _, d := range []time.Duration{0, 1, time.Second} {
							t := c.NotAfter.Add(d)
							emit(b.xs, &t, []string{fmt.Sprintf("st=na[%d]%+d", i, int64(d))})
						}
					}
				}
			}
		}
		// signing time decided by one certificate alone: certificate i has a narrow window, the others wide ones
		if purp == "cs" {
			for i := 0; i < n; i++ {
				p := basePlan(n, purp, "ec256b")
				p.certs[i].spec.NotBefore = chainT0.Add(-time.Hour)
				p.certs[i].spec.NotAfter = chainT0.Add(time.Hour)
				b := p.build()
				for _, d := range []time.Duration{-time.Second, -1, 0, time.Minute} {
					t := b.xs[i].NotBefore.Add(d)
					emit(b.xs, &t, []string{fmt.Sprintf("narrow@%d", i), fmt.Sprintf("st=nb%+d", int64(d))})
				}
				for _, d := range []time.Duration{0, 1, time.Second} {
					t := b.xs[i].NotAfter.Add(d)
					emit(b.xs, &t, []string{fmt.Sprintf("narrow@%d", i), fmt.Sprintf("st=na%+d", int64(d))})
				}
			}
		}
		base := basePlan(n, purp, "ec256b")
		// every single modification at every position
		for _, m := range mods {
			for pos := 0; pos < n; pos++ {
				p := base.clone()
				if !m.apply(p, pos, purp) {
					continue
				}
				b := p.build()
				lab := []string{fmt.Sprintf("%s@%d", m.name, pos)}
				emit(b.xs, nil, lab)
				if purp == "cs" {
					emit(b.xs, &mid, lab)
				}
			}
		}
		// list-level violations of order and completeness
		b := base.build()
		if n >= 2 {
			for i := 0; i+1 < n; i++ {
				xs := append([]*x509.Certificate{}, b.xs...)
				xs[i], xs[i+1] = xs[i+1], xs[i]
				emit(xs, nil, []string{fmt.Sprintf("swap@%d", i)})
			}
			rev := make([]*x509.Certificate, n)
			for i := range b.xs {
				rev[n-1-i] = b.xs[i]
			}
			emit(rev, nil, []string{"reversed"})
			for i := 0; i < n; i++ {
				xs := append(append([]*x509.Certificate{}, b.xs[:i]...), b.xs[i+1:]...)
				emit(xs, nil, []string{fmt.Sprintf("drop@%d", i)})
				dup := append(append(append([]*x509.Certificate{}, b.xs[:i+1]...), b.xs[i]), b.xs[i+1:]...)
				emit(dup, nil, []string{fmt.Sprintf("dup@%d", i)})
			}
			other := basePlan(1, purp, "ec384").build()
			emit(append(append([]*x509.Certificate{}, b.xs...), other.xs[0]), nil, []string{"append-unrelated-selfsigned"})
		}
		// pairs (benign variation, violation)
		type pr struct {
			b, v   chainMod
			pb, pv int
		}
		var pairs []pr
		for _, bm := range benign {
			for _, vm := range viol {
				for pb := 0; pb < n; pb++ {
					for pv := 0; pv < n; pv++ {
						pairs = append(pairs, pr{bm, vm, pb, pv})
					}
				}
			}
		}
		budget := pairBudget / maxN
		for k := 0; k < len(pairs) && budget > 0; k++ {
			var q pr
			if len(pairs) <= budget {
				q = pairs[k]
			} else {
				q = pairs[rng.Intn(len(pairs))]
			}
			p := base.clone()
			if !q.b.apply(p, q.pb, purp) || !q.v.apply(p, q.pv, purp) {
				continue
			}
			budget--
			bb := p.build()
			emit(bb.xs, nil, []string{fmt.Sprintf("%s@%d", q.b.name, q.pb), fmt.Sprintf("%s@%d", q.v.name, q.pv)})
		}
	}
	// EKU subsets for the leaf: all subsets of {ts, code, any, other} x criticality, lengths 1..3
	sub := []string{"ts", "code", "any", "other"}
	for n := 1; n <= 3; n++ {
		for mask := 0; mask < 16; mask++ {
			for _, crit := range []int{ExtNonCritical, ExtCritical} {
				p := basePlan(n, purp, "ec256b")
				var ek []string
				for i, e := range sub {
					if mask&(1<<i) != 0 {
						ek = append(ek, e)
					}
				}
				p.certs[0].spec.EKU = ek
				p.certs[0].spec.EKUExt = crit
				if len(ek) == 0 {
					p.certs[0].spec.EKUExt = ExtAbsent
				}
				b := p.build()
				emit(b.xs, nil, []string{fmt.Sprintf("eku-subset=%v/crit=%d", ek, crit)})
			}
		}
	}
	// random stacks of modifications
	for k := 0; k < randBudget; k++ {
		n := 1 + rng.Intn(maxN)
		p := basePlan(n, purp, Pick(rng, leafKeys))
		var labs []string
		for j := 0; j < 1+rng.Intn(3); j++ {
			m := Pick(rng, mods)
			if rng.Chance(2, 3) {
				m = Pick(rng, benign)
			}
			pos := rng.Intn(n)
			if m.apply(p, pos, purp) {
				labs = append(labs, fmt.Sprintf("%s@%d", m.name, pos))
			}
		}
		b := p.build()
		var st *time.Time
		if purp == "cs" && rng.Bool() {
			c := b.xs[rng.Intn(n)]
			t := Pick(rng, []time.Time{c.NotBefore, c.NotAfter, c.NotBefore.Add(-time.Second), c.NotAfter.Add(time.Second), mid})
			st = &t
			labs = append(labs, "st-random-boundary")
		}
		emit(b.xs, st, labs)
	}
	// the empty chain
	emit(nil, nil, []string{"empty"})
	w.Extra["max_len"] = maxN
}
