package main

import (
	"bytes"
	"context"
	"crypto"
	"crypto/rand"
	"crypto/sha256"
	"crypto/x509"
	"crypto/x509/pkix"
	"encoding/asn1"
	"errors"
	"fmt"
	"io"
	"math/big"
	"net/http"
	"strings"
	"sync"
	"sync/atomic"
	"time"

	crlpkg "github.com/notaryproject/notation-core-go/revocation/crl"
	"golang.org/x/crypto/ocsp"
)

// ============ transport ============

type timeoutErr struct{}

func (timeoutErr) Error() string   { return "i/o timeout (injected)" }
func (timeoutErr) Timeout() bool   { return true }
func (timeoutErr) Temporary() bool { return true }

type rtHandler func(req *http.Request) (*http.Response, error)

// eventSeq orders the exchanges of transport and fetcher on one time line.
type eventSeq struct {
	mu  sync.Mutex
	evs []string
}

func (e *eventSeq) add(u string) {
	if e == nil {
		return
	}
	e.mu.Lock()
	e.evs = append(e.evs, u)
	e.mu.Unlock()
}
func (e *eventSeq) all() []string {
	e.mu.Lock()
	defer e.mu.Unlock()
	return append([]string{}, e.evs...)
}

// worldRT serves the configured URLs in-process and logs every request.
type worldRT struct {
	mu       sync.Mutex
	handlers map[string]rtHandler // keyed by configured server URL
	log      []string             // configured URL of each request, in arrival order
	onReq    func(url string)     // hook (barriers, cancellation)
	onDone   func(url string)     // hook called when an exchange has completed
	seq      *eventSeq
	noSeq    map[string]bool // URLs whose exchanges are put on the time line by someone else (the logging fetcher)
}

func newWorldRT() *worldRT {
	return &worldRT{handlers: map[string]rtHandler{}, noSeq: map[string]bool{}}
}

// loggingFetcher puts every Fetch call on the time line (the real HTTPFetcher may answer from,
// or fail in, its cache without any request reaching the transport)
type loggingFetcher struct {
	inner crlpkg.Fetcher
	seq   *eventSeq
}

func (l *loggingFetcher) Fetch(ctx context.Context, url string) (*crlpkg.Bundle, error) {
	l.seq.add(url)
	return l.inner.Fetch(ctx, url)
}

func (w *worldRT) match(req *http.Request) (string, rtHandler) {
	full := req.URL.String()
	w.mu.Lock()
	defer w.mu.Unlock()
	best := ""
	for u := range w.handlers {
		if full == u || strings.HasPrefix(full, u+"/") || strings.HasPrefix(full, strings.TrimSuffix(u, "/")+"/") {
			if len(u) > len(best) {
				best = u
			}
		}
	}
	if best == "" {
		return "", nil
	}
	return best, w.handlers[best]
}

// exchangesInFlight: requests / fetches that have entered a harness transport or fetcher and not yet left it
var exchangesInFlight int32

func (w *worldRT) RoundTrip(req *http.Request) (*http.Response, error) {
	atomic.AddInt32(&exchangesInFlight, 1)
	defer atomic.AddInt32(&exchangesInFlight, -1)
	u, h := w.match(req)
	if h == nil {
		return nil, fmt.Errorf("worldRT: no handler for %s", req.URL)
	}
	w.mu.Lock()
	w.log = append(w.log, u)
	hook := w.onReq
	w.mu.Unlock()
	if !w.noSeq[u] {
		w.seq.add(u)
	}
	if hook != nil {
		hook(u)
	}
	if err := req.Context().Err(); err != nil {
		return nil, err
	}
	if req.Body != nil { // consume the body as a server would; the handler may still read it
		b, _ := io.ReadAll(req.Body)
		req.Body.Close()
		req.Body = io.NopCloser(bytes.NewReader(b))
	}
	resp, err := h(req)
	w.mu.Lock()
	done := w.onDone
	w.mu.Unlock()
	if done != nil {
		done(u)
	}
	return resp, err
}

func (w *worldRT) requests() []string {
	w.mu.Lock()
	defer w.mu.Unlock()
	return append([]string{}, w.log...)
}

func httpBody(status int, body []byte) (*http.Response, error) {
	return &http.Response{StatusCode: status, Status: fmt.Sprintf("%d", status), Body: io.NopCloser(bytes.NewReader(body)), Header: http.Header{}, ContentLength: int64(len(body))}, nil
}

type errReader struct{}

func (errReader) Read([]byte) (int, error) { return 0, errors.New("read error (injected)") }

// ============ OCSP forging ============

type ocspBehav struct {
	Kind   string // resp | badurl | scheme | transport | timeout | http404 | http500 | http302 | empty | truncated | oversized | garbage | readerr | canned-unauthorized | canned-malformed | canned-internal | canned-trylater | canned-sigrequired
	Signer string // issuer | issuer-embedded | delegate-eku | delegate-noeku | self | unrelated-embedded | otherkey
	Serial string // match | other
	Status int    // ocsp.Good / Revoked / Unknown
	Next   string // +1h | -1h | absent
	Inv    string // none | before | equal | after | malformed | trailing   (relative to the signing-time reference)
	Crit   bool   // a critical single extension
	BadSig bool   // signature bytes corrupted
}

func (b ocspBehav) String() string {
	if b.Kind != "resp" {
		return b.Kind
	}
	st := map[int]string{ocsp.Good: "good", ocsp.Revoked: "revoked", ocsp.Unknown: "unknown"}[b.Status]
	s := fmt.Sprintf("resp/%s/%s/%s/next%s/inv-%s", b.Signer, b.Serial, st, b.Next, b.Inv)
	if b.Crit {
		s += "/critext"
	}
	if b.BadSig {
		s += "/badsig"
	}
	return s
}

var oidInvalidityDate = asn1.ObjectIdentifier{2, 5, 29, 24}

// signing-time reference of the revocation cases (whole second, in the past)
var stRef = baseTime.Add(-30 * time.Minute)

type responders struct {
	delegateEKU, delegateNoEKU, unrelated *Cert
	delegateOtherEKU, siblingIssuerName   *Cert
}

var responderCache sync.Map // issuer raw hash -> *responders

func respondersFor(issuer *Cert) *responders {
	k := sha256.Sum256(issuer.X.Raw)
	if v, ok := responderCache.Load(k); ok {
		return v.(*responders)
	}
	r := &responders{
		delegateEKU:   Issue(CertSpec{CN: "ocsp delegate", KeyName: "ec256c", KU: x509.KeyUsageDigitalSignature, KUExt: ExtCritical, EKU: []string{"ocsp"}, EKUExt: ExtNonCritical}, issuer, nil),
		delegateNoEKU: Issue(CertSpec{CN: "sibling", KeyName: "ec256c", KU: x509.KeyUsageDigitalSignature, KUExt: ExtCritical}, issuer, nil),
	}
	// siblings of the checked certificate that are NOT authorised responders: one with another extended key usage, one
	// that carries the issuer's own subject name (and another key)
	r.delegateOtherEKU = Issue(CertSpec{CN: "sibling with code signing", KeyName: "ec256c", KU: x509.KeyUsageDigitalSignature, KUExt: ExtCritical, EKU: []string{"code"}, EKUExt: ExtNonCritical}, issuer, nil)
	r.siblingIssuerName = Issue(CertSpec{CN: issuer.Spec.CN, KeyName: "ec256c", KU: x509.KeyUsageDigitalSignature, KUExt: ExtCritical, EKU: []string{"code"}, EKUExt: ExtNonCritical}, issuer, nil)
	other := Issue(CertSpec{CN: "unrelated root", KeyName: "ec521", BC: true, IsCA: true, MaxPathLen: -1, KU: x509.KeyUsageCertSign | x509.KeyUsageCRLSign, KUExt: ExtCritical}, nil, nil)
	r.unrelated = Issue(CertSpec{CN: "ocsp delegate", KeyName: "ec256c", KU: x509.KeyUsageDigitalSignature, KUExt: ExtCritical, EKU: []string{"ocsp"}, EKUExt: ExtNonCritical}, other, nil)
	responderCache.Store(k, r)
	return r
}

// forgeOCSP builds the response body for behaviour b about cert (issued by issuer) and
// returns it with the abstract outcome term of Model/Ocsp.v.
func forgeOCSP(b ocspBehav, cert, issuer *Cert) ([]byte, string) {
	rs := respondersFor(issuer)
	tmpl := ocsp.Response{Status: b.Status, SerialNumber: cert.X.SerialNumber, ThisUpdate: baseTime.Add(-2 * time.Hour)}
	if b.Serial == "other" {
		tmpl.SerialNumber = new(big.Int).Add(cert.X.SerialNumber, big.NewInt(7777))
	}
	next := int64(0)
	switch b.Next {
	case "+1h":
		tmpl.NextUpdate = baseTime.Add(time.Hour)
		next = tmpl.NextUpdate.UnixNano()
	case "-1h":
		tmpl.NextUpdate = baseTime.Add(-time.Hour)
		next = tmpl.NextUpdate.UnixNano()
	}
	if b.Status == ocsp.Revoked {
		tmpl.RevokedAt = baseTime.Add(-3 * time.Hour)
		tmpl.RevocationReason = ocsp.KeyCompromise
	}
	inv := "InvAbsent"
	addInv := func(t time.Time) []byte {
		v, _ := asn1.MarshalWithParams(t.UTC(), "generalized")
		return v
	}
	switch b.Inv {
	case "before":
		t := stRef.Add(-time.Second)
		tmpl.ExtraExtensions = append(tmpl.ExtraExtensions, pkix.Extension{Id: oidInvalidityDate, Value: addInv(t)})
		inv = fmt.Sprintf("(InvDate %d)", t.UnixNano())
	case "equal":
		t := stRef
		tmpl.ExtraExtensions = append(tmpl.ExtraExtensions, pkix.Extension{Id: oidInvalidityDate, Value: addInv(t)})
		inv = fmt.Sprintf("(InvDate %d)", t.UnixNano())
	case "after":
		t := stRef.Add(time.Second)
		tmpl.ExtraExtensions = append(tmpl.ExtraExtensions, pkix.Extension{Id: oidInvalidityDate, Value: addInv(t)})
		inv = fmt.Sprintf("(InvDate %d)", t.UnixNano())
	case "malformed":
		tmpl.ExtraExtensions = append(tmpl.ExtraExtensions, pkix.Extension{Id: oidInvalidityDate, Value: []byte{0x18, 0x03, 'x', 'y', 'z'}})
		inv = "InvUnusable"
	case "trailing":
		v := append(addInv(stRef.Add(time.Hour)), 0x05, 0x00)
		tmpl.ExtraExtensions = append(tmpl.ExtraExtensions, pkix.Extension{Id: oidInvalidityDate, Value: v})
		inv = "InvUnusable"
	}
	if b.Crit {
		tmpl.ExtraExtensions = append(tmpl.ExtraExtensions, pkix.Extension{Id: asn1.ObjectIdentifier{1, 3, 6, 1, 4, 1, 99999, 9}, Critical: true, Value: []byte{5, 0}})
	}
	var signer crypto.Signer
	responder := issuer.X
	signerTerm := "ByIssuer"
	sigValid := !b.BadSig
	emb := func(c *Cert) {
		tmpl.Certificate = c.X
		responder = c.X
		signer = c.Key
		issued := issuer.X.CheckSignature(c.X.SignatureAlgorithm, c.X.RawTBSCertificate, c.X.Signature) == nil
		eku := false
		for _, e := range c.X.ExtKeyUsage {
			if e == x509.ExtKeyUsageOCSPSigning {
				eku = true
			}
		}
		signerTerm = fmt.Sprintf("(ByEmbedded %s %s %s)", cB(issued), cB(c.X.Equal(issuer.X)), cB(eku))
	}
	switch b.Signer {
	case "issuer":
		signer = issuer.Key
	case "issuer-embedded":
		emb(issuer)
	case "delegate-eku":
		emb(rs.delegateEKU)
	case "delegate-noeku":
		emb(rs.delegateNoEKU)
	case "delegate-othereku":
		emb(rs.delegateOtherEKU)
	case "sibling-issuer-name":
		emb(rs.siblingIssuerName)
	case "self":
		emb(cert)
	case "unrelated-embedded":
		emb(rs.unrelated)
	case "otherkey":
		signer = Key("ec521")
		if !issuer.X.PublicKey.(interface{ Equal(crypto.PublicKey) bool }).Equal(signer.Public()) {
			sigValid = false
		}
	}
	der, err := ocsp.CreateResponse(issuer.X, responder, tmpl, signer)
	if err != nil {
		panic(fmt.Sprintf("CreateResponse %v: %v", b, err))
	}
	if b.BadSig {
		der = append([]byte{}, der...)
		der[len(der)-3] ^= 0x55
		if tmpl.Certificate != nil {
			// the signature is not at the end when a certificate is embedded: corrupt inside the TBS instead
			// (any change of the signed bytes invalidates the signature as well)
			idx := bytes.Index(der, tmpl.SerialNumber.Bytes())
			_ = idx
		}
	}
	if b.Crit {
		return der, "UErr" // x/crypto/ocsp rejects critical single extensions
	}
	term := fmt.Sprintf("(UResp (OResp %s %s %s %s %s %s))", signerTerm, cB(sigValid), cB(b.Serial == "match"),
		map[int]string{ocsp.Good: "SGood", ocsp.Revoked: "SRevoked", ocsp.Unknown: "SUnknownStatus"}[b.Status], cZ(next), inv)
	return der, term
}

// ocspHandler returns the transport handler and abstract outcome for a behaviour
func ocspHandlerFor(b ocspBehav, cert, issuer *Cert) (rtHandler, string) {
	switch b.Kind {
	case "resp":
		var der []byte
		var term string
		func() {
			defer func() {
				if r := recover(); r != nil { // the issuer's key cannot sign an OCSP response (an unsupported key kind in an invalid chain)
					der, term = nil, "UErr"
				}
			}()
			der, term = forgeOCSP(b, cert, issuer)
		}()
		if der == nil {
			return func(*http.Request) (*http.Response, error) { return httpBody(500, nil) }, "UErr"
		}
		return func(*http.Request) (*http.Response, error) { return httpBody(200, der) }, term
	case "transport":
		return func(*http.Request) (*http.Response, error) { return nil, errors.New("connection refused (injected)") }, "UErr"
	case "timeout":
		return func(*http.Request) (*http.Response, error) { return nil, timeoutErr{} }, "UErr"
	case "http404":
		return func(*http.Request) (*http.Response, error) { return httpBody(404, []byte("not found")) }, "UErr"
	case "http500":
		return func(*http.Request) (*http.Response, error) { return httpBody(500, nil) }, "UErr"
	case "http302":
		return func(*http.Request) (*http.Response, error) { return httpBody(302, nil) }, "UErr"
	case "http500-good-body", "http404-good-body", "http201-good-body":
		// an authentic, current Good response delivered with a status other than 200: not a successful response
		der, _ := forgeOCSP(ocspBehav{Kind: "resp", Signer: "issuer", Serial: "match", Status: ocsp.Good, Next: "+1h", Inv: "none"}, cert, issuer)
		code := map[string]int{"http500-good-body": 500, "http404-good-body": 404, "http201-good-body": 201}[b.Kind]
		return func(*http.Request) (*http.Response, error) { return httpBody(code, der) }, "UErr"
	case "empty":
		return func(*http.Request) (*http.Response, error) { return httpBody(200, nil) }, "UErr"
	case "garbage":
		return func(*http.Request) (*http.Response, error) {
			return httpBody(200, []byte("<html>definitely not DER</html>"))
		}, "UErr"
	case "truncated":
		der, _ := forgeOCSP(ocspBehav{Kind: "resp", Signer: "issuer", Serial: "match", Status: ocsp.Good, Next: "+1h", Inv: "none"}, cert, issuer)
		return func(*http.Request) (*http.Response, error) { return httpBody(200, der[:len(der)/2]) }, "UErr"
	case "oversized":
		der, _ := forgeOCSP(ocspBehav{Kind: "resp", Signer: "issuer", Serial: "match", Status: ocsp.Good, Next: "+1h", Inv: "none"}, cert, issuer)
		big := append(append([]byte{}, der...), make([]byte, 21000)...)
		return func(*http.Request) (*http.Response, error) { return httpBody(200, big) }, "UErr"
	case "readerr":
		return func(*http.Request) (*http.Response, error) {
			return &http.Response{StatusCode: 200, Body: io.NopCloser(errReader{}), Header: http.Header{}}, nil
		}, "UErr"
	case "canned-unauthorized":
		return func(*http.Request) (*http.Response, error) { return httpBody(200, ocsp.UnauthorizedErrorResponse) }, "UErr"
	case "canned-malformed":
		return func(*http.Request) (*http.Response, error) { return httpBody(200, ocsp.MalformedRequestErrorResponse) }, "UErr"
	case "canned-internal":
		return func(*http.Request) (*http.Response, error) { return httpBody(200, ocsp.InternalErrorErrorResponse) }, "UErr"
	case "canned-trylater":
		return func(*http.Request) (*http.Response, error) { return httpBody(200, ocsp.TryLaterErrorResponse) }, "UErr"
	case "canned-sigrequired":
		return func(*http.Request) (*http.Response, error) { return httpBody(200, ocsp.SigRequredErrorResponse) }, "UErr"
	case "badurl", "scheme", "emptyurl", "blankurl":
		return nil, "UBadURL"
	}
	panic("unknown ocsp behaviour " + b.Kind)
}

// URL string for an OCSP slot; bad URLs are baked into the certificate
func ocspURL(ci, k int, kind string) string {
	switch kind {
	case "badurl":
		return fmt.Sprintf("http://a b\x7f/c%d/o%d", ci, k)
	case "scheme":
		return fmt.Sprintf("ldap://ocsp.test/c%d/o%d", ci, k)
	case "emptyurl": // a responder URI that is the empty string: named, but unusable
		return ""
	case "blankurl":
		return strings.Repeat(" ", 1+ci+4*k)
	}
	return fmt.Sprintf("http://ocsp.test/c%d/o%d", ci, k)
}
func crlURL(ci, k int) string { return fmt.Sprintf("http://crl.test/c%d/p%d.crl", ci, k) }

// ============ CRL construction ============

type entrySpec struct {
	Match  bool   // serial of the certificate under check (else another serial)
	Reason int    // 0..10
	RTime  int    // 1..3 -> revocation time
	Inv    string // none | before | equal | after | malformed | trailing
	Crit   bool   // an unknown critical entry extension
	Neg    bool   // with Match false: the entry's serial number is the NEGATION of the certificate's (same magnitude, another number)
}

func (e entrySpec) String() string {
	s := "other"
	if e.Match {
		s = "match"
	}
	c := ""
	if e.Crit {
		c = "/crit"
	}
	return fmt.Sprintf("%s/r%d/t%d/inv-%s%s", s, e.Reason, e.RTime, e.Inv, c)
}

type crlSpec struct {
	Entries     []entrySpec
	Number      int64  // CRL number; <0: no number extension
	NumberBig   string // if set: the CRL number in decimal (numbers of up to 20 octets do not fit an int64)
	Next        string // +1h | -1h | absent
	Signer      string // issuer | other | nocrlsign (issuer certificate lacks cRLSign: handled by the chain) | badsig
	CritExt     bool   // unknown critical list extension
	Indicator   string // "" (none) | "n" decimal value | "bad"
	IDP         bool   // critical issuing distribution point (allowed)
	Freshest    string // URL advertised in a freshest-CRL extension of this CRL ("" none)
	FreshestRaw []byte // if non-nil: the raw value of the freshest-CRL extension
}

var (
	oidCRLNumber  = asn1.ObjectIdentifier{2, 5, 29, 20}
	oidDeltaInd   = asn1.ObjectIdentifier{2, 5, 29, 27}
	oidIDP        = asn1.ObjectIdentifier{2, 5, 29, 28}
	oidReasonCode = asn1.ObjectIdentifier{2, 5, 29, 21}
)

func entryTime(k int) time.Time { return baseTime.Add(-time.Duration(10-k) * time.Hour) }

// buildCRL creates the DER of a CRL per spec, issued by issuer, about serial.
func buildCRL(s crlSpec, issuer *Cert, serial *big.Int) []byte {
	tmpl := &x509.RevocationList{ThisUpdate: baseTime.Add(-2 * time.Hour), Number: big.NewInt(1)}
	if s.Number >= 0 {
		tmpl.Number = big.NewInt(s.Number)
	}
	if s.NumberBig != "" {
		tmpl.Number, _ = new(big.Int).SetString(s.NumberBig, 10)
	}
	switch s.Next {
	case "+1h":
		tmpl.NextUpdate = baseTime.Add(time.Hour)
	case "-1h":
		tmpl.NextUpdate = baseTime.Add(-time.Hour)
	default:
		tmpl.NextUpdate = baseTime.Add(time.Hour) // removed again below
	}
	for i, e := range s.Entries {
		re := x509.RevocationListEntry{SerialNumber: serial, RevocationTime: entryTime(e.RTime), ReasonCode: e.Reason}
		if !e.Match {
			re.SerialNumber = new(big.Int).Add(serial, big.NewInt(int64(100+i)))
			if e.Neg {
				re.SerialNumber = new(big.Int).Neg(serial)
			}
		}
		gt := func(t time.Time) []byte { v, _ := asn1.MarshalWithParams(t.UTC(), "generalized"); return v }
		switch e.Inv {
		case "before":
			re.ExtraExtensions = append(re.ExtraExtensions, pkix.Extension{Id: oidInvalidityDate, Value: gt(stRef.Add(-time.Second))})
		case "equal":
			re.ExtraExtensions = append(re.ExtraExtensions, pkix.Extension{Id: oidInvalidityDate, Value: gt(stRef)})
		case "after":
			re.ExtraExtensions = append(re.ExtraExtensions, pkix.Extension{Id: oidInvalidityDate, Value: gt(stRef.Add(time.Second))})
		case "malformed":
			re.ExtraExtensions = append(re.ExtraExtensions, pkix.Extension{Id: oidInvalidityDate, Value: []byte{0x18, 0x03, 'x', 'y', 'z'}})
		case "trailing":
			re.ExtraExtensions = append(re.ExtraExtensions, pkix.Extension{Id: oidInvalidityDate, Value: append(gt(stRef.Add(time.Hour)), 5, 0)})
		}
		if e.Crit {
			re.ExtraExtensions = append(re.ExtraExtensions, pkix.Extension{Id: asn1.ObjectIdentifier{1, 3, 6, 1, 4, 1, 99999, 5}, Critical: true, Value: []byte{5, 0}})
		}
		tmpl.RevokedCertificateEntries = append(tmpl.RevokedCertificateEntries, re)
	}
	if s.CritExt {
		tmpl.ExtraExtensions = append(tmpl.ExtraExtensions, pkix.Extension{Id: asn1.ObjectIdentifier{1, 3, 6, 1, 4, 1, 99999, 6}, Critical: true, Value: []byte{5, 0}})
	}
	if s.IDP {
		tmpl.ExtraExtensions = append(tmpl.ExtraExtensions, pkix.Extension{Id: oidIDP, Critical: true, Value: []byte{0x30, 0x00}})
	}
	switch s.Indicator {
	case "":
	case "bad":
		tmpl.ExtraExtensions = append(tmpl.ExtraExtensions, pkix.Extension{Id: oidDeltaInd, Critical: true, Value: []byte{0x04, 0x01, 0x01}})
	default:
		n, ok := new(big.Int).SetString(s.Indicator, 10)
		if !ok {
			n = big.NewInt(0)
		}
		v, _ := asn1.Marshal(n)
		tmpl.ExtraExtensions = append(tmpl.ExtraExtensions, pkix.Extension{Id: oidDeltaInd, Critical: true, Value: v})
	}
	if s.FreshestRaw != nil {
		tmpl.ExtraExtensions = append(tmpl.ExtraExtensions, pkix.Extension{Id: oidFreshest, Value: s.FreshestRaw})
	} else if s.Freshest != "" {
		tmpl.ExtraExtensions = append(tmpl.ExtraExtensions, pkix.Extension{Id: oidFreshest, Value: cdpExtValue([][]string{{s.Freshest}})})
	}
	// CreateRevocationList demands cRLSign and a subject key id on the issuer template
	iss := *issuer.X
	iss.KeyUsage |= x509.KeyUsageCRLSign
	if len(iss.SubjectKeyId) == 0 {
		iss.SubjectKeyId = []byte{1, 2, 3, 4}
	}
	key := issuer.Key
	if s.Signer == "other" {
		key = Key("ec521")
		iss.PublicKey = key.Public()
	}
	der, err := x509.CreateRevocationList(rand.Reader, tmpl, &iss, key)
	if err != nil {
		panic(fmt.Sprintf("CreateRevocationList: %v", err))
	}
	if s.Number < 0 || s.Next == "absent" {
		der = rewriteCRL(der, key, s.Number < 0, s.Next == "absent")
	}
	if s.Signer == "badsig" {
		der = append([]byte{}, der...)
		der[len(der)-2] ^= 0x41
	}
	return der
}

// rewriteCRL removes the CRL number extension and/or the nextUpdate field from a CRL and re-signs it.
func rewriteCRL(der []byte, key crypto.Signer, dropNumber, dropNext bool) []byte {
	var outer struct {
		TBS asn1.RawValue
		Alg pkix.AlgorithmIdentifier
		Sig asn1.BitString
	}
	if _, err := asn1.Unmarshal(der, &outer); err != nil {
		panic(err)
	}
	var tbs struct {
		Version    int `asn1:"optional,default:0"`
		Signature  pkix.AlgorithmIdentifier
		Issuer     asn1.RawValue
		ThisUpdate time.Time
		NextUpdate time.Time        `asn1:"optional"`
		Revoked    []asn1.RawValue  `asn1:"optional"`
		Extensions []pkix.Extension `asn1:"tag:0,optional,explicit"`
	}
	if _, err := asn1.Unmarshal(outer.TBS.FullBytes, &tbs); err != nil {
		panic(err)
	}
	var keep []pkix.Extension
	for _, e := range tbs.Extensions {
		if !(dropNumber && e.Id.Equal(oidCRLNumber)) {
			keep = append(keep, e)
		}
	}
	tbs.Extensions = keep
	if dropNext {
		tbs.NextUpdate = time.Time{}
	}
	ntbs, err := asn1.Marshal(tbs)
	if err != nil {
		panic(err)
	}
	h := sha256.Sum256(ntbs)
	sig, err := key.Sign(rand.Reader, h[:], crypto.SHA256)
	if err != nil {
		panic(err)
	}
	out, err := asn1.Marshal(struct {
		TBS asn1.RawValue
		Alg pkix.AlgorithmIdentifier
		Sig asn1.BitString
	}{asn1.RawValue{FullBytes: ntbs}, outer.Alg, asn1.BitString{Bytes: sig, BitLength: len(sig) * 8}})
	if err != nil {
		panic(err)
	}
	return out
}

// crlTerm abstracts a parsed CRL into the model's record, reading the parsed structure
// and calling the same library functions the code calls (oracles).
func crlTerm(rl *x509.RevocationList, issuer *x509.Certificate) string {
	next := int64(0)
	if !rl.NextUpdate.IsZero() {
		next = rl.NextUpdate.UnixNano()
	}
	var exts []string
	for _, e := range rl.Extensions {
		switch {
		case e.Id.Equal(oidIDP):
			exts = append(exts, fmt.Sprintf("(LIDP %s)", cB(e.Critical)))
		case e.Id.Equal(oidDeltaInd):
			v := new(big.Int)
			val := "None"
			var raw asn1.RawValue
			if rest, err := asn1.Unmarshal(e.Value, &raw); err == nil && len(rest) >= 0 && raw.Tag == asn1.TagInteger && raw.Class == asn1.ClassUniversal {
				if _, err := asn1.Unmarshal(raw.FullBytes, &v); err == nil {
					val = "(Some " + bigZ(v) + ")"
				}
			}
			exts = append(exts, fmt.Sprintf("(LDeltaInd %s %s)", cB(e.Critical), val))
		case e.Id.Equal(oidFreshest):
			exts = append(exts, fmt.Sprintf("(LFreshest %s)", cB(e.Critical)))
		default:
			exts = append(exts, fmt.Sprintf("(LOther %s)", cB(e.Critical)))
		}
	}
	num := "None"
	if rl.Number != nil {
		num = "(Some " + bigZ(rl.Number) + ")"
	}
	var ents []string
	for _, re := range rl.RevokedCertificateEntries {
		var xs []string
		for _, e := range re.Extensions {
			if e.Id.Equal(oidInvalidityDate) {
				var t time.Time
				rest, err := asn1.UnmarshalWithParams(e.Value, &t, "generalized")
				switch {
				case err != nil:
					xs = append(xs, "InvMalformed")
				case len(rest) > 0:
					xs = append(xs, "InvTrailing")
				default:
					xs = append(xs, fmt.Sprintf("(InvOk %s)", cZ(t.UnixNano())))
				}
			} else {
				xs = append(xs, fmt.Sprintf("(EOther %s)", cB(e.Critical)))
			}
		}
		ents = append(ents, fmt.Sprintf("(Entry %s %d %s %s)", bigZ(re.SerialNumber), re.ReasonCode, cZ(re.RevocationTime.UnixNano()), cList(xs)))
	}
	return fmt.Sprintf("(Crl %s %s %s %s %s)", cB(rl.CheckSignatureFrom(issuer) == nil), cZ(next), cList(exts), num, cList(ents))
}

func bigZ(v *big.Int) string {
	if v.Sign() < 0 {
		return "(" + v.String() + ")"
	}
	return v.String()
}

func mustParseCRL(der []byte) *x509.RevocationList {
	rl, err := x509.ParseRevocationList(der)
	if err != nil {
		panic(fmt.Sprintf("ParseRevocationList: %v", err))
	}
	return rl
}

// ============ custom fetcher ============

type fetchResult struct {
	bundle *crlpkg.Bundle
	err    error
	panicV any
}

type worldFetcher struct {
	mu     sync.Mutex
	res    map[string]fetchResult
	log    []string
	onReq  func(url string)
	onDone func(url string)
	seq    *eventSeq
}

func newWorldFetcher() *worldFetcher { return &worldFetcher{res: map[string]fetchResult{}} }

func (f *worldFetcher) Fetch(ctx context.Context, url string) (*crlpkg.Bundle, error) {
	atomic.AddInt32(&exchangesInFlight, 1)
	defer atomic.AddInt32(&exchangesInFlight, -1)
	f.mu.Lock()
	f.log = append(f.log, url)
	r, ok := f.res[url]
	hook := f.onReq
	f.mu.Unlock()
	f.seq.add(url)
	if hook != nil {
		hook(url)
	}
	if err := ctx.Err(); err != nil {
		return nil, err
	}
	if !ok {
		return nil, fmt.Errorf("worldFetcher: nothing configured for %s", url)
	}
	if r.panicV != nil {
		panic(r.panicV)
	}
	f.mu.Lock()
	done := f.onDone
	f.mu.Unlock()
	if done != nil {
		done(url)
	}
	return r.bundle, r.err
}

func (f *worldFetcher) fetched() []string {
	f.mu.Lock()
	defer f.mu.Unlock()
	return append([]string{}, f.log...)
}
