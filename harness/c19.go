package main

import (
	"crypto/x509"
	"encoding/json"
	"errors"
	"fmt"
	"math/big"
	"time"

	"github.com/notaryproject/notation-core-go/signature"
)

func init() { register("C19", "Run.C19", genC19) }

type c19cert struct {
	raw, subj, key, serial, iss int
	x                           *x509.Certificate
}

func (c c19cert) term() string {
	return fmt.Sprintf("(T %d %d %d %d %d)", c.raw, c.subj, c.key, c.serial, c.iss)
}

func c19Pool() []c19cert {
	root := Issue(CertSpec{CN: "c19 root", KeyName: "ec256a", BC: true, IsCA: true, MaxPathLen: -1, KU: x509.KeyUsageCertSign, KUExt: ExtCritical, Serial: big.NewInt(1)}, nil, nil)
	root2 := Issue(CertSpec{CN: "c19 root2", KeyName: "ec384", BC: true, IsCA: true, MaxPathLen: -1, KU: x509.KeyUsageCertSign, KUExt: ExtCritical, Serial: big.NewInt(2)}, nil, nil)
	leafSpec := CertSpec{CN: "c19 leaf", KeyName: "ec256b", KU: x509.KeyUsageDigitalSignature, KUExt: ExtCritical, Serial: big.NewInt(5)}
	leaf := Issue(leafSpec, root, nil)
	s2 := leafSpec
	s2.Serial = big.NewInt(6)
	leafSerial := Issue(s2, root, nil)
	s3 := leafSpec
	s3.NotAfter = baseTime.Add(48 * time.Hour)
	leafValidity := Issue(s3, root, nil)
	s4 := leafSpec
	s4.KeyName = "ec256c"
	leafKey := Issue(s4, root, nil)
	leafCross := Issue(leafSpec, root2, nil)
	// CA look-alikes: the root re-issued (same subject and key, other serial), and the root's
	// subject and key cross-signed by the second root
	rootSpec := CertSpec{CN: "c19 root", KeyName: "ec256a", BC: true, IsCA: true, MaxPathLen: -1, KU: x509.KeyUsageCertSign, KUExt: ExtCritical, Serial: big.NewInt(3)}
	rootTwin := Issue(rootSpec, nil, nil)
	rootSpec.Serial = big.NewInt(1)
	rootCross := Issue(rootSpec, root2, nil)
	// (raw, subject, key, serial, issuer) identities
	return []c19cert{
		{0, 10, 20, 5, 30, leaf.X},
		{1, 10, 20, 6, 30, leafSerial.X},
		{2, 10, 20, 5, 30, leafValidity.X},
		{3, 10, 21, 5, 30, leafKey.X},
		{4, 10, 20, 5, 31, leafCross.X},
		{5, 30, 22, 1, 30, root.X},
		{6, 31, 23, 2, 31, root2.X},
		{7, 30, 22, 3, 30, rootTwin.X},
		{8, 30, 22, 1, 31, rootCross.X},
	}
}

func genC19(tier string, rng *RNG, w *CaseWriter) {
	pool := c19Pool()
	// sanity of the pool: distinct DER, look-alikes really share the fields claimed
	for i := range pool {
		for j := range pool {
			if i != j && pool[i].x.Equal(pool[j].x) {
				panic("pool certificates not distinct")
			}
		}
	}
	maxLen, sample := 2, 2000
	if tier == "thorough" {
		maxLen, sample = 3, 0
	}
	var seqs [][]int
	var rec func(cur []int, n int)
	rec = func(cur []int, n int) {
		if len(cur) == n {
			seqs = append(seqs, append([]int{}, cur...))
			return
		}
		for i := range pool {
			rec(append(cur, i), n)
		}
	}
	for n := 0; n <= maxLen; n++ {
		rec(nil, n)
	}
	schemes := []signature.SigningScheme{signature.SigningSchemeX509, signature.SigningSchemeX509SigningAuthority, "", "notary.x509.other"}
	k := 0
	run := func(chain, trust []int, nilSigner bool) {
		k++
		scheme := k % 4
		var tm time.Time
		tz := int64(0)
		if (k/4)%2 == 1 {
			tz = 1700000000 + int64(k)
			tm = time.Unix(tz, 0)
		} else {
			// the zero instant in different representations (IsZero is about the instant, not the location)
			switch (k / 8) % 4 {
			case 1:
				tm = time.Time{}.Local()
			case 2:
				tm = time.Time{}.In(time.FixedZone("east", 3600))
			case 3:
				json.Unmarshal([]byte(`"0001-01-01T00:00:00+00:00"`), &tm)
			}
		}
		var ch, tr []*x509.Certificate
		var cht, trt []string
		for _, i := range chain {
			ch = append(ch, reparse(pool[i].x))
			cht = append(cht, pool[i].term())
		}
		for _, i := range trust {
			tr = append(tr, reparse(pool[i].x))
			trt = append(trt, pool[i].term())
		}
		var si *signature.SignerInfo
		if !nilSigner {
			si = &signature.SignerInfo{CertificateChain: ch}
			si.SignedAttributes.SigningScheme = schemes[scheme]
			si.SignedAttributes.SigningTime = tm
		}
		got, err := signature.VerifyAuthenticity(si, tr)
		impl := int64(-9)
		var ia *signature.InvalidArgumentError
		var ae *signature.SignatureAuthenticityError
		switch {
		case err == nil && got != nil:
			for j, t := range tr {
				if t == got {
					impl = int64(j)
					break
				}
			}
		case errors.As(err, &ia) && got == nil:
			if ia.Param == "trustedCerts" {
				impl = -1
			} else if ia.Param == "signerInfo" {
				impl = -2
			}
		case errors.As(err, &ae) && got == nil:
			impl = -3
		}
		ast := int64(-1)
		schemeZ := int64(scheme)
		if si != nil {
			t, err := si.AuthenticSigningTime()
			if err == nil {
				if t.IsZero() {
					ast = 0
				} else {
					ast = t.Unix()
				}
			}
		} else {
			// no signer info: AuthenticSigningTime is not callable; feed the model a combination that errors
			schemeZ, tz = 0, 0
		}
		cls := "trusted"
		switch {
		case impl == -1:
			cls = "argerr-trust"
		case impl == -2:
			cls = "argerr-signer"
		case impl == -3:
			cls = "untrusted"
		case impl == -9:
			cls = "unexpected"
		}
		w.Count(fmt.Sprintf("chainlen:%d", len(chain)))
		w.Count(fmt.Sprintf("trustlen:%d", len(trust)))
		term := fmt.Sprintf("(mk @ID@ %s %s %d %d %s %s)", cOpt(!nilSigner, cList(cht)), cList(trt), schemeZ, tz, cZ(impl), cZ(ast))
		desc := map[string]any{"chain": chain, "trust": trust, "nil_signer": nilSigner, "scheme": string(schemes[scheme]), "time_unix": tz, "impl": impl, "impl_ast": ast}
		w.Emit(term, desc, cls, len(chain) > 0 && len(trust) > 0)
	}
	for _, c := range seqs {
		for _, t := range seqs {
			run(c, t, false)
		}
	}
	for _, t := range seqs {
		if len(t) <= 2 {
			run(nil, t, true)
		}
	}
	// sampled longer chains/trust lists
	for i := 0; i < sample; i++ {
		cl, tl := 1+rng.Intn(4), rng.Intn(5)
		var c, t []int
		for j := 0; j < cl; j++ {
			c = append(c, rng.Intn(len(pool)))
		}
		for j := 0; j < tl; j++ {
			t = append(t, rng.Intn(len(pool)))
		}
		run(c, t, false)
	}
	w.Extra["exhaustive_up_to_len"] = maxLen
	w.Extra["pool"] = "leaf; same subject+key other serial; other validity; other key; cross-signed by second root; root; root2; root re-issued with other serial; root subject+key cross-signed by root2"
}
