package main

import (
	"crypto"
	"crypto/ecdsa"
	"crypto/ed25519"
	"crypto/elliptic"
	"crypto/rand"
	"crypto/rsa"
	"crypto/x509"
	"crypto/x509/pkix"
	"encoding/asn1"
	"encoding/pem"
	"fmt"
	"math/big"
	"os"
	"path/filepath"
	"sync"
	"time"
)

// ---------------- key pool (committed PEM files; generated once if absent) ----------------

var keyNames = []string{"rsa2040", "rsa2050", "rsa1024", "rsa2048a", "rsa2048b", "rsa3072", "rsa4096", "ec224", "ec256a", "ec256b", "ec256c", "ec384", "ec521", "ed25519"}

var (
	keyPool   = map[string]crypto.Signer{}
	keyPoolMu sync.Mutex
	keyDir    = "keys"
)

func genKey(name string) (crypto.Signer, error) {
	switch name {
	case "rsa1024":
		return rsa.GenerateKey(rand.Reader, 1024)
	case "rsa2040":
		return rsa.GenerateKey(rand.Reader, 2040)
	case "rsa2050":
		return rsa.GenerateKey(rand.Reader, 2050)
	case "rsa2048a", "rsa2048b":
		return rsa.GenerateKey(rand.Reader, 2048)
	case "rsa3072":
		return rsa.GenerateKey(rand.Reader, 3072)
	case "rsa4096":
		return rsa.GenerateKey(rand.Reader, 4096)
	case "ec224":
		return ecdsa.GenerateKey(elliptic.P224(), rand.Reader)
	case "ec256a", "ec256b", "ec256c":
		return ecdsa.GenerateKey(elliptic.P256(), rand.Reader)
	case "ec384":
		return ecdsa.GenerateKey(elliptic.P384(), rand.Reader)
	case "ec521":
		return ecdsa.GenerateKey(elliptic.P521(), rand.Reader)
	case "ed25519":
		_, k, err := ed25519.GenerateKey(rand.Reader)
		return k, err
	}
	return nil, fmt.Errorf("unknown key %s", name)
}

func Key(name string) crypto.Signer {
	keyPoolMu.Lock()
	defer keyPoolMu.Unlock()
	if k, ok := keyPool[name]; ok {
		return k
	}
	path := filepath.Join(keyDir, name+".pem")
	if data, err := os.ReadFile(path); err == nil {
		blk, _ := pem.Decode(data)
		k, err := x509.ParsePKCS8PrivateKey(blk.Bytes)
		if err != nil {
			panic(err)
		}
		keyPool[name] = k.(crypto.Signer)
		return keyPool[name]
	}
	k, err := genKey(name)
	if err != nil {
		panic(err)
	}
	der, err := x509.MarshalPKCS8PrivateKey(k)
	if err != nil {
		panic(err)
	}
	os.MkdirAll(keyDir, 0o755)
	if err := os.WriteFile(path, pem.EncodeToMemory(&pem.Block{Type: "PRIVATE KEY", Bytes: der}), 0o600); err != nil {
		panic(err)
	}
	keyPool[name] = k
	return k
}

// ---------------- certificate factory ----------------

var (
	oidKU       = asn1.ObjectIdentifier{2, 5, 29, 15}
	oidEKU      = asn1.ObjectIdentifier{2, 5, 29, 37}
	oidFreshest = asn1.ObjectIdentifier{2, 5, 29, 46}
	oidBC       = asn1.ObjectIdentifier{2, 5, 29, 19}

	ekuOIDs = map[string]asn1.ObjectIdentifier{
		"any":    {2, 5, 29, 37, 0},
		"server": {1, 3, 6, 1, 5, 5, 7, 3, 1},
		"client": {1, 3, 6, 1, 5, 5, 7, 3, 2},
		"code":   {1, 3, 6, 1, 5, 5, 7, 3, 3},
		"email":  {1, 3, 6, 1, 5, 5, 7, 3, 4},
		"ts":     {1, 3, 6, 1, 5, 5, 7, 3, 8},
		"ocsp":   {1, 3, 6, 1, 5, 5, 7, 3, 9},
		"other":  {1, 3, 6, 1, 4, 1, 99999, 1},
		"other2": {1, 3, 6, 1, 4, 1, 99999, 2},
	}
)

const (
	ExtAbsent      = 0
	ExtNonCritical = 1
	ExtCritical    = 2
)

type CertSpec struct {
	CN           string
	KeyName      string
	Serial       *big.Int
	NotBefore    time.Time
	NotAfter     time.Time
	BC           bool // basic constraints extension present
	IsCA         bool
	MaxPathLen   int // -1 = absent
	KU           x509.KeyUsage
	KUExt        int // ExtAbsent / ExtNonCritical / ExtCritical
	EKU          []string
	EKUExt       int // criticality of EKU ext when len(EKU)>0 (ExtNonCritical/ExtCritical)
	OCSP         []string
	CRL          []string
	Freshest     bool
	FreshestRaw  []byte // with Freshest: the value of the freshest-CRL extension (nil: one distribution point with one URI)
	Extra        []pkix.Extension
	IssuerName   *pkix.Name // override the issuer name (nil: parent's subject)
	EmptySubject bool       // empty subject DN, identity in a critical subjectAltName (RFC 5280 4.1.2.6)
	EKUFirst     bool       // the extended key usage extension is the certificate's first extension (before key usage)
	SKI          []byte     // subject key identifier (nil: derived from the key by crypto/x509 for CA certificates)
	AKI          []byte     // authority key identifier of a self-issued certificate (nil: none; issued certificates carry the parent's subject key identifier)
}

type Cert struct {
	Spec CertSpec
	X    *x509.Certificate
	Key  crypto.Signer
}

var serialCtr int64 = 1000
var serialMu sync.Mutex

func nextSerial() *big.Int {
	serialMu.Lock()
	defer serialMu.Unlock()
	serialCtr++
	return big.NewInt(serialCtr)
}

func kuBits(ku x509.KeyUsage) asn1.BitString {
	var a [2]byte
	a[0] = reverseBits(byte(ku))
	a[1] = reverseBits(byte(ku >> 8))
	l := 1
	if a[1] != 0 {
		l = 2
	}
	bs := a[:l]
	// bit length
	bl := 0
	for i := 0; i < 9; i++ {
		if ku&(1<<uint(i)) != 0 {
			bl = i + 1
		}
	}
	return asn1.BitString{Bytes: bs, BitLength: bl}
}

func reverseBits(b byte) byte {
	var r byte
	for i := 0; i < 8; i++ {
		if b&(1<<uint(i)) != 0 {
			r |= 1 << uint(7-i)
		}
	}
	return r
}

// Issue creates a certificate from spec, signed by signer (parent==nil: self-issued,
// signed with its own key unless signKey is given).
func Issue(spec CertSpec, parent *Cert, signKey crypto.Signer) *Cert {
	key := Key(spec.KeyName)
	if spec.Serial == nil {
		spec.Serial = nextSerial()
	}
	if spec.NotBefore.IsZero() {
		spec.NotBefore = baseTime.Add(-24 * time.Hour)
	}
	if spec.NotAfter.IsZero() {
		spec.NotAfter = baseTime.Add(24 * time.Hour * 365)
	}
	tmpl := &x509.Certificate{
		SerialNumber:          spec.Serial,
		Subject:               pkix.Name{CommonName: spec.CN, Organization: []string{"verif"}},
		NotBefore:             spec.NotBefore,
		NotAfter:              spec.NotAfter,
		BasicConstraintsValid: spec.BC,
		IsCA:                  spec.IsCA,
		OCSPServer:            spec.OCSP,
		CRLDistributionPoints: spec.CRL,
	}
	if spec.AKI != nil {
		tmpl.AuthorityKeyId = spec.AKI
	}
	if spec.SKI != nil {
		tmpl.SubjectKeyId = spec.SKI
	}
	if spec.EmptySubject {
		tmpl.Subject = pkix.Name{}
		tmpl.DNSNames = []string{"empty-subject.verif.example"}
		if san, err := asn1.Marshal([]asn1.RawValue{{Class: asn1.ClassContextSpecific, Tag: 2, Bytes: []byte("empty-subject.verif.example")}}); err == nil {
			tmpl.DNSNames = nil
			tmpl.ExtraExtensions = append(tmpl.ExtraExtensions, pkix.Extension{Id: asn1.ObjectIdentifier{2, 5, 29, 17}, Critical: true, Value: san})
		}
	}
	if spec.BC {
		if spec.MaxPathLen >= 0 && spec.IsCA { // crypto/x509 refuses to create a non-CA certificate with a path length

			tmpl.MaxPathLen = spec.MaxPathLen
			tmpl.MaxPathLenZero = spec.MaxPathLen == 0
		} else {
			tmpl.MaxPathLen = -1
		}
	}
	if spec.EKUFirst && len(spec.EKU) > 0 {
		var oids []asn1.ObjectIdentifier
		for _, e := range spec.EKU {
			oids = append(oids, ekuOIDs[e])
		}
		if v, err := asn1.Marshal(oids); err == nil {
			tmpl.ExtraExtensions = append(tmpl.ExtraExtensions, pkix.Extension{Id: oidEKU, Critical: spec.EKUExt == ExtCritical, Value: v})
		}
	}
	if spec.KUExt != ExtAbsent {
		v, err := asn1.Marshal(kuBits(spec.KU))
		if err != nil {
			panic(err)
		}
		tmpl.ExtraExtensions = append(tmpl.ExtraExtensions, pkix.Extension{Id: oidKU, Critical: spec.KUExt == ExtCritical, Value: v})
	}
	if len(spec.EKU) > 0 && !spec.EKUFirst {
		var oids []asn1.ObjectIdentifier
		for _, e := range spec.EKU {
			oids = append(oids, ekuOIDs[e])
		}
		v, err := asn1.Marshal(oids)
		if err != nil {
			panic(err)
		}
		tmpl.ExtraExtensions = append(tmpl.ExtraExtensions, pkix.Extension{Id: oidEKU, Critical: spec.EKUExt == ExtCritical, Value: v})
	}
	if spec.Freshest {
		// a freshest-CRL extension naming one URI (content irrelevant to the code: only presence is read)
		v := cdpExtValue([][]string{{"http://delta.example/fresh.crl"}})
		if spec.FreshestRaw != nil {
			v = spec.FreshestRaw
		}
		tmpl.ExtraExtensions = append(tmpl.ExtraExtensions, pkix.Extension{Id: oidFreshest, Value: v})
	}
	for _, e := range spec.Extra { // the same benign extension may be requested twice by stacked modifications: keep one
		dup := false
		for _, have := range tmpl.ExtraExtensions {
			if have.Id.Equal(e.Id) {
				dup = true
			}
		}
		if !dup {
			tmpl.ExtraExtensions = append(tmpl.ExtraExtensions, e)
		}
	}

	var parentX *x509.Certificate
	var sk crypto.Signer
	if parent == nil {
		parentX = tmpl
		sk = key
	} else {
		parentX = parent.X
		sk = parent.Key
	}
	if spec.IssuerName != nil {
		// copy parent with a different subject so that the issuer field differs
		p2 := *parentX
		p2.Subject = *spec.IssuerName
		p2.RawSubject = nil
		parentX = &p2
	}
	if signKey != nil {
		sk = signKey
		if parent != nil || spec.IssuerName != nil {
			// CreateCertificate insists that the signing key matches parent.PublicKey
			p2 := *parentX
			p2.PublicKey = signKey.Public()
			parentX = &p2
		}
	}
	der, err := x509.CreateCertificate(rand.Reader, tmpl, parentX, key.Public(), sk)
	if err != nil {
		panic(fmt.Sprintf("CreateCertificate(%s): %v", spec.CN, err))
	}
	x, err := x509.ParseCertificate(der)
	if err != nil {
		panic(fmt.Sprintf("ParseCertificate(%s): %v", spec.CN, err))
	}
	return &Cert{Spec: spec, X: x, Key: key}
}

// cdpExtValue encodes a CRLDistributionPoints-shaped value: one DistributionPoint per
// inner list, each with fullName = the URIs.
func cdpExtValue(points [][]string) []byte {
	type gn = asn1.RawValue
	var dps []asn1.RawValue
	for _, uris := range points {
		var names []byte
		for _, u := range uris {
			b, _ := asn1.Marshal(asn1.RawValue{Class: asn1.ClassContextSpecific, Tag: 6, Bytes: []byte(u)})
			names = append(names, b...)
		}
		full, _ := asn1.Marshal(asn1.RawValue{Class: asn1.ClassContextSpecific, Tag: 0, IsCompound: true, Bytes: names})
		dpn, _ := asn1.Marshal(asn1.RawValue{Class: asn1.ClassContextSpecific, Tag: 0, IsCompound: true, Bytes: full})
		dp, _ := asn1.Marshal(asn1.RawValue{Class: asn1.ClassUniversal, Tag: asn1.TagSequence, IsCompound: true, Bytes: dpn})
		dps = append(dps, asn1.RawValue{FullBytes: dp})
	}
	var all []byte
	for _, d := range dps {
		all = append(all, d.FullBytes...)
	}
	out, _ := asn1.Marshal(asn1.RawValue{Class: asn1.ClassUniversal, Tag: asn1.TagSequence, IsCompound: true, Bytes: all})
	return out
}

// baseTime is the reference instant of generated artefacts: the start of the run,
// truncated to the second. Validity windows sit well away from it unless a case is
// specifically about a boundary that the code compares with a caller-supplied time.
var baseTime = time.Now().UTC().Truncate(time.Second)

func reparse(c *x509.Certificate) *x509.Certificate {
	x, err := x509.ParseCertificate(c.Raw)
	if err != nil {
		panic(err)
	}
	return x
}
