package main

import (
	"fmt"
	"time"

	"golang.org/x/crypto/ocsp"
)

// Shared generator pieces of the whole-chain revocation properties (C06, C11, C12).

// srcPlan: what the sources named by one non-root certificate do.
type srcPlan struct {
	O        []ocspBehav
	C        []dpBehav
	Freshest bool
	CKinds   []string // URL scheme per distribution point ("" = http)
}

func (s srcPlan) slots() certSlots {
	cs := certSlots{NCRL: len(s.C), Freshest: s.Freshest, CRLKinds: s.CKinds}
	for _, b := range s.O {
		switch b.Kind {
		case "badurl", "scheme", "emptyurl", "blankurl":
			cs.OCSP = append(cs.OCSP, b.Kind)
		default:
			cs.OCSP = append(cs.OCSP, "ok")
		}
	}
	return cs
}

func respB(signer string, status int, next, inv string) ocspBehav {
	return ocspBehav{Kind: "resp", Signer: signer, Serial: "match", Status: status, Next: next, Inv: inv}
}

// outcome classes of an OCSP responder
var (
	oGood    = respB("issuer", ocsp.Good, "+1h", "none")
	oRevoked = respB("issuer", ocsp.Revoked, "+1h", "none")
	oUnknown = respB("issuer", ocsp.Unknown, "+1h", "none")
	oErr     = ocspBehav{Kind: "transport"}
	oBadURL  = ocspBehav{Kind: "badurl"}
	oStale   = respB("issuer", ocsp.Good, "-1h", "none")
	oForged  = respB("self", ocsp.Good, "+1h", "none")
)

func dpByName(name string) dpBehav {
	for _, b := range dpAlphabet() {
		if b.name == name {
			return b
		}
	}
	panic("no dp behaviour " + name)
}

// buildPlanCase assembles a revCase for a chain whose non-root certificates follow plans.
func buildPlanCase(entry int, purp string, plans []srcPlan, st time.Time, httpCRL bool) *revCase {
	slots := make([]certSlots, len(plans))
	for i, p := range plans {
		slots[i] = p.slots()
	}
	chain := buildRevChain(purp, slots, nil, nil)
	xs := chain.xs()
	rc := &revCase{Entry: entry, Purpose: purp, Chain: chain, OCSP: map[string]ocspBehav{}, CRL: map[string]crlDelivery{}, ST: st, HTTPCRL: httpCRL}
	for i, p := range plans {
		var lab string
		for k, b := range p.O {
			rc.OCSP[xs[i].OCSPServer[k]] = b
			lab += "o:" + b.String() + " "
		}
		for k, b := range p.C {
			rc.CRL[xs[i].CRLDistributionPoints[k]] = b.mk()
			lab += "c:" + b.name + " "
		}
		rc.Labels = append(rc.Labels, fmt.Sprintf("cert%d[%s]", i, lab))
	}
	return rc
}

func emitRev(w *CaseWriter, rc *revCase, nontrivial bool, extra ...string) {
	term, desc, outs, panicked := runRevCase(rc)
	cls := "nores"
	if len(outs) > 0 {
		cls = ""
		for _, o := range outs {
			cls += resTerm(o.Result)[1:2]
		}
	}
	if panicked {
		cls = "panic"
	}
	w.Count(fmt.Sprintf("len:%d", len(rc.Chain.certs)))
	w.Count(fmt.Sprintf("entry:%d", rc.Entry))
	w.Count("purpose:" + rc.Purpose)
	for _, e := range extra {
		w.Count(e)
	}
	w.Emit("(mk @ID@ "+term+")", desc, cls, nontrivial)
}

// all sequences of length n over alphabet al
func seqs[T any](al []T, n int) [][]T {
	if n == 0 {
		return [][]T{nil}
	}
	var out [][]T
	for _, p := range seqs(al, n-1) {
		for _, a := range al {
			out = append(out, append(append([]T{}, p...), a))
		}
	}
	return out
}
