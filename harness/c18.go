package main

import (
	"context"
	"crypto/x509"
	"encoding/asn1"
	"errors"
	"fmt"
	"net/http"
	"strings"
	"sync"
	"time"

	crlpkg "github.com/notaryproject/notation-core-go/revocation/crl"
)

func init() { register("C18", "Run.C18", genC18) }

// ---- freshest-CRL extension shapes ----
type gnameA struct {
	URI       string // "" = a non-URI general name (dNSName)
	Truncated bool   // a non-URI general name whose length runs past the end of the enclosing element
}
type dpointA struct {
	Kind  string // noname | full | relative | malformed | reasons-only
	Names []gnameA
}
type fshapeA struct {
	Kind   string // none | badouter | points
	Points []dpointA
}

func rawCtx(tag int, compound bool, b []byte) []byte {
	v, _ := asn1.Marshal(asn1.RawValue{Class: asn1.ClassContextSpecific, Tag: tag, IsCompound: compound, Bytes: b})
	return v
}
func rawSeq(b []byte) []byte {
	v, _ := asn1.Marshal(asn1.RawValue{Class: asn1.ClassUniversal, Tag: asn1.TagSequence, IsCompound: true, Bytes: b})
	return v
}

func (f fshapeA) der() []byte {
	switch f.Kind {
	case "none":
		return nil
	case "badouter":
		return []byte{0x04, 0x02, 0x01, 0x02} // an OCTET STRING instead of the SEQUENCE
	}
	var all []byte
	for _, p := range f.Points {
		switch p.Kind {
		case "noname":
			all = append(all, rawSeq(nil)...)
		case "reasons-only":
			all = append(all, rawSeq(rawCtx(1, false, []byte{0x06, 0x40}))...)
		case "relative":
			all = append(all, rawSeq(rawCtx(0, true, rawCtx(1, true, []byte{0x30, 0x00})))...)
		case "malformed":
			all = append(all, rawSeq(rawCtx(0, true, []byte{0x04, 0x01, 0x00}))...)
		case "malformed-not-a-sequence": // the distribution point is an INTEGER
			all = append(all, 0x02, 0x01, 0x05)
		case "malformed-name-truncated": // [0] claims more octets than the distribution point holds
			all = append(all, 0x30, 0x03, 0xA0, 0x05, 0x00)
		case "malformed-uri-truncated": // fullName { URI claiming 5 octets, 1 present }
			all = append(all, rawSeq(rawCtx(0, true, rawCtx(0, true, []byte{0x86, 0x05, 'h'})))...)
		case "full":
			var names []byte
			for _, n := range p.Names {
				if n.Truncated {
					names = append(names, 0x82, 0x05, 0x61) // dNSName claiming 5 bytes, 1 present
				} else if n.URI != "" {
					names = append(names, rawCtx(6, false, []byte(n.URI))...)
				} else {
					names = append(names, rawCtx(2, false, []byte("crl.example"))...)
				}
			}
			all = append(all, rawSeq(rawCtx(0, true, rawCtx(0, true, names)))...)
		}
	}
	return rawSeq(all)
}

func (f fshapeA) term() string {
	switch f.Kind {
	case "none":
		return "FNone"
	case "badouter":
		return "FBadOuter"
	}
	var ps []string
	for _, p := range f.Points {
		switch p.Kind {
		case "noname", "reasons-only":
			ps = append(ps, "DNoName")
		case "relative":
			ps = append(ps, "DRelative")
		case "malformed", "malformed-not-a-sequence", "malformed-name-truncated", "malformed-uri-truncated":
			ps = append(ps, "DMalformed")
		case "full":
			var ns []string
			for _, n := range p.Names {
				if n.URI != "" {
					ns = append(ns, fmt.Sprintf("(GUri %s)", c18id(n.URI)))
				} else {
					ns = append(ns, "GOther")
				}
			}
			ps = append(ps, "(DFull "+cList(ns)+")")
		}
	}
	return "(FPoints " + cList(ps) + ")"
}

// c18id: the model's URL identifier; negative for a URL whose scheme is not plain http
func c18id(u string) string {
	id := int64(urlIDs.id([]byte(u)))
	if !strings.HasPrefix(u, "http://") {
		id = -id
	}
	return cZ(id)
}

// ---- abstract CRLs ----
type fcrlA struct {
	ID     int64  // CRL number
	Next   string // +1h | -1h | absent
	Fresh  fshapeA
	Status int // HTTP status the server sends with this CRL as body (0 = 200); anything but 200 is not a download
}

func (c fcrlA) served() bool { return c.Status == 0 || c.Status == 200 }

var c18issuer *Cert
var c18cache sync.Map // key -> parsed CRL

func (c fcrlA) key() string { return fmt.Sprintf("%d|%s|%x", c.ID, c.Next, c.Fresh.der()) }
func (c fcrlA) der() []byte {
	if v, ok := c18cache.Load("der:" + c.key()); ok {
		return v.([]byte)
	}
	raw := c.Fresh.der()
	d := buildCRL(crlSpec{Number: c.ID, Next: c.Next, Signer: "issuer", FreshestRaw: raw}, c18issuer, c18issuer.X.SerialNumber)
	c18cache.Store("der:"+c.key(), d)
	return d
}
func (c fcrlA) parsed() *x509.RevocationList { return mustParseCRL(c.der()) }
func (c fcrlA) term() string {
	next := int64(0)
	switch c.Next {
	case "+1h":
		next = baseTime.Add(time.Hour).UnixNano()
	case "-1h":
		next = baseTime.Add(-time.Hour).UnixNano()
	}
	return fmt.Sprintf("(FCrl %d %s %s)", c.ID, cZ(next), c.Fresh.term())
}

type fbundleA struct {
	Base  fcrlA
	Delta *fcrlA
}

func (b fbundleA) term() string {
	d := "None"
	if b.Delta != nil {
		d = "(Some " + b.Delta.term() + ")"
	}
	return fmt.Sprintf("(FBundle %s %s)", b.Base.term(), d)
}
func (b fbundleA) real() *crlpkg.Bundle {
	out := &crlpkg.Bundle{BaseCRL: b.Base.parsed()}
	if b.Delta != nil {
		out.DeltaCRL = b.Delta.parsed()
	}
	return out
}

// ---- the world: server + cache with an event log ----
type c18world struct {
	mu       sync.Mutex
	server   map[string]fcrlA
	cache    map[string]*crlpkg.Bundle
	getFault bool
	setFault bool
	wrapMiss bool
	events   []string
}

func (w *c18world) RoundTrip(req *http.Request) (*http.Response, error) {
	u := req.URL.String()
	w.mu.Lock()
	w.events = append(w.events, fmt.Sprintf("(EDownload %s)", c18id(u)))
	c, ok := w.server[u]
	w.mu.Unlock()
	if !ok {
		return httpBody(404, []byte("not here"))
	}
	if !c.served() {
		return httpBody(c.Status, c.der())
	}
	return httpBody(200, c.der())
}
func (w *c18world) Get(ctx context.Context, url string) (*crlpkg.Bundle, error) {
	w.mu.Lock()
	defer w.mu.Unlock()
	w.events = append(w.events, fmt.Sprintf("(EGet %s)", c18id(url)))
	if w.getFault {
		return nil, errors.New("cache get failed (injected)")
	}
	if b, ok := w.cache[url]; ok {
		return b, nil
	}
	if w.wrapMiss { // a cache implementation may add context to the sentinel
		return nil, fmt.Errorf("no entry for %q: %w", url, crlpkg.ErrCacheMiss)
	}
	return nil, crlpkg.ErrCacheMiss
}
func (w *c18world) Set(ctx context.Context, url string, b *crlpkg.Bundle) error {
	w.mu.Lock()
	defer w.mu.Unlock()
	w.events = append(w.events, fmt.Sprintf("(ESet %s)", c18id(url)))
	if w.setFault {
		return errors.New("cache set failed (injected)")
	}
	w.cache[url] = b
	return nil
}

// identify a parsed CRL returned by the implementation among the abstract CRLs of the case
func identifyCRL(rl *x509.RevocationList, known []fcrlA) string {
	for _, k := range known {
		if string(k.der()) == string(rl.Raw) {
			return k.term()
		}
	}
	return "(FCrl (-1) 0 FNone)"
}

type c18op struct {
	Kind     string // fetch | publish | unpublish | cacheput | faults
	URL      string
	CRL      fcrlA
	Bundle   fbundleA
	Get, Set bool
}

func (o c18op) term() string {
	id := c18id(o.URL)
	switch o.Kind {
	case "fetch":
		return fmt.Sprintf("(OFetch %s)", id)
	case "publish":
		if !o.CRL.served() { // for the model a location answering with another status is one that does not answer
			return fmt.Sprintf("(OUnpublish %s)", id)
		}
		return fmt.Sprintf("(OPublish %s %s)", id, o.CRL.term())
	case "unpublish":
		return fmt.Sprintf("(OUnpublish %s)", id)
	case "cacheput":
		return fmt.Sprintf("(OCachePut %s %s)", id, o.Bundle.term())
	}
	return fmt.Sprintf("(OFaults %s %s)", cB(o.Get), cB(o.Set))
}
func (o c18op) String() string {
	switch o.Kind {
	case "fetch":
		return "fetch " + o.URL[len(o.URL)-8:]
	case "publish":
		return fmt.Sprintf("publish %s #%d next%s %s", o.URL[len(o.URL)-8:], o.CRL.ID, o.CRL.Next, o.CRL.Fresh.term())
	case "unpublish":
		return "unpublish " + o.URL[len(o.URL)-8:]
	case "cacheput":
		return "cacheput " + o.Bundle.term()
	}
	return fmt.Sprintf("faults get=%v set=%v", o.Get, o.Set)
}

var nC18 int

func runC18(w *CaseWriter, withCache, discard bool, initial map[string]fcrlA, ops []c18op, labels []string) {
	nC18++
	world := &c18world{server: map[string]fcrlA{}, cache: map[string]*crlpkg.Bundle{}, wrapMiss: nC18%2 == 0}
	var known []fcrlA
	var srvTerms []string
	for u, c := range initial {
		world.server[u] = c
		known = append(known, c)
	}
	// deterministic order of the initial server list
	var us []string
	for u := range initial {
		us = append(us, u)
	}
	sortStrings(us)
	for _, u := range us {
		if initial[u].served() {
			srvTerms = append(srvTerms, fmt.Sprintf("(%s, %s)", c18id(u), initial[u].term()))
		}
	}
	for _, o := range ops {
		switch o.Kind {
		case "publish":
			known = append(known, o.CRL)
		case "cacheput":
			known = append(known, o.Bundle.Base)
			if o.Bundle.Delta != nil {
				known = append(known, *o.Bundle.Delta)
			}
		}
	}
	client := &http.Client{Transport: world, Timeout: 5 * time.Second}
	f, err := crlpkg.NewHTTPFetcher(client)
	if err != nil {
		panic(err)
	}
	if withCache {
		f.Cache = world
	}
	f.DiscardCacheError = discard
	var opTerms, outTerms, opStrs []string
	panicked := false
	for _, o := range ops {
		opTerms = append(opTerms, o.term())
		opStrs = append(opStrs, o.String())
		switch o.Kind {
		case "publish":
			world.server[o.URL] = o.CRL
			outTerms = append(outTerms, "None")
		case "unpublish":
			delete(world.server, o.URL)
			outTerms = append(outTerms, "None")
		case "cacheput":
			world.cache[o.URL] = o.Bundle.real()
			outTerms = append(outTerms, "None")
		case "faults":
			world.getFault, world.setFault = o.Get, o.Set
			outTerms = append(outTerms, "None")
		case "fetch":
			world.events = nil
			var b *crlpkg.Bundle
			var ferr error
			done := make(chan struct{})
			go func() {
				defer close(done)
				defer func() {
					if r := recover(); r != nil {
						panicked = true
						ferr = fmt.Errorf("panic: %v", r)
					}
				}()
				b, ferr = f.Fetch(context.Background(), o.URL)
			}()
			select {
			case <-done:
			case <-time.After(10 * time.Second): // the fetch does not return although the server answered at once
				panicked = true
				ferr = fmt.Errorf("hang: Fetch did not return within 10s")
				b = nil
			}
			res := "FErr"
			if ferr == nil && b != nil && b.BaseCRL != nil {
				d := "None"
				if b.DeltaCRL != nil {
					d = "(Some " + identifyCRL(b.DeltaCRL, known) + ")"
				}
				fromCache := true
				for _, e := range world.events {
					if strings.HasPrefix(e, "(EDownload") {
						fromCache = false
					}
				}
				res = fmt.Sprintf("(FOk (FBundle %s %s) %s)", identifyCRL(b.BaseCRL, known), d, cB(fromCache))
			}
			outTerms = append(outTerms, fmt.Sprintf("(Some (%s, %s))", res, cList(world.events)))
		}
	}
	term := fmt.Sprintf("(mk @ID@ (FCfg %s %s) (FWorld [] %s false false %s) %s %s %s)", cB(withCache), cB(discard), cList(srvTerms), cZ(time.Now().UnixNano()), cList(opTerms), cList(outTerms), cB(panicked))
	desc := map[string]any{"cache": withCache, "discard": discard, "ops": opStrs, "impl": outTerms, "labels": labels}
	w.Count(fmt.Sprintf("len:%d", len(ops)))
	for _, l := range labels {
		w.Count(l)
	}
	cls := "no-fetch"
	for _, o := range outTerms {
		if strings.Contains(o, "FErr") {
			cls = "some-error"
		} else if strings.Contains(o, "FOk") && cls == "no-fetch" {
			cls = "ok"
		}
	}
	w.Emit(term, desc, cls, len(ops) > 1)
}

func sortStrings(s []string) {
	for i := range s {
		for j := i + 1; j < len(s); j++ {
			if s[j] < s[i] {
				s[i], s[j] = s[j], s[i]
			}
		}
	}
}

func genC18(tier string, rng *RNG, w *CaseWriter) {
	w.ShardSize = 200
	c18issuer = envFixtureGetCA()
	base := "http://crl.test/f/base.crl"
	d1, d2, d3 := "http://crl.test/f/dlt1.crl", "http://crl.test/f/dlt2.crl", "http://crl.test/f/dlt3.crl"
	ldap, d1s := "ldap://dir.test/cn=crl,o=test?certificateRevocationList", "https://crl.test/f/dlt1.crl"
	uris := func(us ...string) []gnameA {
		var out []gnameA
		for _, u := range us {
			out = append(out, gnameA{URI: u})
		}
		return out
	}
	shapes := []fshapeA{
		{Kind: "none"},
		{Kind: "points", Points: []dpointA{{Kind: "full", Names: uris(d1)}}},
		{Kind: "points", Points: []dpointA{{Kind: "full", Names: uris(d1, d2)}}},
		{Kind: "points", Points: []dpointA{{Kind: "full", Names: uris(d1)}, {Kind: "full", Names: uris(d2)}, {Kind: "full", Names: uris(d3)}}},
		{Kind: "points", Points: []dpointA{{Kind: "noname"}, {Kind: "full", Names: uris(d2)}}},
		{Kind: "points", Points: []dpointA{{Kind: "full", Names: uris(d3, d1, d2)}}},                              // advertised in an order that is not the lexicographic one
		{Kind: "points", Points: []dpointA{{Kind: "full", Names: uris(d2)}, {Kind: "full", Names: uris(d1, d1)}}}, // second point first in the alphabet; a location named twice
		{Kind: "points", Points: []dpointA{{Kind: "full", Names: []gnameA{{URI: ""}, {URI: d1}}}}},                // non-URI first: the URI after it is ignored
		{Kind: "points", Points: []dpointA{{Kind: "full", Names: []gnameA{{URI: d1}, {URI: ""}, {URI: d2}}}}},     // URI, non-URI, URI
		{Kind: "points", Points: []dpointA{{Kind: "full", Names: uris(d1)}, {Kind: "relative"}}},
		{Kind: "points", Points: []dpointA{{Kind: "malformed"}}},
		{Kind: "points", Points: []dpointA{{Kind: "full", Names: uris(d1)}, {Kind: "malformed"}}},
		{Kind: "points", Points: []dpointA{{Kind: "reasons-only"}}},
		{Kind: "points", Points: []dpointA{{Kind: "full", Names: []gnameA{{URI: ""}}}, {Kind: "full", Names: uris(d1)}}},            // a point with a non-URI name only, then a point with a URI
		{Kind: "points", Points: []dpointA{{Kind: "full", Names: []gnameA{{URI: d3}, {URI: ""}}}, {Kind: "full", Names: uris(d2)}}}, // a URI and a non-URI name, then another point
		{Kind: "points", Points: []dpointA{{Kind: "malformed-not-a-sequence"}}},
		{Kind: "points", Points: []dpointA{{Kind: "full", Names: uris(d1)}, {Kind: "malformed-name-truncated"}}},
		{Kind: "points", Points: []dpointA{{Kind: "malformed-uri-truncated"}, {Kind: "full", Names: uris(d1)}}},
		{Kind: "points", Points: []dpointA{{Kind: "full", Names: uris(d1)}, {Kind: "malformed-uri-truncated"}}},
		{Kind: "points", Points: []dpointA{{Kind: "full", Names: []gnameA{{Truncated: true}}}}},                      // malformed non-URI name: reading stops there
		{Kind: "points", Points: []dpointA{{Kind: "full", Names: []gnameA{{URI: d1}, {Truncated: true}}}}},           // URI, then a malformed non-URI name
		{Kind: "points", Points: []dpointA{{Kind: "full", Names: uris(ldap)}}},                                       // only a non-http location: an advertised delta that cannot be obtained
		{Kind: "points", Points: []dpointA{{Kind: "full", Names: uris(d1s)}}},                                        // https only (the transport would answer it)
		{Kind: "points", Points: []dpointA{{Kind: "full", Names: uris(ldap, d1s)}, {Kind: "full", Names: uris(d2)}}}, // non-http locations first, then http
		{Kind: "points", Points: []dpointA{{Kind: "full", Names: uris(d1, d1s)}}},
		{Kind: "points", Points: nil},
		{Kind: "badouter"},
	}
	w.Extra["freshest_shapes"] = len(shapes)
	delta := func(id int64, next string) fcrlA { return fcrlA{ID: id, Next: next, Fresh: fshapeA{Kind: "none"}} }
	// (1) every shape x which delta locations answer x cache config
	for si, sh := range shapes {
		for mask := 0; mask < 8; mask++ {
			if tier != "thorough" && mask != 0 && mask != 7 && (si+mask)%3 != 0 {
				continue
			}
			srv := map[string]fcrlA{base: {ID: 10, Next: "+1h", Fresh: sh}}
			if mask&1 != 0 {
				srv[d1] = delta(11, "+1h")
				srv[d1s] = delta(14, "+1h") // published under https too: must never be requested
				srv[ldap] = delta(15, "+1h")
			}
			if mask&2 != 0 {
				srv[d2] = delta(12, "+1h")
			}
			if mask&4 != 0 {
				srv[d3] = delta(13, "+1h")
			}
			for _, cfg := range [][2]bool{{false, false}, {true, false}} {
				runC18(w, cfg[0], cfg[1], srv, []c18op{{Kind: "fetch", URL: base}, {Kind: "fetch", URL: base}}, []string{"shape-grid"})
			}
		}
	}
	// (2) histories over the operation alphabet
	// (1a) valid CRL bodies delivered with a status other than 200: the base (an error), the first delta location (the next one is tried)
	for _, st := range []int{500, 404, 201, 203} {
		for _, cfg := range [][2]bool{{false, false}, {true, false}} {
			srv := map[string]fcrlA{base: {ID: 10, Next: "+1h", Fresh: shapes[0], Status: st}}
			runC18(w, cfg[0], cfg[1], srv, []c18op{{Kind: "fetch", URL: base}, {Kind: "publish", URL: base, CRL: fcrlA{ID: 10, Next: "+1h", Fresh: shapes[0]}}, {Kind: "fetch", URL: base}}, []string{"status-not-200"})
			srv = map[string]fcrlA{base: {ID: 10, Next: "+1h", Fresh: shapes[2]}, d1: {ID: 11, Next: "+1h", Fresh: fshapeA{Kind: "none"}, Status: st}, d2: delta(12, "+1h")}
			runC18(w, cfg[0], cfg[1], srv, []c18op{{Kind: "fetch", URL: base}, {Kind: "fetch", URL: base}}, []string{"status-not-200"})
			srv = map[string]fcrlA{base: {ID: 10, Next: "+1h", Fresh: shapes[1]}, d1: {ID: 11, Next: "+1h", Fresh: fshapeA{Kind: "none"}, Status: st}}
			runC18(w, cfg[0], cfg[1], srv, []c18op{{Kind: "fetch", URL: base}, {Kind: "publish", URL: d1, CRL: fcrlA{ID: 11, Next: "+1h", Fresh: fshapeA{Kind: "none"}, Status: st}}, {Kind: "fetch", URL: base}}, []string{"status-not-200"})
		}
	}
	// (1b) the fetched URL itself is not plain http although the transport would answer it; with and without a cached entry
	for _, cfg := range [][2]bool{{false, false}, {true, false}, {true, true}} {
		for _, bu := range []string{"https://crl.test/f/base.crl", "ldap://dir.test/cn=base", "ftp://crl.test/f/base.crl"} {
			srv := map[string]fcrlA{bu: {ID: 10, Next: "+1h", Fresh: shapes[0]}, base: {ID: 10, Next: "+1h", Fresh: shapes[0]}}
			runC18(w, cfg[0], cfg[1], srv, []c18op{{Kind: "fetch", URL: bu}, {Kind: "fetch", URL: base}, {Kind: "fetch", URL: bu}}, []string{"non-http-base"})
			exp := fcrlA{ID: 5, Next: "-1h", Fresh: shapes[0]}
			runC18(w, cfg[0], cfg[1], srv, []c18op{{Kind: "cacheput", URL: bu, Bundle: fbundleA{Base: exp}}, {Kind: "fetch", URL: bu}}, []string{"non-http-base"})
		}
	}
	b10 := fcrlA{ID: 10, Next: "+1h", Fresh: shapes[1]}
	b20 := fcrlA{ID: 20, Next: "+1h", Fresh: shapes[0]}
	b30 := fcrlA{ID: 30, Next: "+1h", Fresh: shapes[2]}
	dl11, dl12 := delta(11, "+1h"), delta(12, "+1h")
	expB := fcrlA{ID: 5, Next: "-1h", Fresh: shapes[1]}
	expD := delta(6, "-1h")
	noNext := fcrlA{ID: 7, Next: "absent", Fresh: shapes[0]}
	freshB := fcrlA{ID: 8, Next: "+1h", Fresh: shapes[1]}
	freshD := delta(9, "+1h")
	alphabet := []c18op{
		{Kind: "fetch", URL: base},
		{Kind: "publish", URL: base, CRL: b20},
		{Kind: "publish", URL: base, CRL: b30},
		{Kind: "publish", URL: d1, CRL: dl12},
		{Kind: "unpublish", URL: base},
		{Kind: "unpublish", URL: d1},
		{Kind: "cacheput", URL: base, Bundle: fbundleA{Base: freshB, Delta: &freshD}},                      // fresh
		{Kind: "cacheput", URL: base, Bundle: fbundleA{Base: expB, Delta: &expD}},                          // expired
		{Kind: "cacheput", URL: base, Bundle: fbundleA{Base: expB, Delta: &freshD}},                        // half expired: base
		{Kind: "cacheput", URL: base, Bundle: fbundleA{Base: freshB, Delta: &expD}},                        // half expired: delta
		{Kind: "cacheput", URL: base, Bundle: fbundleA{Base: noNext}},                                      // no next-update
		{Kind: "cacheput", URL: base, Bundle: fbundleA{Base: fcrlA{ID: 4, Next: "+1h", Fresh: shapes[0]}}}, // fresh, no delta
		{Kind: "faults", Get: true},
		{Kind: "faults", Set: true},
		{Kind: "faults"},
	}
	w.Extra["alphabet"] = len(alphabet)
	maxLen := 3
	if tier == "thorough" {
		maxLen = 4
	}
	w.Extra["max_history_len"] = maxLen
	initial := map[string]fcrlA{base: b10, d1: dl11}
	cfgs := [][2]bool{{true, false}, {true, true}, {false, false}}
	for n := 1; n <= maxLen; n++ {
		for _, h := range seqs(alphabet, n-1) {
			// every history ends with a fetch (the observation); intermediate fetches are part of the alphabet
			ops := append(append([]c18op{}, h...), c18op{Kind: "fetch", URL: base})
			for ci, cfg := range cfgs {
				if ci == 2 && n > 2 {
					continue
				}
				runC18(w, cfg[0], cfg[1], initial, ops, []string{"history"})
			}
		}
	}
	_ = rng
}

// the CA of the envelope fixture chain as a *Cert with its key
func envFixtureGetCA() *Cert {
	b := basePlan(2, "cs", "ec256b").build()
	return b.certs[1]
}
