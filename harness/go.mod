module ncgharness

go 1.23.0

require (
	github.com/fxamacker/cbor/v2 v2.8.0
	github.com/golang-jwt/jwt/v4 v4.5.2
	github.com/notaryproject/notation-core-go v0.0.0
	github.com/notaryproject/tspclient-go v1.0.0
	github.com/veraison/go-cose v1.3.0
	golang.org/x/crypto v0.37.0
)

require github.com/x448/float16 v0.8.4 // indirect

replace github.com/notaryproject/notation-core-go => /repo
