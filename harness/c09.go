package main

import (
	"bytes"
	"context"
	"crypto/x509"
	"encoding/json"
	"encoding/pem"
	"errors"
	"fmt"
	"go/ast"
	"go/importer"
	"go/parser"
	"go/printer"
	"go/token"
	"go/types"
	"io"
	"net/http"
	"os"
	"path/filepath"
	"sort"
	"strings"
	"sync/atomic"
	"time"

	"github.com/notaryproject/notation-core-go/revocation"
	crlpkg "github.com/notaryproject/notation-core-go/revocation/crl"
	revocsp "github.com/notaryproject/notation-core-go/revocation/ocsp"
	"github.com/notaryproject/notation-core-go/revocation/purpose"
	nx509 "github.com/notaryproject/notation-core-go/x509"
)

func init() { register("C09", "Run.C09", genC09) }

// ---------- inventory of syntactic partial operations in the non-test sources ----------
// index / slice expressions, single-value type assertions, explicit pointer dereferences, calls of panic,
// keyed by package/function/kind/expression (not by line, so that moving code does not change the key).

func repoRoot() string {
	if r := os.Getenv("VERIF_REPO"); r != "" {
		return r
	}
	return "/repo"
}

// mapReads type-checks every non-test package under root from source (go/types, source importer; no
// export data needed) and returns the positions of index expressions that READ a map: such an
// expression cannot panic (a nil map reads as empty), unlike slice/array/string indexing and map writes.
// Expressions whose type cannot be established stay in the inventory.
func mapReads(root string) map[string]bool {
	res := map[string]bool{}
	fset := token.NewFileSet()
	dirs := map[string][]*ast.File{}
	filepath.Walk(root, func(path string, info os.FileInfo, err error) error {
		if err != nil {
			return nil
		}
		if info.IsDir() {
			if strings.HasPrefix(info.Name(), ".") && path != root {
				return filepath.SkipDir
			}
			return nil
		}
		if !strings.HasSuffix(path, ".go") || strings.HasSuffix(path, "_test.go") {
			return nil
		}
		if f, err := parser.ParseFile(fset, path, nil, 0); err == nil {
			dirs[filepath.Dir(path)] = append(dirs[filepath.Dir(path)], f)
		}
		return nil
	})
	if wd, err := os.Getwd(); err == nil {
		defer os.Chdir(wd)
	}
	os.Chdir(root)
	imp := importer.ForCompiler(fset, "source", nil)
	for d, files := range dirs {
		info := &types.Info{Types: map[ast.Expr]types.TypeAndValue{}}
		conf := types.Config{Importer: imp, Error: func(error) {}}
		conf.Check(d, fset, files, info)
		for _, f := range files {
			written := map[ast.Expr]bool{}
			ast.Inspect(f, func(n ast.Node) bool {
				switch s := n.(type) {
				case *ast.AssignStmt:
					for _, l := range s.Lhs {
						written[l] = true
					}
				case *ast.IncDecStmt:
					written[s.X] = true
				}
				return true
			})
			ast.Inspect(f, func(n ast.Node) bool {
				if ie, ok := n.(*ast.IndexExpr); ok && !written[ie] {
					if tv, ok := info.Types[ie.X]; ok && tv.Type != nil {
						if _, ok := tv.Type.Underlying().(*types.Map); ok {
							pos := fset.Position(ie.Pos())
							res[fmt.Sprintf("%s:%d:%d", pos.Filename, pos.Line, pos.Column)] = true
						}
					}
				}
				return true
			})
		}
	}
	return res
}

func siteInventory() ([]string, error) {
	root := repoRoot()
	var keys []string
	fset := token.NewFileSet()
	safeIndex := mapReads(root)
	err := filepath.Walk(root, func(path string, info os.FileInfo, err error) error {
		if err != nil {
			return err
		}
		rel, _ := filepath.Rel(root, path)
		if info.IsDir() {
			if strings.HasPrefix(info.Name(), ".") && path != root || rel == "testhelper" || strings.HasSuffix(rel, "signaturetest") {
				return filepath.SkipDir
			}
			return nil
		}
		if !strings.HasSuffix(path, ".go") || strings.HasSuffix(path, "_test.go") {
			return nil
		}
		f, err := parser.ParseFile(fset, path, nil, 0)
		if err != nil {
			return err
		}
		pkg := filepath.Dir(rel)
		// names that denote packages or types here: *pkg.T and *T are types, not dereferences
		typeish := map[string]bool{}
		for _, im := range f.Imports {
			p := strings.Trim(im.Path.Value, "\"")
			name := p[strings.LastIndex(p, "/")+1:]
			if i := strings.Index(name, "."); i >= 0 && strings.HasPrefix(name, "go-") {
				name = name[:i]
			}
			if im.Name != nil {
				name = im.Name.Name
			}
			typeish[name] = true
			typeish[strings.TrimPrefix(name, "go-")] = true
		}
		if sibs, err := filepath.Glob(filepath.Join(filepath.Dir(path), "*.go")); err == nil {
			for _, sp := range sibs {
				if sf, err := parser.ParseFile(token.NewFileSet(), sp, nil, 0); err == nil {
					for _, d := range sf.Decls {
						if gd, ok := d.(*ast.GenDecl); ok {
							for _, spec := range gd.Specs {
								if ts, ok := spec.(*ast.TypeSpec); ok {
									typeish[ts.Name.Name] = true
								}
							}
						}
					}
				}
			}
		}
		isType := func(e ast.Expr) bool {
			switch x := e.(type) {
			case *ast.Ident:
				return typeish[x.Name] || x.Name == "int" || x.Name == "string" || x.Name == "byte" || x.Name == "bool"
			case *ast.SelectorExpr:
				if id, ok := x.X.(*ast.Ident); ok {
					return typeish[id.Name]
				}
			case *ast.ArrayType, *ast.MapType, *ast.StarExpr, *ast.InterfaceType, *ast.StructType, *ast.FuncType:
				return true
			}
			return false
		}
		for _, d := range f.Decls {
			fd, ok := d.(*ast.FuncDecl)
			if !ok || fd.Body == nil {
				continue
			}
			fn := fd.Name.Name
			if fd.Recv != nil && len(fd.Recv.List) > 0 {
				fn = exprText(fset, fd.Recv.List[0].Type) + "." + fn
			}
			inTypeSwitch := map[ast.Node]bool{}
			ast.Inspect(fd.Body, func(n ast.Node) bool {
				if ts, ok := n.(*ast.TypeSwitchStmt); ok {
					ast.Inspect(ts.Assign, func(m ast.Node) bool {
						if ta, ok := m.(*ast.TypeAssertExpr); ok {
							inTypeSwitch[ta] = true
						}
						return true
					})
				}
				return true
			})
			commaOK := map[ast.Node]bool{}
			ast.Inspect(fd.Body, func(n ast.Node) bool {
				switch s := n.(type) {
				case *ast.AssignStmt:
					if len(s.Lhs) == 2 && len(s.Rhs) == 1 {
						commaOK[s.Rhs[0]] = true
					}
				case *ast.ValueSpec:
					if len(s.Names) == 2 && len(s.Values) == 1 {
						commaOK[s.Values[0]] = true
					}
				case *ast.IfStmt:
					if as, ok := s.Init.(*ast.AssignStmt); ok && len(as.Lhs) == 2 && len(as.Rhs) == 1 {
						commaOK[as.Rhs[0]] = true
					}
				}
				return true
			})
			ast.Inspect(fd.Body, func(n ast.Node) bool {
				switch e := n.(type) {
				case *ast.IndexExpr:
					pos := fset.Position(e.Pos())
					if !commaOK[e] && !safeIndex[fmt.Sprintf("%s:%d:%d", pos.Filename, pos.Line, pos.Column)] {
						keys = append(keys, fmt.Sprintf("%s|index|%s", pkg, exprText(fset, e)))
					}
				case *ast.SliceExpr:
					keys = append(keys, fmt.Sprintf("%s|slice|%s", pkg, exprText(fset, e)))
				case *ast.TypeAssertExpr:
					if !commaOK[e] && !inTypeSwitch[e] && e.Type != nil {
						keys = append(keys, fmt.Sprintf("%s|assert|%s", pkg, exprText(fset, e)))
					}
				case *ast.StarExpr:
					if isType(e.X) {
						return true
					}
					keys = append(keys, fmt.Sprintf("%s|deref|%s", pkg, exprText(fset, e)))
				case *ast.CallExpr:
					if id, ok := e.Fun.(*ast.Ident); ok && id.Name == "panic" {
						keys = append(keys, fmt.Sprintf("%s|panic|%s", pkg, exprText(fset, e)))
					}
				}
				return true
			})
		}
		return nil
	})
	sort.Strings(keys)
	return keys, err
}

// oddCache: a crl.Cache that misbehaves in one way
type oddCache struct{ mode string }

func (c oddCache) Get(ctx context.Context, url string) (*crlpkg.Bundle, error) {
	switch c.mode {
	case "getfail":
		return nil, errors.New("cache get failed (injected)")
	case "getfail-wrapped-miss":
		return nil, fmt.Errorf("no entry: %w", crlpkg.ErrCacheMiss)
	case "get-nil-nil":
		return nil, nil
	case "get-bundle-without-base":
		return &crlpkg.Bundle{}, nil
	}
	return nil, crlpkg.ErrCacheMiss
}
func (c oddCache) Set(ctx context.Context, url string, b *crlpkg.Bundle) error {
	if c.mode == "setfail" {
		return errors.New("cache set failed (injected)")
	}
	return nil
}

// zeroBody: left zero bytes, generated on demand; n counts what was read
type zeroBody struct {
	left int64
	n    *int64
}

func (z *zeroBody) Read(p []byte) (int, error) {
	if z.left <= 0 {
		return 0, io.EOF
	}
	k := int64(len(p))
	if k > z.left {
		k = z.left
	}
	for i := int64(0); i < k; i++ {
		p[i] = 0
	}
	z.left -= k
	atomic.AddInt64(z.n, k)
	return int(k), nil
}

func exprText(fset *token.FileSet, n ast.Node) string {
	var b bytes.Buffer
	printer.Fprint(&b, fset, n)
	return strings.Join(strings.Fields(b.String()), " ")
}

// ---------- the call stream ----------
type c09call struct {
	kind  int
	label string
	run   func()
}

// guarded runs f under recover and a watchdog; 0 returned, 1 panicked, 2 hung
func guarded(f func(), limit time.Duration) (int, string) {
	done := make(chan string, 1)
	go func() {
		defer func() {
			if r := recover(); r != nil {
				done <- fmt.Sprint("panic: ", r)
			}
		}()
		f()
		done <- ""
	}()
	select {
	case m := <-done:
		if m != "" {
			return 1, m
		}
		return 0, ""
	case <-time.After(limit):
		return 2, "no return within " + limit.String()
	}
}

func mutateBytes(rng *RNG, b []byte) []byte {
	if len(b) == 0 {
		return []byte{byte(rng.Intn(256))}
	}
	m := append([]byte{}, b...)
	switch rng.Intn(7) {
	case 0:
		m[rng.Intn(len(m))] ^= 1 << uint(rng.Intn(8))
	case 1:
		return m[:rng.Intn(len(m))]
	case 2:
		i := rng.Intn(len(m))
		m[i] = byte(rng.Intn(256))
	case 3:
		i, j := rng.Intn(len(m)), rng.Intn(len(m))
		if i > j {
			i, j = j, i
		}
		return append(m[:i], m[j:]...)
	case 4:
		i := rng.Intn(len(m))
		return append(append(append([]byte{}, m[:i]...), m[i:]...), m[i:]...)
	case 5:
		for k := 0; k < 4; k++ {
			m[rng.Intn(len(m))] ^= byte(1 << uint(rng.Intn(8)))
		}
	case 6:
		i := rng.Intn(len(m))
		m[i] = []byte{0x00, 0xff, 0x7f, 0x80, '{', '"', 0xa0, 0x9f, 0xbf}[rng.Intn(9)]
	}
	return m
}

type stallRT struct {
	answer func(*http.Request) (*http.Response, error)
}

func (s stallRT) RoundTrip(req *http.Request) (*http.Response, error) {
	if s.answer != nil {
		if r, err := s.answer(req); r != nil || err != nil {
			return r, err
		}
	}
	<-req.Context().Done() // a server that accepts the request and never answers
	return nil, req.Context().Err()
}

func genC09(tier string, rng *RNG, w *CaseWriter) {
	w.ShardSize = 2000
	n := 0
	emit := func(kind int, label string, f func(), limit time.Duration) {
		noteCurrentCase(map[string]any{"labels": []string{label}})
		out, msg := guarded(f, limit)
		if out == 2 { // retry once in isolation before calling it a hang
			out, msg = guarded(f, 2*limit)
		}
		n++
		w.Count("kind:" + label)
		desc := map[string]any{"kind": label, "outcome": []string{"returned", "panicked", "hung"}[out], "detail": msg}
		// each call is its own case (the running number keeps the terms distinct)
		w.Emit(fmt.Sprintf("(mk @ID@ %d %d)", 1000000*kind+n, out), desc, desc["outcome"].(string), true)
	}
	escalate := false
	budget := func(q, t int) int {
		if tier == "thorough" || escalate {
			return t
		}
		return q
	}
	// (0) the site inventory
	keys, err := siteInventory()
	if err != nil {
		w.Notes = append(w.Notes, "site inventory failed: "+err.Error())
	} else {
		want := map[string]int{}
		if b, err := os.ReadFile(filepath.Join(filepath.Dir(keyDir), "..", "panic_sites.json")); err == nil {
			var l []string
			json.Unmarshal(b, &l)
			for _, k := range l {
				want[k]++
			}
		}
		got := map[string]int{}
		for _, k := range keys {
			got[k]++
		}
		var added []string
		for k, c := range got {
			if c > want[k] {
				added = append(added, k)
			}
		}
		sort.Strings(added)
		w.Extra["partial_operation_sites"] = len(keys)
		w.Extra["sites_not_in_reviewed_inventory"] = added
		// advisory: new partial-operation sites do not fail the check (a loop-bounded index or a map
		// lookup in a refactoring is harmless); they widen the search instead: the call stream below runs
		// with the thorough budget so that a new site that can panic is more likely to be hit.
		if len(added) > 0 && len(want) > 0 {
			escalate = true
			w.Notes = append(w.Notes, fmt.Sprintf("NOTE property=C09 %d partial-operation site(s) not in the reviewed inventory (advisory; stream budget raised): %s", len(added), strings.Join(added, " ; ")))
		}
		w.Emit("(mk @ID@ 0 0)", map[string]any{"kind": "site-inventory", "sites": len(keys), "new_sites": added}, "site-inventory", true)
		os.WriteFile(filepath.Join(w.OutDir, "panic_sites_current.json"), mustJSON(keys), 0o644)
	}
	// (1) any bytes as envelopes of both media types: structured deviations and mutations of valid envelopes
	devs := deviations()
	for fi := 0; fi < 2; fi++ {
		for _, sc := range []string{"notary.x509", "notary.x509.signingAuthority"} {
			for _, d := range devs {
				p := basePlanEnv(fi, sc, true)
				if !applyDev(p, d) {
					continue
				}
				b, mt, err := p.encode()
				if err != nil {
					continue
				}
				emit(1, "envelope-deviation", func() {
					o := runEnvelope(mt, b)
					if o.Panicked {
						panic(o.PanicMsg)
					}
				}, 10*time.Second)
			}
		}
		base := buildEnv(fi, "ec256b", 2, `{"subject":"c09"}`, "notary.x509")
		for k := 0; k < budget(1500, 30000); k++ {
			m := mutateBytes(rng, base.bytes)
			if k%3 == 0 {
				m = mutateBytes(rng, m)
			}
			emit(1, "envelope-mutation", func() {
				o := runEnvelope(base.mt, m)
				if o.Panicked {
					panic(o.PanicMsg)
				}
				// the other media type's parser on the same bytes
				o2 := runEnvelope(mediaTypes[1-fi], m)
				if o2.Panicked {
					panic(o2.PanicMsg)
				}
			}, 10*time.Second)
		}
	}
	// (2) any file as certificates or a private key
	tmp := filepath.Join(w.OutDir, "files")
	os.MkdirAll(tmp, 0o755)
	chain := basePlan(3, "cs", "ec256b").build()
	var pemChain, derChain []byte
	for _, c := range chain.xs {
		pemChain = append(pemChain, pem.EncodeToMemory(&pem.Block{Type: "CERTIFICATE", Bytes: c.Raw})...)
		derChain = append(derChain, c.Raw...)
	}
	keyDER, _ := x509.MarshalPKCS8PrivateKey(Key("ec256b"))
	keyPEM := pem.EncodeToMemory(&pem.Block{Type: "PRIVATE KEY", Bytes: keyDER})
	for k := 0; k < budget(600, 10000); k++ {
		src := [][]byte{pemChain, derChain, keyPEM, []byte("-----BEGIN CERTIFICATE-----\nAAAA\n-----END CERTIFICATE-----\n"), {}}[k%5]
		m := src
		if k >= 5 {
			m = mutateBytes(rng, src)
		}
		path := filepath.Join(tmp, fmt.Sprintf("f%d", k%50))
		os.WriteFile(path, m, 0o644)
		emit(2, "cert-and-key-files", func() {
			nx509.ReadCertificateFile(path)
			nx509.ReadPrivateKeyFile(path)
			nx509.ParsePrivateKeyPEM(m)
		}, 10*time.Second)
	}
	// (3) validating any chain of parsed certificates: mutated DER that still parses
	parsed := 0
	for k := 0; k < budget(4000, 60000) && parsed < budget(300, 5000); k++ {
		which := rng.Intn(len(chain.xs))
		m := mutateBytes(rng, chain.xs[which].Raw)
		x, err := x509.ParseCertificate(m)
		if err != nil {
			continue
		}
		parsed++
		cs := append([]*x509.Certificate{}, chain.xs...)
		cs[which] = x
		st := baseTime
		emit(3, "chain-validation-mutated-cert", func() {
			nx509.ValidateCodeSigningCertChain(cs, &st)
			nx509.ValidateCodeSigningCertChain(cs, nil)
			nx509.ValidateTimestampingCertChain(cs)
			nx509.ValidateCodeSigningCertChain([]*x509.Certificate{x}, nil)
			nx509.ValidateTimestampingCertChain([]*x509.Certificate{x})
			nx509.ValidateCodeSigningCertChain(nil, nil)
		}, 10*time.Second)
	}
	// (4) revocation with odd URL strings, and server bodies mutated from valid OCSP responses and CRLs
	oddURLs := []string{"", " ", "http://a b\x7f/", "http://", "ldap://x/y", "https://ocsp.test/x", "HTTP://OCSP.TEST/UP", "http://%zz", "\x00", "http://[::1", "mailto:a@b", "http://ocsp.test/" + strings.Repeat("a", 3000), "//no-scheme", "http:/one-slash"}
	for _, u := range oddURLs {
		for _, asCRL := range []bool{false, true} {
			p := basePlan(2, "cs", "ec256b")
			if asCRL {
				p.certs[0].spec.CRL = []string{u, "http://crl.test/ok.crl"}
			} else {
				p.certs[0].spec.OCSP = []string{u, "http://ocsp.test/ok"}
			}
			xs := p.build().xs
			rt := newWorldRT()
			client := &http.Client{Transport: rt, Timeout: 3 * time.Second}
			emit(4, "odd-url", func() {
				hf, _ := crlpkg.NewHTTPFetcher(client)
				v, err := revocation.NewWithOptions(revocation.Options{OCSPHTTPClient: client, CRLFetcher: hf, CertChainPurpose: purpose.CodeSigning})
				if err != nil {
					panic(err)
				}
				v.ValidateContext(context.Background(), revocation.ValidateContextOptions{CertChain: xs})
				revocsp.CheckStatus(revocsp.Options{CertChain: xs, CertChainPurpose: purpose.CodeSigning, HTTPClient: client})
			}, 15*time.Second)
		}
	}
	rchain := buildRevChain("cs", []certSlots{{OCSP: []string{"ok"}, NCRL: 1}}, nil, nil)
	rxs := rchain.xs()
	goodOCSP, _ := forgeOCSP(respB("issuer", 0, "+1h", "none"), rchain.certs[0], rchain.certs[1])
	revokedOCSP, _ := forgeOCSP(respB("issuer", 1, "+1h", "after"), rchain.certs[0], rchain.certs[1])
	goodCRL := buildCRL(crlSpec{Number: 5, Next: "+1h", Signer: "issuer", Entries: hold(), Freshest: rxs[0].CRLDistributionPoints[0] + ".delta"}, rchain.certs[1], rxs[0].SerialNumber)
	deltaCRL := buildCRL(crlSpec{Number: 6, Next: "+1h", Signer: "issuer", Indicator: "5", Entries: kc()}, rchain.certs[1], rxs[0].SerialNumber)
	deltaNoNumber := buildCRL(crlSpec{Number: -1, Next: "+1h", Signer: "issuer", Indicator: "5"}, rchain.certs[1], rxs[0].SerialNumber)
	for k := 0; k < budget(1200, 20000); k++ {
		ob := [][]byte{goodOCSP, revokedOCSP}[k%2]
		cb, db := goodCRL, deltaCRL
		switch k % 4 {
		case 0:
			ob = mutateBytes(rng, ob)
		case 1:
			cb = mutateBytes(rng, cb)
			ob = []byte("garbage") // force the CRL fallback
		case 2:
			db = mutateBytes(rng, db)
			ob = nil
		case 3:
			db = deltaNoNumber
			ob = mutateBytes(rng, ob)
		}
		rt := newWorldRT()
		rt.handlers[rxs[0].OCSPServer[0]] = func(*http.Request) (*http.Response, error) { return httpBody(200, ob) }
		rt.handlers[rxs[0].CRLDistributionPoints[0]] = func(*http.Request) (*http.Response, error) { return httpBody(200, cb) }
		rt.handlers[rxs[0].CRLDistributionPoints[0]+".delta"] = func(*http.Request) (*http.Response, error) { return httpBody(200, db) }
		client := &http.Client{Transport: rt, Timeout: 3 * time.Second}
		emit(5, "server-body-mutation", func() {
			hf, _ := crlpkg.NewHTTPFetcher(client)
			v, _ := revocation.NewWithOptions(revocation.Options{OCSPHTTPClient: client, CRLFetcher: hf, CertChainPurpose: purpose.CodeSigning})
			v.ValidateContext(context.Background(), revocation.ValidateContextOptions{CertChain: rxs, AuthenticSigningTime: stRef})
			revocsp.CheckStatus(revocsp.Options{CertChain: rxs, CertChainPurpose: purpose.CodeSigning, HTTPClient: client, SigningTime: stRef})
		}, 15*time.Second)
	}
	// (4a) base CRLs whose freshest-CRL extension is malformed at every depth (the fetcher walks it before any signature check)
	for _, ext := range [][]byte{
		{0x30, 0x09, 0x30, 0x07, 0xA0, 0x05, 0xA0, 0x03, 0x82, 0x05, 0x61},                       // truncated dNSName inside fullName
		{0x30, 0x0d, 0x30, 0x0b, 0xA0, 0x09, 0xA0, 0x07, 0x86, 0x02, 'h', 't', 0x82, 0x05, 0x61}, // URI then truncated name
		{0x30, 0x05, 0x30, 0x03, 0xA0, 0x01, 0xA0},                                               // truncated fullName
		{0x30, 0x02, 0x30, 0x05}, // truncated distribution point
		{0x30, 0x80},             // indefinite length
		{0x04, 0x00}, {}, {0x30, 0x06, 0x30, 0x04, 0xA0, 0x02, 0xA1, 0x00},
	} {
		ext := ext
		crlDER := buildCRL(crlSpec{Number: 9, Next: "+1h", Signer: "issuer", FreshestRaw: ext}, rchain.certs[1], rxs[0].SerialNumber)
		rt := newWorldRT()
		rt.handlers[rxs[0].OCSPServer[0]] = func(*http.Request) (*http.Response, error) { return httpBody(500, nil) }
		rt.handlers[rxs[0].CRLDistributionPoints[0]] = func(*http.Request) (*http.Response, error) { return httpBody(200, crlDER) }
		client := &http.Client{Transport: rt, Timeout: 3 * time.Second}
		emit(5, "malformed-freshest-crl-extension", func() {
			hf, _ := crlpkg.NewHTTPFetcher(client)
			ctx, cancel := context.WithTimeout(context.Background(), 2*time.Second)
			defer cancel()
			hf.Fetch(ctx, rxs[0].CRLDistributionPoints[0])
			v, _ := revocation.NewWithOptions(revocation.Options{OCSPHTTPClient: client, CRLFetcher: hf, CertChainPurpose: purpose.CodeSigning})
			v.ValidateContext(ctx, revocation.ValidateContextOptions{CertChain: rxs})
		}, 8*time.Second)
	}
	// (4a') size caps: a server that declares no length and keeps sending; the amount read from it must stay
	// within the documented cap (20 KiB for OCSP responses, 32 MiB for CRLs) whatever the result is
	for _, sc := range []struct {
		name  string
		ocsp  bool
		total int64
		cap   int64
	}{{"ocsp-endless-body", true, 8 << 20, 20 * 1024}, {"crl-endless-body", false, 48 << 20, 32 << 20}} {
		sc := sc
		var read int64
		body := func(*http.Request) (*http.Response, error) {
			return &http.Response{StatusCode: 200, ContentLength: -1, Header: http.Header{}, Body: io.NopCloser(&zeroBody{left: sc.total, n: &read})}, nil
		}
		rt := newWorldRT()
		if sc.ocsp {
			rt.handlers[rxs[0].OCSPServer[0]] = body
			rt.handlers[rxs[0].CRLDistributionPoints[0]] = func(*http.Request) (*http.Response, error) { return httpBody(500, nil) }
		} else {
			rt.handlers[rxs[0].OCSPServer[0]] = func(*http.Request) (*http.Response, error) { return httpBody(500, nil) }
			rt.handlers[rxs[0].CRLDistributionPoints[0]] = body
		}
		client := &http.Client{Transport: rt, Timeout: 20 * time.Second}
		noteCurrentCase(map[string]any{"labels": []string{sc.name}})
		out, msg := guarded(func() {
			hf, _ := crlpkg.NewHTTPFetcher(client)
			v, _ := revocation.NewWithOptions(revocation.Options{OCSPHTTPClient: client, CRLFetcher: hf, CertChainPurpose: purpose.CodeSigning})
			v.ValidateContext(context.Background(), revocation.ValidateContextOptions{CertChain: rxs})
		}, 30*time.Second)
		if got := atomic.LoadInt64(&read); out == 0 && got > sc.cap+64*1024 {
			out, msg = 4, fmt.Sprintf("read %d bytes of a server body, the cap is %d", got, sc.cap)
		}
		n++
		w.Count("kind:" + sc.name)
		w.Emit(fmt.Sprintf("(mk @ID@ %d %d)", 1000000*7+n, out), map[string]any{"kind": sc.name, "outcome": []string{"returned", "panicked", "hung", "", "read beyond the size cap"}[out], "detail": msg}, "size-cap", true)
	}
	// (4a'') cache faults crossed with the discard option: a cache whose Get / Set fail (bare, wrapped, with a nil bundle) must
	// never make Fetch or the validator panic, whatever DiscardCacheError says (a cache returning (nil, nil) or a bundle
	// without a base CRL breaks the documented contract of crl.Cache; that is caller code, not an input of the property)
	for _, discard := range []bool{true, false} {
		for _, mode := range []string{"getfail", "setfail", "getfail-wrapped-miss"} { // caches that honour the interface contract: a bundle, a miss, or an error
			discard, mode := discard, mode
			crlDER := buildCRL(crlSpec{Number: 9, Next: "+1h", Signer: "issuer"}, rchain.certs[1], rxs[0].SerialNumber)
			rt := newWorldRT()
			rt.handlers[rxs[0].OCSPServer[0]] = func(*http.Request) (*http.Response, error) { return httpBody(500, nil) }
			rt.handlers[rxs[0].CRLDistributionPoints[0]] = func(*http.Request) (*http.Response, error) { return httpBody(200, crlDER) }
			client := &http.Client{Transport: rt, Timeout: 3 * time.Second}
			emit(5, "cache-fault-x-discard", func() {
				hf, _ := crlpkg.NewHTTPFetcher(client)
				hf.Cache = oddCache{mode}
				hf.DiscardCacheError = discard
				hf.Fetch(context.Background(), rxs[0].CRLDistributionPoints[0])
				v, _ := revocation.NewWithOptions(revocation.Options{OCSPHTTPClient: client, CRLFetcher: hf, CertChainPurpose: purpose.CodeSigning})
				v.ValidateContext(context.Background(), revocation.ValidateContextOptions{CertChain: rxs})
			}, 8*time.Second)
		}
	}
	// (4b) a panic raised inside a background per-certificate check (here: by the caller-supplied transport or fetcher)
	// must reach the caller's goroutine, where it is recoverable: it must never kill the process
	for _, entry := range []int{0, 1} {
		for _, n := range []int{2, 3, 4} {
			plans := make([]srcPlan, n-1)
			for i := range plans {
				plans[i] = srcPlan{O: []ocspBehav{oGood}}
			}
			rc := buildPlanCase(entry, "cs", plans, time.Time{}, false)
			xs := rc.Chain.xs()
			rt := newWorldRT()
			for i := 0; i < n-1; i++ {
				rt.handlers[xs[i].OCSPServer[0]] = func(*http.Request) (*http.Response, error) { panic("transport panic (injected)") }
			}
			client := &http.Client{Transport: rt, Timeout: 3 * time.Second}
			entry := entry
			emit(7, "background-panic-is-recoverable", func() {
				defer func() { recover() }() // the panic arriving here, on the calling goroutine, is the required behaviour
				if entry == 0 {
					v, _ := revocation.NewWithOptions(revocation.Options{OCSPHTTPClient: client, CertChainPurpose: purpose.CodeSigning})
					v.ValidateContext(context.Background(), revocation.ValidateContextOptions{CertChain: xs})
				} else {
					revocsp.CheckStatus(revocsp.Options{CertChain: xs, CertChainPurpose: purpose.CodeSigning, HTTPClient: client})
				}
			}, 10*time.Second)
		}
	}
	// (5) never blocks once the context is cancelled: servers that accept a request and never answer
	for _, where := range []string{"ocsp", "crl-base", "crl-delta"} {
		for _, direct := range []bool{false, true} {
			where := where
			answer := func(req *http.Request) (*http.Response, error) {
				u := req.URL.String()
				switch {
				case where == "crl-delta" && u == rxs[0].CRLDistributionPoints[0]:
					return httpBody(200, goodCRL)
				case where != "ocsp" && strings.HasPrefix(u, rxs[0].OCSPServer[0]):
					return httpBody(500, nil)
				}
				if (where == "ocsp" && strings.HasPrefix(u, rxs[0].OCSPServer[0])) || (where == "crl-base" && u == rxs[0].CRLDistributionPoints[0]) || (where == "crl-delta" && strings.HasSuffix(u, ".delta")) {
					return nil, nil // stall
				}
				return httpBody(404, nil)
			}
			client := &http.Client{Transport: stallRT{answer}} // no client timeout: only the context can end the exchange
			emit(6, "cancel-while-server-stalls:"+where, func() {
				ctx, cancel := context.WithCancel(context.Background())
				go func() { time.Sleep(60 * time.Millisecond); cancel() }()
				hf, _ := crlpkg.NewHTTPFetcher(client)
				if direct && where != "ocsp" {
					hf.Fetch(ctx, rxs[0].CRLDistributionPoints[0])
					return
				}
				v, _ := revocation.NewWithOptions(revocation.Options{OCSPHTTPClient: client, CRLFetcher: hf, CertChainPurpose: purpose.CodeSigning})
				v.ValidateContext(ctx, revocation.ValidateContextOptions{CertChain: rxs})
			}, 4*time.Second)
		}
	}
}

func mustJSON(v any) []byte {
	b, _ := json.MarshalIndent(v, "", " ")
	return b
}
