package main

import (
	"flag"
	"fmt"
	"os"
	"strconv"
)

type genFunc func(tier string, rng *RNG, w *CaseWriter)

type propDef struct {
	mod string
	gen genFunc
}

var props = map[string]propDef{}

func register(id, mod string, g genFunc) { props[id] = propDef{mod, g} }

func main() {
	if len(os.Args) < 2 {
		fmt.Fprintln(os.Stderr, "usage: harness <prop|keys> [-tier quick|thorough] [-seed n] [-out dir]")
		os.Exit(2)
	}
	cmd := os.Args[1]
	fs := flag.NewFlagSet(cmd, flag.ExitOnError)
	tier := fs.String("tier", "quick", "quick|thorough")
	seed := fs.Uint64("seed", 1, "seed")
	out := fs.String("out", "", "output directory")
	kd := fs.String("keys", "", "key pool directory")
	fs.Parse(os.Args[2:])
	if *kd != "" {
		keyDir = *kd
	}
	if s := os.Getenv("VERIF_SEED"); s != "" && *seed == 1 {
		if v, err := strconv.ParseUint(s, 10, 64); err == nil {
			*seed = v
		}
	}
	if cmd == "keys" {
		for _, n := range keyNames {
			Key(n)
		}
		fmt.Println("key pool ok:", len(keyNames))
		return
	}
	if cmd == "worker" {
		workerMain(fs.Args())
		return
	}
	p, ok := props[cmd]
	if !ok {
		fmt.Fprintln(os.Stderr, "unknown property", cmd)
		os.Exit(2)
	}
	if *out == "" {
		fmt.Fprintln(os.Stderr, "-out required")
		os.Exit(2)
	}
	os.MkdirAll(*out, 0o755)
	currentCaseDir = *out
	w := NewCaseWriter(cmd, *out, p.mod)
	p.gen(*tier, NewRNG(*seed), w)
	if err := w.Flush(); err != nil {
		fmt.Fprintln(os.Stderr, "flush:", err)
		os.Exit(3)
	}
	fmt.Printf("cases=%d nontrivial=%d\n", w.n, len(w.seenNT))
}
