package main

import (
	"crypto"
	"crypto/x509"
	"encoding/json"
	"fmt"
	"strings"
	"time"

	"github.com/fxamacker/cbor/v2"
	"github.com/notaryproject/notation-core-go/signature/cose"
	"github.com/notaryproject/notation-core-go/signature/jws"
)

func init() {
	register("C07", "Run.C07", func(tier string, rng *RNG, w *CaseWriter) { genEnvelopes("C07", tier, rng, w) })
	register("C13", "Run.C13", func(tier string, rng *RNG, w *CaseWriter) { genEnvelopes("C13", tier, rng, w) })
}

const (
	kScheme = "io.cncf.notary.signingScheme"
	kST     = "io.cncf.notary.signingTime"
	kAST    = "io.cncf.notary.authenticSigningTime"
	kExp    = "io.cncf.notary.expiry"
)

// hplan: an abstract protected-header plan from which both encoders build a really-signed envelope
type hattr struct {
	TextKey string
	IntKey  int64
	IsInt   bool
	Raw     string // JWS: raw JSON value
	Val     any    // COSE value
	Crit    bool
}

type hplan struct {
	Fmt      int // 0 JWS, 1 COSE
	Scheme   string
	Time     time.Time
	Expiry   *time.Time
	Attrs    []hattr
	Payload  []byte
	Cty      string
	Agent    string
	TS       []byte
	LeafKey  string
	Chain    []*x509.Certificate
	SignAlg  string
	DeclAlg  string
	jMut     []func(*jwsSpec)
	cMut     []func(*coseSpec)
	Labels   []string
	Expect   int
	SignWith crypto.Signer
}

func (p *hplan) timeLabel() string {
	if p.Scheme == "notary.x509.signingAuthority" {
		return kAST
	}
	return kST
}

func (p *hplan) critLabels() []string {
	cr := []string{kScheme}
	if p.Scheme == "notary.x509.signingAuthority" {
		cr = append(cr, kAST)
	}
	if p.Expiry != nil {
		cr = append(cr, kExp)
	}
	return cr
}

func rfc(t time.Time) string { return jstr(t.UTC().Format(time.RFC3339)) }

func (p *hplan) buildJWS() *jwsSpec {
	var crit []string
	crit = append(crit, p.critLabels()...)
	for _, a := range p.Attrs {
		if a.Crit {
			crit = append(crit, a.TextKey)
		}
	}
	cb, _ := json.Marshal(crit)
	ms := []jMember{{"alg", jstr(p.DeclAlg)}, {"cty", jstr(p.Cty)}, {"crit", string(cb)}}
	if p.Expiry != nil {
		ms = append(ms, jMember{kExp, rfc(*p.Expiry)})
	}
	ms = append(ms, jMember{kScheme, jstr(p.Scheme)}, jMember{p.timeLabel(), rfc(p.Time)})
	for _, a := range p.Attrs {
		ms = append(ms, jMember{a.TextKey, a.Raw})
	}
	s := &jwsSpec{Protected: ms, Payload: p.Payload, Agent: p.Agent, TS: p.TS, SignAlg: p.SignAlg, SignKey: p.SignWith}
	for _, c := range p.Chain {
		s.Chain = append(s.Chain, c.Raw)
	}
	for _, m := range p.jMut {
		m(s)
	}
	return s
}

func (p *hplan) buildCOSE() *coseSpec {
	var crit []any
	for _, l := range p.critLabels() {
		crit = append(crit, l)
	}
	for _, a := range p.Attrs {
		if a.Crit {
			if a.IsInt {
				crit = append(crit, a.IntKey)
			} else {
				crit = append(crit, a.TextKey)
			}
		}
	}
	es := []cEntry{{int64(1), algTable[p.DeclAlg].Cose}, {int64(2), crit}, {int64(3), p.Cty}, {kScheme, p.Scheme}, {p.timeLabel(), cborTag1Int(p.Time.Unix())}}
	if p.Expiry != nil {
		es = append(es, cEntry{kExp, cborTag1Int(p.Expiry.Unix())})
	}
	for _, a := range p.Attrs {
		if a.IsInt {
			es = append(es, cEntry{a.IntKey, a.Val})
		} else {
			es = append(es, cEntry{a.TextKey, a.Val})
		}
	}
	var chain []any
	for _, c := range p.Chain {
		chain = append(chain, c.Raw)
	}
	un := []cEntry{{int64(33), chain}}
	if p.Agent != "" {
		un = append(un, cEntry{"io.cncf.notary.signingAgent", p.Agent})
	}
	if p.TS != nil {
		un = append(un, cEntry{"io.cncf.notary.timestampSignature", p.TS})
	}
	s := &coseSpec{Protected: es, Unprotected: un, Payload: p.Payload, SignAlg: p.SignAlg, SignKey: p.SignWith}
	for _, m := range p.cMut {
		m(s)
	}
	return s
}

// ---- member helpers ----
func jDrop(key string) func(*jwsSpec) {
	return func(s *jwsSpec) {
		var out []jMember
		for _, m := range s.Protected {
			if m.Key != key {
				out = append(out, m)
			}
		}
		s.Protected = out
	}
}
func jSet(key, raw string) func(*jwsSpec) {
	return func(s *jwsSpec) {
		for i := range s.Protected {
			if s.Protected[i].Key == key {
				s.Protected[i].Raw = raw
				return
			}
		}
		s.Protected = append(s.Protected, jMember{key, raw})
	}
}
func jAdd(key, raw string) func(*jwsSpec) {
	return func(s *jwsSpec) { s.Protected = append(s.Protected, jMember{key, raw}) }
}
func jRename(key, to string) func(*jwsSpec) {
	return func(s *jwsSpec) {
		for i := range s.Protected {
			if s.Protected[i].Key == key {
				s.Protected[i].Key = to
			}
		}
	}
}
func jCrit(f func([]string) []string) func(*jwsSpec) {
	return func(s *jwsSpec) {
		for i := range s.Protected {
			if s.Protected[i].Key == "crit" {
				var cur []string
				json.Unmarshal([]byte(s.Protected[i].Raw), &cur)
				b, _ := json.Marshal(f(cur))
				s.Protected[i].Raw = string(b)
			}
		}
	}
}
func without(l []string, x string) []string {
	var out []string
	for _, y := range l {
		if y != x {
			out = append(out, y)
		}
	}
	if out == nil {
		out = []string{}
	}
	return out
}

func cDrop(label any) func(*coseSpec) {
	return func(s *coseSpec) {
		var out []cEntry
		for _, e := range s.Protected {
			if e.Label != label {
				out = append(out, e)
			}
		}
		s.Protected = out
	}
}
func cSet(label any, v any) func(*coseSpec) {
	return func(s *coseSpec) {
		for i := range s.Protected {
			if s.Protected[i].Label == label {
				s.Protected[i].Value = v
				return
			}
		}
		s.Protected = append(s.Protected, cEntry{label, v})
	}
}
func cCrit(f func([]any) []any) func(*coseSpec) {
	return func(s *coseSpec) {
		for i := range s.Protected {
			if s.Protected[i].Label == int64(2) {
				cur, _ := s.Protected[i].Value.([]any)
				s.Protected[i].Value = f(append([]any{}, cur...))
			}
		}
	}
}
func withoutAny(l []any, x any) []any {
	out := []any{}
	for _, y := range l {
		if y != x {
			out = append(out, y)
		}
	}
	return out
}

type deviation struct {
	name   string
	benign bool
	j      func(p *hplan) []func(*jwsSpec)  // nil: not applicable to JWS
	c      func(p *hplan) []func(*coseSpec) // nil: not applicable to COSE
	plan   func(p *hplan)                   // change at plan level (both formats)
}

func J(fs ...func(*jwsSpec)) func(*hplan) []func(*jwsSpec) {
	return func(*hplan) []func(*jwsSpec) { return fs }
}
func C(fs ...func(*coseSpec)) func(*hplan) []func(*coseSpec) {
	return func(*hplan) []func(*coseSpec) { return fs }
}

func deviations() []deviation {
	zeroT := time.Time{}
	var ds []deviation
	add := func(d deviation) { ds = append(ds, d) }
	// --- plan level ---
	add(deviation{name: "expiry<time", plan: func(p *hplan) { t := p.Time.Add(-time.Hour); p.Expiry = &t }})
	add(deviation{name: "expiry==time", plan: func(p *hplan) { t := p.Time; p.Expiry = &t }})
	add(deviation{name: "expiry=time+1s", benign: true, plan: func(p *hplan) { t := p.Time.Add(time.Second); p.Expiry = &t }})
	add(deviation{name: "no-expiry", benign: true, plan: func(p *hplan) { p.Expiry = nil }})
	// content types that a media-type parser would normalise: they are returned exactly as signed
	add(deviation{name: "cty-mixed-case", benign: true, plan: func(p *hplan) { p.Cty = "Application/Vnd.CNCF.Notary.Payload.V1+JSON" }})
	add(deviation{name: "cty-with-parameters", benign: true, plan: func(p *hplan) { p.Cty = "application/vnd.cncf.notary.payload.v1+json; profile=other;charset=utf-7" }})
	add(deviation{name: "cty-not-a-media-type", plan: func(p *hplan) { p.Cty = " not / a media type ;;" }})
	add(deviation{name: "scheme-other", plan: func(p *hplan) { p.Scheme = "notary.x509.other" }})
	add(deviation{name: "scheme-empty", plan: func(p *hplan) { p.Scheme = "" }})
	add(deviation{name: "payload-empty", plan: func(p *hplan) { p.Payload = []byte{} }})
	add(deviation{name: "payload-not-json", plan: func(p *hplan) { p.Payload = []byte("plain text, not JSON") }})
	add(deviation{name: "payload-json-array", plan: func(p *hplan) { p.Payload = []byte(`[1,2,3]`) }})
	add(deviation{name: "payload-json-null", plan: func(p *hplan) { p.Payload = []byte(`null`) }})
	add(deviation{name: "agent+ts", benign: true, plan: func(p *hplan) { p.Agent = "agent/9.9"; p.TS = []byte{1, 2, 3, 4} }})
	add(deviation{name: "attr-noncrit", benign: true, plan: func(p *hplan) {
		p.Attrs = append(p.Attrs, hattr{TextKey: "com.example.extra", Raw: `{"a":[1,true,null]}`, Val: map[string]any{"a": []any{int64(1), true, nil}}})
	}})
	add(deviation{name: "attr-crit", benign: true, plan: func(p *hplan) {
		p.Attrs = append(p.Attrs, hattr{TextKey: "com.example.must", Raw: `"understood"`, Val: "understood", Crit: true})
	}})
	add(deviation{name: "declared-alg-mismatch-ES384", plan: func(p *hplan) { p.DeclAlg = "ES384"; p.SignAlg = "ES384" }})
	add(deviation{name: "declared-alg-RS256", plan: func(p *hplan) { p.DeclAlg = "RS256"; p.SignAlg = "ES256" }})
	add(deviation{name: "signed-by-other-key", plan: func(p *hplan) { p.SignWith = Key("ec256c") }})
	add(deviation{name: "chain-empty", plan: func(p *hplan) { p.Chain = nil }})
	add(deviation{name: "chain-leaf-only", plan: func(p *hplan) {
		if len(p.Chain) > 1 {
			p.Chain = p.Chain[:1]
		}
	}})
	add(deviation{name: "chain-reversed", plan: func(p *hplan) {
		if len(p.Chain) > 1 {
			p.Chain = []*x509.Certificate{p.Chain[1], p.Chain[0]}
		}
	}})
	add(deviation{name: "chain-ts-leaf", plan: func(p *hplan) { p.Chain = basePlan(2, "ts", "ec256b").build().xs }})
	add(deviation{name: "chain-3", benign: true, plan: func(p *hplan) { p.Chain = basePlan(3, "cs", "ec256b").build().xs }})
	add(deviation{name: "time-zero", plan: func(p *hplan) { p.Time = zeroT }})
	// --- JWS / COSE member level ---
	for _, k := range []string{"alg", "cty", "crit", kScheme} {
		k := k
		var cl any
		switch k {
		case "alg":
			cl = int64(1)
		case "cty":
			cl = int64(3)
		case "crit":
			cl = int64(2)
		default:
			cl = k
		}
		add(deviation{name: "drop-" + k, j: J(jDrop(k)), c: C(cDrop(cl))})
	}
	add(deviation{name: "drop-time", j: func(p *hplan) []func(*jwsSpec) { return []func(*jwsSpec){jDrop(p.timeLabel())} },
		c: func(p *hplan) []func(*coseSpec) { return []func(*coseSpec){cDrop(p.timeLabel())} }})
	add(deviation{name: "drop-expiry-keep-crit", j: J(jDrop(kExp)), c: C(cDrop(kExp))})
	add(deviation{name: "dup-alg-last-wins", j: J(jAdd("alg", `"ES384"`))})
	add(deviation{name: "dup-alg-same", benign: true, j: J(jAdd("alg", `"ES256"`))})
	add(deviation{name: "dup-scheme", j: J(jAdd(kScheme, `"notary.x509.other"`))})
	add(deviation{name: "alg-number", j: J(jSet("alg", `256`)), c: C(cSet(int64(1), "ES256"))})
	add(deviation{name: "alg-null", j: J(jSet("alg", `null`))})
	add(deviation{name: "cty-number", j: J(jSet("cty", `5`)), c: C(cSet(int64(3), uint64(42)))})
	add(deviation{name: "cty-empty", j: J(jSet("cty", `""`))})
	add(deviation{name: "cty-noslash", c: C(cSet(int64(3), "noslash"))})
	add(deviation{name: "crit-string", j: J(jSet("crit", `"io.cncf.notary.signingScheme"`)), c: C(cSet(int64(2), kScheme))})
	add(deviation{name: "crit-empty", j: J(jSet("crit", `[]`)), c: C(cSet(int64(2), []any{}))})
	add(deviation{name: "crit-null", j: J(jSet("crit", `null`))})
	add(deviation{name: "time-number", j: func(p *hplan) []func(*jwsSpec) { return []func(*jwsSpec){jSet(p.timeLabel(), `1700000000`)} },
		c: func(p *hplan) []func(*coseSpec) { return []func(*coseSpec){cSet(p.timeLabel(), p.Time.Unix())} }})
	add(deviation{name: "time-badstring", j: func(p *hplan) []func(*jwsSpec) { return []func(*jwsSpec){jSet(p.timeLabel(), `"yesterday"`)} },
		c: func(p *hplan) []func(*coseSpec) { return []func(*coseSpec){cSet(p.timeLabel(), "yesterday")} }})
	add(deviation{name: "time-null", j: func(p *hplan) []func(*jwsSpec) { return []func(*jwsSpec){jSet(p.timeLabel(), `null`)} }})
	add(deviation{name: "time-tag0", c: func(p *hplan) []func(*coseSpec) {
		return []func(*coseSpec){cSet(p.timeLabel(), cborTag0(p.Time.UTC().Format(time.RFC3339)))}
	}})
	add(deviation{name: "time-tag1-float", benign: true, c: func(p *hplan) []func(*coseSpec) {
		return []func(*coseSpec){cSet(p.timeLabel(), cborTag1Float(float64(p.Time.Unix())))}
	}})
	add(deviation{name: "time-bstr", c: func(p *hplan) []func(*coseSpec) { return []func(*coseSpec){cSet(p.timeLabel(), []byte{1, 2})} }})
	add(deviation{name: "time-fractional", benign: true, j: func(p *hplan) []func(*jwsSpec) {
		return []func(*jwsSpec){jSet(p.timeLabel(), jstr(p.Time.UTC().Add(123456789).Format(time.RFC3339Nano)))}
	}})
	add(deviation{name: "time-zone", benign: true, j: func(p *hplan) []func(*jwsSpec) {
		return []func(*jwsSpec){jSet(p.timeLabel(), jstr(p.Time.In(time.FixedZone("x", 5*3600+1800)).Format(time.RFC3339)))}
	}})
	// expiry and signing time are the same instant written with different UTC offsets: still "not later"
	for _, zz := range [][2]int{{5*3600 + 45*60, 0}, {0, -(3*3600 + 1800)}, {-8 * 3600, 9 * 3600}} {
		zz := zz
		add(deviation{name: fmt.Sprintf("expiry==time-offsets%+d/%+d", zz[0]/60, zz[1]/60), plan: func(p *hplan) { t := p.Time; p.Expiry = &t },
			j: func(p *hplan) []func(*jwsSpec) {
				return []func(*jwsSpec){jSet(p.timeLabel(), jstr(p.Time.In(time.FixedZone("a", zz[0])).Format(time.RFC3339))),
					jSet(kExp, jstr(p.Time.In(time.FixedZone("b", zz[1])).Format(time.RFC3339)))}
			}})
	}
	add(deviation{name: "expiry-tag0", c: C(cSet(kExp, cborTag0("2099-01-01T00:00:00Z")))})
	add(deviation{name: "expiry-untagged", c: C(cSet(kExp, int64(4102444800)))})
	add(deviation{name: "expiry-zero-time", j: J(jSet(kExp, `"0001-01-01T00:00:00Z"`)), c: C(cSet(kExp, cborTag1Int(-62135596800)))})
	add(deviation{name: "expiry-null", j: J(jSet(kExp, `null`))})
	add(deviation{name: "scheme-number", j: J(jSet(kScheme, `7`)), c: C(cSet(kScheme, int64(7)))})
	add(deviation{name: "add-other-time-header", j: func(p *hplan) []func(*jwsSpec) {
		o := kAST
		if p.timeLabel() == kAST {
			o = kST
		}
		return []func(*jwsSpec){jAdd(o, rfc(p.Time))}
	}, c: func(p *hplan) []func(*coseSpec) {
		o := kAST
		if p.timeLabel() == kAST {
			o = kST
		}
		return []func(*coseSpec){cSet(o, cborTag1Int(p.Time.Unix()))}
	}})
	add(deviation{name: "swap-time-header", j: func(p *hplan) []func(*jwsSpec) {
		o := kAST
		if p.timeLabel() == kAST {
			o = kST
		}
		return []func(*jwsSpec){jRename(p.timeLabel(), o)}
	}, c: func(p *hplan) []func(*coseSpec) {
		o := kAST
		if p.timeLabel() == kAST {
			o = kST
		}
		return []func(*coseSpec){cDrop(p.timeLabel()), cSet(o, cborTag1Int(p.Time.Unix()))}
	}})
	for _, k := range []string{kScheme, kExp, kAST} {
		k := k
		add(deviation{name: "crit-omit-" + k[len("io.cncf.notary."):], j: J(jCrit(func(l []string) []string { return without(l, k) })),
			c: C(cCrit(func(l []any) []any { return withoutAny(l, k) }))})
	}
	add(deviation{name: "crit-phantom-unknown", j: J(jCrit(func(l []string) []string { return append(l, "io.example.phantom") })),
		c: C(cCrit(func(l []any) []any { return append(l, "io.example.phantom") }))})
	for _, k := range []string{kExp, kAST, kST, "alg", "cty", "crit"} {
		k := k
		add(deviation{name: "crit-lists-" + strings.TrimPrefix(k, "io.cncf.notary."), j: J(jCrit(func(l []string) []string { return append(l, k) }))})
	}
	add(deviation{name: "crit-lists-cty-int", c: C(cCrit(func(l []any) []any { return append(l, int64(3)) }))})
	add(deviation{name: "crit-lists-alg-int", c: C(cCrit(func(l []any) []any { return append(l, int64(1)) }))})
	add(deviation{name: "crit-lists-st-text", c: C(cCrit(func(l []any) []any { return append(l, kST) }))})
	add(deviation{name: "crit-dup-scheme", j: J(jCrit(func(l []string) []string { return append(l, kScheme) })),
		c: C(cCrit(func(l []any) []any { return append(l, kScheme) }))})
	// the crit list names an extended attribute twice: the attribute is still surfaced once
	add(deviation{name: "crit-dup-attr", plan: func(p *hplan) {
		p.Attrs = append(p.Attrs, hattr{TextKey: "vendor.policy", Raw: `"strict"`, Val: "strict", Crit: true})
	}, j: J(jCrit(func(l []string) []string { return append(l, "vendor.policy") })), c: C(cCrit(func(l []any) []any { return append(l, "vendor.policy") }))})
	// crit names a header that is present only under another letter case: JWS member names are case-sensitive
	add(deviation{name: "crit-case-variant-of-attr", plan: func(p *hplan) {
		p.Attrs = append(p.Attrs, hattr{TextKey: "x-policy", Raw: `"strict"`, Val: "strict", Crit: false})
	}, j: J(jCrit(func(l []string) []string { return append(l, "X-Policy") })), c: C(cCrit(func(l []any) []any { return append(l, "X-Policy") }))})
	add(deviation{name: "crit-lists-absent-attr", j: J(jCrit(func(l []string) []string { return append(l, "com.example.absent") })),
		c: C(cCrit(func(l []any) []any { return append(l, "com.example.absent") }))})
	add(deviation{name: "ext-big-uint", c: C(cSet("x.big", uint64(12345678901234567890)))})
	// an integer label and the text label with the same digits, only one of the pair critical
	add(deviation{name: "ext-int-and-text-same-digits-int-critical", benign: true, c: C(cSet(int64(1000), "v1000"), cSet("1000", "text-1000"),
		cCrit(func(l []any) []any { return append(l, int64(1000)) }))})
	add(deviation{name: "ext-int-and-text-same-digits-text-critical", benign: true, c: C(cSet(int64(-65537), "neg"), cSet("-65537", "text-neg"),
		cCrit(func(l []any) []any { return append(l, "-65537") }))})
	add(deviation{name: "ext-int-labels", benign: true, c: C(cSet(int64(1000), "v1000"), cSet(int64(-70000), []byte{9}), cSet("1000", "text-1000"))})
	add(deviation{name: "ext-int-crit", benign: true, c: C(cSet(int64(1001), int64(5)), cCrit(func(l []any) []any { return append(l, int64(1001)) }))})
	add(deviation{name: "ext-text-3", benign: true, c: C(cSet("3", "looks-like-cty"), cSet("io.cncf.notary.verificationPlugin", "plug"))})
	add(deviation{name: "ext-values", benign: true, j: J(jAdd("x.num", `12345678901234567890`), jAdd("x.float", `1.5e3`), jAdd("x.obj", `{"k":{"n":null}}`), jAdd("x.arr", `[[],{}]`), jAdd("x.bool", `false`), jAdd("x.null", `null`)),
		c: C(cSet("x.num", uint64(1234567890123456789)), cSet("x.neg", int64(-5)), cSet("x.float", 1.5), cSet("x.map", map[any]any{"k": []any{nil}}), cSet("x.bstr", []byte{0, 1}), cSet("x.bool", false), cSet("x.null", nil))})
	for _, cv := range [][2]string{{"alg", "Alg"}, {"alg", "ALG"}, {"crit", "Crit"}, {kScheme, "io.cncf.notary.signingscheme"}, {"cty", "CTY"}, {kExp, "IO.CNCF.NOTARY.EXPIRY"}} {
		cv := cv
		add(deviation{name: "case-variant-" + cv[1], j: J(jRename(cv[0], cv[1]))})
	}
	add(deviation{name: "case-variant-dup-Alg-PS256", j: J(jAdd("Alg", `"PS256"`))})
	add(deviation{name: "case-variant-long-s", j: J(jAdd("io.cncf.notary.ſigningScheme", `"notary.x509.other"`))})
	// U+017F (long s) folds to "s" under Unicode simple case folding - what encoding/json uses to bind members to fields -
	// but is left alone by strings.ToLower: a second spelling of the time headers, carrying another time
	add(deviation{name: "case-variant-long-s-signingTime", j: J(jAdd("io.cncf.notary.ſigningTime", `"2031-05-05T00:00:00Z"`))})
	add(deviation{name: "case-variant-long-s-authenticSigningTime", j: J(jAdd("io.cncf.notary.authenticſigningTime", `"2031-05-05T00:00:00Z"`))})
	add(deviation{name: "case-variant-long-s-expiry-crit", j: J(jAdd("io.cncf.notary.ſigningScheme", `"notary.x509"`))})
	add(deviation{name: "sig-flip", j: J(func(s *jwsSpec) { s.ExtraTop = append(s.ExtraTop, jMember{"\x00flip", ""}) }), c: C(func(s *coseSpec) { s.Unprotected = append(s.Unprotected, cEntry{"\x00flip", 0}) })})
	add(deviation{name: "sig-empty", j: J(func(s *jwsSpec) { e := ""; s.SigB64 = &e }), c: C(func(s *coseSpec) { s.Sig = []byte{} })})
	add(deviation{name: "protected-not-json", j: J(func(s *jwsSpec) { t := "not json"; s.ProtectedTxt = &t })})
	add(deviation{name: "protected-json-null", j: J(func(s *jwsSpec) { t := "null"; s.ProtectedTxt = &t })})
	add(deviation{name: "protected-json-null-spaces", j: J(func(s *jwsSpec) { t := " null "; s.ProtectedTxt = &t })})
	add(deviation{name: "protected-json-string", j: J(func(s *jwsSpec) { t := `"x"`; s.ProtectedTxt = &t })})
	add(deviation{name: "protected-json-array", j: J(func(s *jwsSpec) { t := "[1]"; s.ProtectedTxt = &t })})
	add(deviation{name: "protected-b64-bad", j: J(func(s *jwsSpec) { t := "@@@"; s.ProtectedB64 = &t })})
	add(deviation{name: "payload-b64-bad", j: J(func(s *jwsSpec) { t := "%%%"; s.PayloadB64 = &t })})
	add(deviation{name: "x5c-not-array", j: J(func(s *jwsSpec) { t := `"AAAA"`; s.ChainRaw = &t }), c: C(func(s *coseSpec) {
		for i := range s.Unprotected {
			if s.Unprotected[i].Label == int64(33) {
				if arr, ok := s.Unprotected[i].Value.([]any); ok && len(arr) > 0 {
					s.Unprotected[i].Value = arr[0]
				}
			}
		}
	})})
	add(deviation{name: "x5c-garbage-der", j: J(func(s *jwsSpec) { t := `["AAAA"]`; s.ChainRaw = &t }), c: C(func(s *coseSpec) {
		for i := range s.Unprotected {
			if s.Unprotected[i].Label == int64(33) {
				s.Unprotected[i].Value = []any{[]byte{0x30, 0x00}}
			}
		}
	})})
	add(deviation{name: "payload-nil", c: C(func(s *coseSpec) { s.NilPayload = true })})
	add(deviation{name: "untagged", c: C(func(s *coseSpec) { s.Untagged = true })})
	add(deviation{name: "protected-empty", c: C(func(s *coseSpec) { s.Protected = nil; s.ProtectedBytes = []byte{} })})
	add(deviation{name: "x5chain-in-protected", c: C(func(s *coseSpec) {
		for _, e := range s.Unprotected {
			if e.Label == int64(33) {
				s.Protected = append(s.Protected, e)
			}
		}
	})})
	// --- unsigned parts carrying values of the wrong kind, and signed-looking members placed among them ---
	uSet := func(label any, v any) func(*coseSpec) {
		return func(s *coseSpec) {
			for i := range s.Unprotected {
				if s.Unprotected[i].Label == label {
					s.Unprotected[i].Value = v
					return
				}
			}
			s.Unprotected = append(s.Unprotected, cEntry{label, v})
		}
	}
	jHdr := func(k, raw string) func(*jwsSpec) {
		return func(s *jwsSpec) { s.ExtraHeader = append(s.ExtraHeader, jMember{k, raw}) }
	}
	const kAgent, kTS = "io.cncf.notary.signingAgent", "io.cncf.notary.timestampSignature"
	for _, kv := range []struct {
		n string
		c any
		j string
	}{{"int", int64(7), "7"}, {"bstr", []byte("ag"), ""}, {"array", []any{"a"}, `["a"]`}, {"bool", true, "true"}, {"null", nil, "null"}, {"map", map[any]any{"a": 1}, `{"a":1}`}} {
		kv := kv
		d := deviation{name: "unsigned-agent-" + kv.n, c: C(uSet(kAgent, kv.c))}
		if kv.j != "" {
			d.j = J(jHdr(kAgent, kv.j))
		}
		add(d)
	}
	for _, kv := range []struct {
		n string
		c any
		j string
	}{{"text", "dGV4dA==", `"not base64 !"`}, {"int", int64(7), "7"}, {"array", []any{[]byte{1}}, `["AQ=="]`}, {"null", nil, "null"}, {"empty", []byte{}, `""`}} {
		kv := kv
		add(deviation{name: "unsigned-timestamp-" + kv.n, c: C(uSet(kTS, kv.c)), j: J(jHdr(kTS, kv.j))})
	}
	for _, kv := range []struct {
		n string
		c any
		j string
	}{{"int", int64(7), "7"}, {"map", map[any]any{"a": 1}, `{"a":1}`}, {"array-of-int", []any{int64(1), int64(2)}, `[1,2]`}, {"empty-array", []any{}, `[]`}, {"null", nil, "null"}, {"array-with-null", []any{nil}, `[null]`}, {"text", "x5", `"x5"`}} {
		kv := kv
		add(deviation{name: "unsigned-x5chain-" + kv.n, c: C(uSet(int64(33), kv.c)), j: J(func(s *jwsSpec) { t := kv.j; s.ChainRaw = &t })})
	}
	// a content type / algorithm / scheme that is present only among the unsigned members
	add(deviation{name: "cty-only-unsigned", c: C(cDrop(int64(3)), uSet(int64(3), "text/evil")), j: J(jDrop("cty"), jHdr("cty", `"text/evil"`))})
	add(deviation{name: "cty-also-unsigned", benign: true, c: C(uSet(int64(3), "text/evil")), j: J(jHdr("cty", `"text/evil"`))})
	add(deviation{name: "alg-only-unsigned", c: C(cDrop(int64(1)), uSet(int64(1), int64(-7))), j: J(jDrop("alg"), jHdr("alg", `"ES256"`))})
	add(deviation{name: "scheme-only-unsigned", c: C(cDrop(kScheme), uSet(kScheme, "notary.x509")), j: J(jDrop(kScheme), jHdr(kScheme, `"notary.x509"`))})
	add(deviation{name: "expiry-also-unsigned", benign: true, c: C(uSet(kExp, int64(1))), j: J(jHdr(kExp, `"2000-01-01T00:00:00Z"`))})
	add(deviation{name: "crit-also-unsigned", benign: true, j: J(jHdr("crit", `["nope"]`))})
	add(deviation{name: "crit-also-unsigned-cose", c: C(uSet(int64(2), []any{"nope"}))}) // go-cose refuses crit outside the protected bucket
	_ = cbor.RawMessage{}
	return ds
}

func basePlanEnv(fmtIdx int, scheme string, withExpiry bool) *hplan {
	f := envFixtureGet()
	p := &hplan{Fmt: fmtIdx, Scheme: scheme, Time: baseTime, Payload: []byte(`{"targetArtifact":{"digest":"sha256:00","size":1}}`), Cty: payloadCT,
		LeafKey: "ec256b", Chain: f.chain, SignAlg: "ES256", DeclAlg: "ES256", SignWith: Key("ec256b"), Expect: 1}
	if withExpiry {
		t := baseTime.Add(24 * time.Hour)
		p.Expiry = &t
	}
	return p
}

func (p *hplan) encode() ([]byte, string, error) {
	if p.Fmt == 0 {
		s := p.buildJWS()
		b, err := s.encode()
		if err != nil {
			return nil, jws.MediaTypeEnvelope, err
		}
		for _, m := range s.ExtraTop {
			if m.Key == "\x00flip" { // flip one bit of the signature
				var top map[string]json.RawMessage
				s.ExtraTop = nil
				b, _ = s.encode()
				json.Unmarshal(b, &top)
				b = tamperSignature(jws.MediaTypeEnvelope, b)
			}
		}
		return b, jws.MediaTypeEnvelope, nil
	}
	s := p.buildCOSE()
	flip := false
	var un []cEntry
	for _, e := range s.Unprotected {
		if e.Label == "\x00flip" {
			flip = true
		} else {
			un = append(un, e)
		}
	}
	s.Unprotected = un
	b, err := s.encode()
	if err != nil {
		return nil, cose.MediaTypeEnvelope, err
	}
	if flip && len(b) > 3 {
		b[len(b)-3] ^= 1
	}
	return b, cose.MediaTypeEnvelope, nil
}

func emitEnvelope(w *CaseWriter, mt string, b []byte, labels []string, expect int) {
	emitEnvelopeFull(w, mt, b, labels, expect, "%s")
}

func emitEnvelopeWrapped(w *CaseWriter, mt string, b []byte, labels []string, wrap string) {
	emitEnvelopeFull(w, mt, b, labels, 0, wrap)
}

func emitEnvelopeFull(w *CaseWriter, mt string, b []byte, labels []string, expect int, wrap string) {
	emitEnvelopeOut(w, mt, b, labels, expect, wrap, nil)
}

// emitEnvelopeOut: as emitEnvelopeFull, but the implementation outputs may come from an object with a history
// (run != nil) instead of from an object freshly parsed from b
func emitEnvelopeOut(w *CaseWriter, mt string, b []byte, labels []string, expect int, wrap string, run func() implEnvOut) {
	var v *envView
	if mt == jws.MediaTypeEnvelope {
		v = viewJWS(b)
	} else {
		v = viewCOSE(b)
	}
	sf, ss := "[]", "[]"
	if len(v.Chain) > 0 {
		sf, ss = oracleTerms(v.Chain)
	}
	noteCurrentCase(map[string]any{"labels": labels, "media_type": mt})
	var out implEnvOut
	if run != nil {
		out = run()
	} else {
		out = runEnvelope(mt, b)
	}
	term := fmt.Sprintf("(mk @ID@ %s %s %s %s %s %s %s %s %d)", v.term(), sf, ss, cB(v.Decoded), cB(v.LibVerify), out.Verify, out.Content, cB(out.Panicked), expect)
	cls := "reject"
	if out.Content != "None" {
		cls = "content-only"
	}
	if out.Verify != "None" {
		cls = "verified"
	}
	if out.Panicked {
		cls = "panic"
	}
	desc := map[string]any{"media_type": mt, "labels": labels, "decoded": v.Decoded, "lib_verify": v.LibVerify, "view_note": v.Note,
		"impl_verify_err": out.VerifyErr, "impl_content_err": out.ContErr, "impl_verified": out.Verify != "None", "impl_content": out.Content != "None", "panic": out.PanicMsg}
	if len(b) < 6000 {
		desc["envelope_b64"] = b
	}
	for _, l := range labels {
		w.Count("dev:" + l)
	}
	w.Count(fmt.Sprintf("fmt:%d", v.Fmt))
	w.Emit(fmt.Sprintf(wrap, term), desc, fmt.Sprintf("fmt%d/%s", v.Fmt, cls), len(labels) > 0)
}

func applyDev(p *hplan, d deviation) bool {
	if d.plan != nil && (d.j != nil || d.c != nil) { // a two-level deviation applies only to the formats it has a part for
		if (p.Fmt == 0 && d.j == nil) || (p.Fmt != 0 && d.c == nil) {
			return false
		}
	}
	if d.plan != nil {
		d.plan(p)
	}
	if d.plan != nil && d.j == nil && d.c == nil {
		// plan-level only
	} else if p.Fmt == 0 {
		if d.j == nil {
			return false
		}
		p.jMut = append(p.jMut, d.j(p)...)
	} else {
		if d.c == nil {
			return false
		}
		p.cMut = append(p.cMut, d.c(p)...)
	}
	if !d.benign {
		p.Expect = 0
	}
	p.Labels = append(p.Labels, d.name)
	return true
}

func genEnvelopes(prop, tier string, rng *RNG, w *CaseWriter) {
	w.ShardSize = 150
	devs := deviations()
	w.Extra["deviations"] = len(devs)
	schemes := []string{"notary.x509", "notary.x509.signingAuthority"}
	emitPlan := func(p *hplan) {
		b, mt, err := p.encode()
		if err != nil {
			w.Count("encode-error")
			return
		}
		exp := p.Expect
		if len(p.Labels) > 1 {
			exp = 0 // combinations of benign variations may interact (e.g. two expiries): no expectation
		}
		emitEnvelope(w, mt, b, p.Labels, exp)
	}
	for fi := 0; fi < 2; fi++ {
		for _, sc := range schemes {
			for _, we := range []bool{false, true} {
				emitPlan(basePlanEnv(fi, sc, we))
				for _, d := range devs {
					p := basePlanEnv(fi, sc, we)
					if applyDev(p, d) {
						emitPlan(p)
					}
				}
			}
		}
	}
	// pairs
	pairEvery := 7
	if tier == "thorough" {
		pairEvery = 1
	}
	n := 0
	for fi := 0; fi < 2; fi++ {
		for i, a := range devs {
			for j, b := range devs {
				if i >= j {
					continue
				}
				n++
				if n%pairEvery != 0 {
					continue
				}
				p := basePlanEnv(fi, schemes[(i+j)%2], (i+2*j)%3 != 0)
				if applyDev(p, a) && applyDev(p, b) {
					emitPlan(p)
				}
			}
		}
	}
	// random larger sets
	extra := 300
	if tier == "thorough" {
		extra = 5000
	}
	for k := 0; k < extra; k++ {
		p := basePlanEnv(rng.Intn(2), Pick(rng, schemes), rng.Bool())
		for m := 3 + rng.Intn(3); m > 0; m-- {
			applyDev(p, Pick(rng, devs))
		}
		emitPlan(p)
	}
	_ = prop
}
