package main

import (
	"crypto"
	"crypto/ecdsa"
	"crypto/ed25519"
	"crypto/rsa"
	"crypto/x509"
	"fmt"
	"math/big"

	"github.com/notaryproject/notation-core-go/signature"
)

func init() { register("C02", "Run.C02", genC02) }

func hashBits(h crypto.Hash) int {
	switch h {
	case crypto.SHA256:
		return 256
	case crypto.SHA384:
		return 384
	case crypto.SHA512:
		return 512
	case 0:
		return 0
	}
	return -int(h)
}

// truthSigner: a remote signer that reports the given key spec and signs with key under algorithm alg
type truthSigner struct {
	ks    signature.KeySpec
	key   crypto.Signer
	alg   string
	chain []*x509.Certificate
}

func (t *truthSigner) KeySpec() (signature.KeySpec, error) { return t.ks, nil }
func (t *truthSigner) Sign(payload []byte) ([]byte, []*x509.Certificate, error) {
	sig, err := signRaw(t.alg, t.key, payload)
	if err != nil {
		sig = make([]byte, 64) // the key cannot sign with that algorithm: hand back something of plausible size
	}
	return sig, t.chain, nil
}

func trueKeySpec(k crypto.Signer) signature.KeySpec {
	switch p := k.Public().(type) {
	case *rsa.PublicKey:
		return signature.KeySpec{Type: signature.KeyTypeRSA, Size: p.Size() * 8}
	case *ecdsa.PublicKey:
		return signature.KeySpec{Type: signature.KeyTypeEC, Size: p.Curve.Params().BitSize}
	case ed25519.PublicKey:
		return signature.KeySpec{Type: 0, Size: 256}
	}
	return signature.KeySpec{}
}

var nSignSucceeds int

func signSucceeds(mt string, s signature.Signer) (ok bool) {
	defer func() {
		if recover() != nil {
			ok = false
		}
	}()
	env, err := signature.NewEnvelope(mt)
	if err != nil {
		return false
	}
	nSignSucceeds++
	if nSignSucceeds%2 == 0 {
		// the object has a past: it was signed (and read) with the fixture signer before; that must not matter
		env.Sign(goodReq(8))
		env.Content()
	}
	req := goodReq(7)
	req.Signer = s
	b, err := env.Sign(req)
	return err == nil && len(b) > 0
}

func genC02(tier string, rng *RNG, w *CaseWriter) {
	w.ShardSize = 150
	// (1) the table grid through the exported KeySpec / Algorithm API
	for _, t := range []int{-1, 0, 1, 2, 3} {
		for _, s := range []int{-1, 0, 255, 256, 257, 384, 512, 521, 1024, 2047, 2048, 2049, 3072, 4096, 8192} {
			ks := signature.KeySpec{Type: signature.KeyType(t), Size: s}
			a := ks.SignatureAlgorithm()
			term := fmt.Sprintf("(KTab @ID@ %s %s %d %d)", cZ(int64(t)), cZ(int64(s)), int(a), hashBits(a.Hash()))
			w.Count("table-cell")
			w.Emit(term, map[string]any{"kind": "table", "type": t, "size": s, "alg": int(a), "hash_bits": hashBits(a.Hash())}, "table", a != 0)
		}
	}
	for a := 0; a <= 8; a++ { // Hash() of every Algorithm value incl. out-of-range ones
		h := signature.Algorithm(a).Hash()
		// encoded as a table row whose key spec maps to that algorithm, when there is one
		for _, ks := range []signature.KeySpec{{Type: 1, Size: 2048}, {Type: 1, Size: 3072}, {Type: 1, Size: 4096}, {Type: 2, Size: 256}, {Type: 2, Size: 384}, {Type: 2, Size: 521}} {
			if int(ks.SignatureAlgorithm()) == a {
				w.Emit(fmt.Sprintf("(KTab @ID@ %d %d %d %d)", ks.Type, ks.Size, a, hashBits(h)), map[string]any{"kind": "hash", "alg": a}, "table", true)
			}
		}
		if a == 0 || a > 6 {
			bits := hashBits(h)
			w.Emit(fmt.Sprintf("(KTab @ID@ 9 %d 0 %d)", a, bits), map[string]any{"kind": "hash-out-of-range", "alg": a, "hash_bits": bits}, "table", false)
		}
	}
	// (2) keys: extraction, local signer pairing, remote signer acceptance
	wrongKey := map[string]string{"rsa2048a": "rsa2048b", "rsa2048b": "rsa2048a", "rsa3072": "rsa2048a", "rsa4096": "rsa2048a", "ec256a": "ec256b", "ec256b": "ec256c", "ec256c": "ec256b",
		"ec384": "ec256b", "ec521": "ec384", "rsa1024": "rsa2048a", "rsa2040": "rsa2048a", "rsa2050": "rsa2048a", "ec224": "ec256b", "ed25519": "ec256b"}
	otherSpec := func(ks signature.KeySpec) (signature.KeySpec, string) {
		if ks.Type == signature.KeyTypeEC && ks.Size == 384 {
			return signature.KeySpec{Type: signature.KeyTypeEC, Size: 256}, "ES256"
		}
		if ks.Type == signature.KeyTypeEC {
			return signature.KeySpec{Type: signature.KeyTypeEC, Size: 384}, "ES384"
		}
		if ks.Size == 3072 {
			return signature.KeySpec{Type: signature.KeyTypeRSA, Size: 2048}, "PS256"
		}
		return signature.KeySpec{Type: signature.KeyTypeRSA, Size: 3072}, "PS384"
	}
	leafKeys := []string{"rsa2048a", "rsa3072", "rsa4096", "ec256b", "ec384", "ec521", "rsa1024", "rsa2040", "rsa2050", "ec224", "ed25519"}
	chains := map[string][]*x509.Certificate{}
	for _, kn := range leafKeys {
		bp := basePlan(2, "cs", kn)
		// every leaf of the grid carries the SAME subject key identifier (an issuer chooses it freely): the key, not an
		// identifier, dictates the algorithm
		bp.certs[0].spec.SKI = []byte("one-ski-for-all-leaves")
		b := bp.build()
		chains[kn] = b.xs
		leaf := b.xs[0]
		ext := int64(-1)
		if ks, err := signature.ExtractKeySpec(leaf); err == nil {
			ext = int64(ks.Type)*100000 + int64(ks.Size)
		}
		_, errL := signature.NewLocalSigner(b.xs, Key(kn))
		_, errW := signature.NewLocalSigner(b.xs, Key(wrongKey[kn]))
		if rk, ok := Key(kn).(*rsa.PrivateKey); ok && errW != nil {
			// a look-alike private key: same modulus, another public exponent (not the key of the certificate)
			if twin := rsaTwin(rk); twin != nil {
				_, errW = signature.NewLocalSigner(b.xs, twin)
			}
		}
		if ek, ok := Key(kn).(*ecdsa.PrivateKey); ok && errW != nil {
			// same curve, another point
			other := *Key(wrongKey[kn]).(*ecdsa.PrivateKey)
			if other.Curve == ek.Curve {
				_, errW = signature.NewLocalSigner(b.xs, &other)
			}
		}
		ks := trueKeySpec(Key(kn))
		algName := numJose[int(ks.SignatureAlgorithm())]
		if algName == "" {
			algName = "ES256"
		}
		ts := &truthSigner{ks: ks, key: Key(kn), alg: algName, chain: b.xs}
		sj := signSucceeds(mediaTypes[0], ts)
		sc := signSucceeds(mediaTypes[1], ts)
		os, oalg := otherSpec(ks)
		mis := &truthSigner{ks: os, key: Key(kn), alg: oalg, chain: b.xs}
		smis := signSucceeds(mediaTypes[0], mis) || signSucceeds(mediaTypes[1], mis)
		term := fmt.Sprintf("(KKey @ID@ %s %s %s %s %s %s %s)", pkTerm(leaf), cZ(ext), cB(errL == nil), cB(errW == nil), cB(sj), cB(sc), cB(smis))
		w.Count("key:" + kn)
		w.Emit(term, map[string]any{"kind": "key", "key": kn, "extract": ext, "local_ok": errL == nil, "local_wrong_key_ok": errW == nil, "remote_jws": sj, "remote_cose": sc, "mismatched_spec_signed": smis}, "key", true)
	}
	// (3) envelopes: leaf key kind x declared algorithm x format, with a genuinely valid signature for the
	// declared algorithm wherever the key type admits one
	declared := []string{"PS256", "PS384", "PS512", "ES256", "ES384", "ES512", "RS256", "RS384", "RS512", "HS256", "HS384", "HS512", "EdDSA", "none", "ES256K"}
	for fi := 0; fi < 2; fi++ {
		for _, kn := range leafKeys {
			for _, da := range declared {
				for _, scheme := range []string{"notary.x509", "notary.x509.signingAuthority"} {
					if scheme != "notary.x509" && (len(da)+len(kn))%3 != 0 {
						continue
					}
					p := basePlanEnv(fi, scheme, false)
					p.Chain, p.SignWith, p.LeafKey = chains[kn], Key(kn), kn
					p.DeclAlg, p.SignAlg = da, da
					p.Labels = []string{"key=" + kn, "declared=" + da}
					p.Expect = 0
					valid := "valid-sig"
					if _, err := signRaw(da, Key(kn), []byte("probe")); err != nil {
						valid = "no-valid-sig-possible"
						sz := 64
						p.jMut = append(p.jMut, func(s *jwsSpec) { s.Sig = make([]byte, sz) })
						p.cMut = append(p.cMut, func(s *coseSpec) { s.Sig = make([]byte, sz) })
					}
					b, mt, err := p.encode()
					if err != nil {
						w.Count("encode-error")
						continue
					}
					emitEnvelopeWrapped(w, mt, b, append(p.Labels, valid), "(KEnv %s)")
				}
			}
		}
	}
	// (4) JWS: two spellings of the algorithm header. The signature library reads the exact member "alg", a
	// case-insensitive JSON decoder may read the other one: the envelope is signed (validly) under the exact one
	for _, kn := range []string{"rsa2048a", "rsa3072", "rsa4096", "ec256b"} {
		keyAlg := numJose[keyAlgNum(Key(kn).Public())]
		for _, exact := range []string{"PS256", "PS384", "PS512", "ES256", "ES384"} {
			if exact == keyAlg {
				continue
			}
			for _, variant := range []string{"Alg", "ALG", "aLg"} {
				for _, order := range []int{0, 1} {
					p := basePlanEnv(0, "notary.x509", false)
					p.Chain, p.SignWith, p.LeafKey = chains[kn], Key(kn), kn
					p.DeclAlg, p.SignAlg = exact, exact
					if _, err := signRaw(exact, Key(kn), []byte("probe")); err != nil {
						continue
					}
					if order == 0 {
						p.jMut = append(p.jMut, jAdd(variant, jstr(keyAlg)))
					} else {
						p.jMut = append(p.jMut, func(s *jwsSpec) { s.Protected = append([]jMember{{variant, jstr(keyAlg)}}, s.Protected...) })
					}
					b, mt, err := p.encode()
					if err != nil {
						continue
					}
					emitEnvelopeWrapped(w, mt, b, []string{"key=" + kn, "exact-alg=" + exact, variant + "=" + keyAlg}, "(KEnv %s)")
				}
			}
		}
	}
	_ = rng
}

// rsaTwin: a valid RSA private key over the same primes with public exponent 65539
func rsaTwin(k *rsa.PrivateKey) *rsa.PrivateKey {
	if len(k.Primes) != 2 {
		return nil
	}
	one := big.NewInt(1)
	phi := new(big.Int).Mul(new(big.Int).Sub(k.Primes[0], one), new(big.Int).Sub(k.Primes[1], one))
	for _, e := range []int64{65539, 65543, 17, 257} {
		d := new(big.Int).ModInverse(big.NewInt(e), phi)
		if d == nil {
			continue
		}
		t := &rsa.PrivateKey{PublicKey: rsa.PublicKey{N: new(big.Int).Set(k.N), E: int(e)}, D: d, Primes: []*big.Int{new(big.Int).Set(k.Primes[0]), new(big.Int).Set(k.Primes[1])}}
		t.Precompute()
		if t.Validate() == nil {
			return t
		}
	}
	return nil
}
