package main

import (
	"bytes"
	"context"
	"crypto"
	"crypto/ecdsa"
	"crypto/rsa"
	"crypto/x509"
	"encoding/base64"
	"encoding/json"
	"errors"
	"fmt"
	"sort"
	"strings"
	"time"

	"github.com/fxamacker/cbor/v2"
	"github.com/notaryproject/notation-core-go/signature"
	"github.com/notaryproject/notation-core-go/signature/cose"
	"github.com/notaryproject/notation-core-go/signature/jws"
)

func init() {
	register("C16", "Run.C16", func(tier string, rng *RNG, w *CaseWriter) { genSign("C16", tier, rng, w) })
	register("C08", "Run.C08", func(tier string, rng *RNG, w *CaseWriter) { genSign("C08", tier, rng, w) })
}

// ---------- configurable signers ----------
type cfgSigner struct {
	local    bool
	ksErr    bool
	ks       signature.KeySpec
	chain    []*x509.Certificate
	chainErr bool // local: CertificateChain() error; remote: Sign() error
	nilCerts bool // remote: Sign returns nil certificates
	key      crypto.PrivateKey
	signKey  crypto.Signer // remote: the key that actually signs
	signAlg  string
	recorded [][]byte
	scribble bool // remote: overwrite the buffer handed to Sign after signing it (the bytes belong to the signer from then on)
}

type remoteCfg struct{ *cfgSigner }
type localCfg struct{ *cfgSigner }

func (c *cfgSigner) KeySpec() (signature.KeySpec, error) {
	if c.ksErr {
		return signature.KeySpec{}, errors.New("key spec unavailable (injected)")
	}
	return c.ks, nil
}
func (c remoteCfg) Sign(payload []byte) ([]byte, []*x509.Certificate, error) {
	c.recorded = append(c.recorded, append([]byte{}, payload...))
	if c.chainErr {
		return nil, nil, errors.New("remote signer failed (injected)")
	}
	sig, err := signRaw(c.signAlg, c.signKey, payload)
	if err != nil {
		sig = bytes.Repeat([]byte{7}, 64)
	}
	if c.scribble {
		for i := range payload {
			payload[i] = 0xAA
		}
	}
	if c.nilCerts {
		return sig, nil, nil
	}
	return sig, c.chain, nil
}
func (c localCfg) Sign(payload []byte) ([]byte, []*x509.Certificate, error) {
	return nil, nil, errors.New("local signer does not sign remotely")
}
func (c localCfg) CertificateChain() ([]*x509.Certificate, error) {
	if c.chainErr {
		return nil, errors.New("certificate chain unavailable (injected)")
	}
	return c.chain, nil
}
func (c localCfg) PrivateKey() crypto.PrivateKey { return c.key }

type notASigner struct{ X int }

// ---------- abstract request ----------
type akey struct {
	Kind string // text | int | int64 | uint64 | int8 | float | bool | bytes | map | nil
	Text string
	Num  int64
}

func (k akey) goValue() any {
	switch k.Kind {
	case "text":
		return k.Text
	case "int":
		return int(k.Num)
	case "int64":
		return k.Num
	case "uint64":
		return uint64(k.Num)
	case "int8":
		return int8(k.Num)
	case "int16":
		return int16(k.Num)
	case "int32":
		return int32(k.Num)
	case "uint":
		return uint(k.Num)
	case "uint8":
		return uint8(k.Num)
	case "uint16":
		return uint16(k.Num)
	case "uint32":
		return uint32(k.Num)
	case "float":
		return float64(k.Num) + 0.5
	case "bool":
		return true
	case "bytes":
		return []byte{1}
	case "map":
		return map[string]int{"a": 1}
	}
	return nil
}
func (k akey) term() string {
	switch k.Kind {
	case "text":
		return fmt.Sprintf("(GKText %d)", labelIDs.id([]byte(k.Text)))
	case "int":
		return fmt.Sprintf("(GKInt 0 %s)", cZ(k.Num))
	case "int64":
		return fmt.Sprintf("(GKInt 1 %s)", cZ(k.Num))
	case "uint64":
		return fmt.Sprintf("(GKInt 2 %s)", cZ(k.Num))
	case "int8":
		return fmt.Sprintf("(GKInt 3 %s)", cZ(k.Num))
	case "int16", "int32", "uint", "uint8", "uint16", "uint32":
		return fmt.Sprintf("(GKInt %d %s)", map[string]int{"int16": 4, "int32": 5, "uint": 6, "uint8": 7, "uint16": 8, "uint32": 9}[k.Kind], cZ(k.Num))
	}
	return "GKOther"
}
func (k akey) sortKey() string {
	if k.Kind == "text" {
		return "0" + k.Text
	}
	return fmt.Sprintf("1%020d", k.Num+1<<40)
}

type aattr struct {
	Key  akey
	Crit bool
	Val  any
}

// canonical identity of an attribute value: its JSON / CBOR encoding
func canonValueID(fmtIdx int, v any) int {
	var b []byte
	var err error
	if fmtIdx == 0 {
		b, err = json.Marshal(v)
	} else {
		b, err = cborCanon.Marshal(v)
	}
	if err != nil {
		return -1
	}
	return valueIDs.id(append([]byte{byte('0' + fmtIdx)}, b...))
}

var cborCanon, _ = cbor.CoreDetEncOptions().EncMode()

type areq struct {
	Fmt       int
	Payload   []byte
	Cty       string
	Time      time.Time
	Expiry    time.Time
	Scheme    string
	SignerNil bool
	S         *cfgSigner
	Attrs     []aattr
	Agent     string
	Labels    []string
}

func payloadKind(p []byte) int {
	var v any
	dec := json.NewDecoder(bytes.NewReader(p))
	if err := dec.Decode(&v); err != nil || dec.More() {
		return 4
	}
	switch v.(type) {
	case map[string]any:
		return 1
	case nil:
		return 2
	}
	return 3
}

func ctyOK(s string) bool {
	return len(s) > 0 && s[0] != ' ' && s[len(s)-1] != ' ' && strings.Count(s, "/") == 1
}

func schemeCodeReq(s string) int {
	switch s {
	case "notary.x509":
		return 0
	case "notary.x509.signingAuthority":
		return 1
	case "":
		return 3
	}
	return 2
}

// keyUsable: does the signature library (golang-jwt / go-cose) accept the private key for the
// algorithm of the key spec (library rules, read from their sources)
func keyUsable(fmtIdx int, ks signature.KeySpec, key crypto.PrivateKey) bool {
	cs, ok := key.(crypto.Signer)
	if !ok {
		return false
	}
	want := int(ks.SignatureAlgorithm())
	if want == 0 {
		return false
	}
	switch pub := cs.Public().(type) {
	case *rsa.PublicKey:
		if want > 3 {
			return false
		}
		if fmtIdx == 1 {
			return pub.N.BitLen() >= 2048 // go-cose: any RSA key of at least 2048 bits
		}
		return true // golang-jwt: any RSA key
	case *ecdsa.PublicKey:
		if want < 4 {
			return false
		}
		if fmtIdx == 1 {
			return true // go-cose NewSigner does not compare the curve with the algorithm
		}
		return keyAlgNum(pub) == want // golang-jwt checks the curve size
	}
	return false
}

func caseVariantOfHeader(k string) bool {
	for _, hk := range jwsHeaderKeys {
		if k != hk && strings.EqualFold(k, hk) {
			return true
		}
	}
	return false
}

func (r *areq) signerTerm() (string, string, string) {
	if r.SignerNil {
		return "None", "[]", "[]"
	}
	s := r.S
	ks := "None"
	if !s.ksErr {
		ks = fmt.Sprintf("(Some (KS %s %s))", cZ(int64(s.ks.Type)), cZ(int64(s.ks.Size)))
	}
	chain, sf, ss := "None", "[]", "[]"
	if !s.chainErr && !(s.nilCerts && !s.local) && s.chain != nil {
		chain = "(Some " + chainTerm(s.chain) + ")"
		if len(s.chain) > 0 {
			sf, ss = oracleTerms(s.chain)
		}
	}
	usable := true
	if s.local {
		usable = !s.ksErr && keyUsable(r.Fmt, s.ks, s.key)
	}
	return fmt.Sprintf("(Some (Signer %s %s %s %s))", cB(s.local), ks, chain, cB(usable)), sf, ss
}

func (r *areq) build() *signature.SignRequest {
	req := &signature.SignRequest{
		Payload:       signature.Payload{ContentType: r.Cty, Content: r.Payload},
		SigningTime:   r.Time,
		Expiry:        r.Expiry,
		SigningScheme: signature.SigningScheme(r.Scheme),
		SigningAgent:  r.Agent,
	}
	if !r.SignerNil {
		if r.S.local {
			req.Signer = localCfg{r.S}
		} else {
			req.Signer = remoteCfg{r.S}
		}
	}
	for _, a := range r.Attrs {
		req.ExtendedSignedAttributes = append(req.ExtendedSignedAttributes, signature.Attribute{Key: a.Key.goValue(), Critical: a.Crit, Value: a.Val})
	}
	return req
}

// contentTermCanon: like contentTerm but attribute values identified by their canonical encoding
func contentTermCanon(fmtIdx int, c *signature.EnvelopeContent) string {
	si := c.SignerInfo
	type kv struct {
		sk, term string
	}
	var es []kv
	for _, a := range si.SignedAttributes.ExtendedAttributes {
		var k akey
		switch x := a.Key.(type) {
		case string:
			k = akey{Kind: "text", Text: x}
		case int64:
			k = akey{Kind: "int64", Num: x}
		case int:
			k = akey{Kind: "int64", Num: int64(x)}
		case int8:
			k = akey{Kind: "int64", Num: int64(x)}
		case int16:
			k = akey{Kind: "int64", Num: int64(x)}
		case int32:
			k = akey{Kind: "int64", Num: int64(x)}
		case uint:
			k = akey{Kind: "int64", Num: int64(x)}
		case uint8:
			k = akey{Kind: "int64", Num: int64(x)}
		case uint16:
			k = akey{Kind: "int64", Num: int64(x)}
		case uint32:
			k = akey{Kind: "int64", Num: int64(x)}
		case uint64:
			k = akey{Kind: "int64", Num: int64(x)}
		default:
			k = akey{Kind: "text", Text: fmt.Sprintf("\x00odd-%T-%v", x, x)}
		}
		lab := textLabel(k.Text)
		if k.Kind != "text" {
			lab = intLabel(k.Num)
		}
		es = append(es, kv{k.sortKey(), fmt.Sprintf("(Attr %s %s %d)", lab, cB(a.Critical), canonValueID(fmtIdx, a.Value))})
	}
	sort.Slice(es, func(i, j int) bool { return es[i].sk < es[j].sk })
	var attrs, chain []string
	for _, e := range es {
		attrs = append(attrs, e.term)
	}
	for _, x := range si.CertificateChain {
		chain = append(chain, fmt.Sprint(rawIDs.id(x.Raw)))
	}
	agent := 0
	if si.UnsignedAttributes.SigningAgent != "" {
		agent = strID(si.UnsignedAttributes.SigningAgent)
	}
	return fmt.Sprintf("(Content %d %d %d %s %s %s %d %d %s %d %d)", payloadCanonID(fmtIdx, c.Payload.Content), strID(c.Payload.ContentType), schemeCode(string(si.SignedAttributes.SigningScheme)),
		timeTerm((si.SignedAttributes.SigningTime)), timeTerm((si.SignedAttributes.Expiry)), cList(attrs), int(si.SignatureAlgorithm),
		1, cList(chain), agent, bytesID(si.UnsignedAttributes.TimestampSignature))
}

// payload identity: COSE byte-identical; JWS equal as a JSON value with exact numbers
func payloadCanonID(fmtIdx int, p []byte) int {
	if len(p) == 0 {
		return 0
	}
	if fmtIdx == 1 {
		return bytesID(p)
	}
	var v any
	dec := json.NewDecoder(bytes.NewReader(p))
	dec.UseNumber()
	if dec.Decode(&v) != nil {
		return bytesID(p)
	}
	b, _ := json.Marshal(canonJSON(v)) // maps are marshalled with sorted keys; numbers keep their literal
	return bytesID(append([]byte("json:"), b...))
}

// numbers are compared exactly as decimal values: normalise the literal (1e2 = 100 = 100.0)
func canonJSON(v any) any {
	switch x := v.(type) {
	case json.Number:
		return "\x00num:" + canonNumber(string(x))
	case map[string]any:
		m := map[string]any{}
		for k, e := range x {
			m[k] = canonJSON(e)
		}
		return m
	case []any:
		out := make([]any, len(x))
		for i, e := range x {
			out[i] = canonJSON(e)
		}
		return out
	}
	return v
}

func canonNumber(lit string) string {
	// exact decimal: mantissa digits without leading/trailing zeros, and a power of ten
	neg := strings.HasPrefix(lit, "-")
	lit = strings.TrimPrefix(lit, "-")
	exp := 0
	if i := strings.IndexAny(lit, "eE"); i >= 0 {
		fmt.Sscanf(lit[i+1:], "%d", &exp)
		lit = lit[:i]
	}
	if i := strings.Index(lit, "."); i >= 0 {
		exp -= len(lit) - i - 1
		lit = lit[:i] + lit[i+1:]
	}
	lit = strings.TrimLeft(lit, "0")
	for strings.HasSuffix(lit, "0") {
		lit = lit[:len(lit)-1]
		exp++
	}
	if lit == "" {
		return "0"
	}
	s := fmt.Sprintf("%se%d", lit, exp)
	if neg {
		s = "-" + s
	}
	return s
}

// reqTerm renders the abstract request (Model/Sign.v sreq) and the oracles of the signer's chain
func (r *areq) reqTerm() (string, string, string) {
	// canonical order of the attributes in the abstract request (their order is not observable)
	sorted := append([]aattr{}, r.Attrs...)
	sort.SliceStable(sorted, func(i, j int) bool { return sorted[i].Key.sortKey() < sorted[j].Key.sortKey() })
	var attrTerms []string
	for _, a := range sorted {
		id := canonValueID(r.Fmt, a.Val)
		// encodable: the value encodes, and the envelope can be decoded again (a JWS member name that differs from a
		// specification header only in case is refused by the decoder)
		enc := id >= 0 && !(r.Fmt == 0 && a.Key.Kind == "text" && caseVariantOfHeader(a.Key.Text))
		lossy := false
		if r.Fmt == 0 && id >= 0 { // does the value survive encoding/json's default (float64) decoding?
			b, _ := json.Marshal(a.Val)
			var back any
			if json.Unmarshal(b, &back) == nil {
				lossy = canonValueID(0, back) != id
			}
		}
		attrTerms = append(attrTerms, fmt.Sprintf("(RAttr %s %s %s %s %s)", a.Key.term(), cB(a.Crit), cZ(int64(id)), cB(enc), cB(lossy)))
	}
	signer, sf, ss := r.signerTerm()
	agent := 0
	if r.Agent != "" {
		agent = strID(r.Agent)
	}
	reqTerm := fmt.Sprintf("(SReq %d %d %d %d %s %s %s %d %s %s %d 1)", r.Fmt, payloadCanonID(r.Fmt, r.Payload), payloadKind(r.Payload), strID(r.Cty), cB(ctyOK(r.Cty)),
		timeTerm((r.Time)), timeTerm((r.Expiry)), schemeCodeReq(r.Scheme), signer, cList(attrTerms), agent)
	return reqTerm, sf, ss
}

var nEmitSign int
var warmSignerV signature.Signer

func warmSigner() signature.Signer {
	if warmSignerV == nil {
		ch := basePlan(3, "cs", "ec384").build().xs
		if s, err := signature.NewLocalSigner(ch, Key("ec384")); err == nil {
			warmSignerV = s
		}
	}
	return warmSignerV
}

type ctxKey struct{}

func emitSign(w *CaseWriter, r *areq) {
	mt := mediaTypes[r.Fmt]
	reqTerm, sf, ss := r.reqTerm()
	// run the implementation
	out, verify, tbsOK, objOK := 0, "None", true, true
	var panicMsg, errMsg string
	func() {
		defer func() {
			if p := recover(); p != nil {
				out = 2
				panicMsg = fmt.Sprint(p)
			}
		}()
		env, err := signature.NewEnvelope(mt)
		if err != nil {
			panic(err)
		}
		req := r.build()
		nEmitSign++
		if nEmitSign%2 == 0 { // every other request travels as the copy WithContext makes (it must carry all fields)
			req = req.WithContext(context.WithValue(context.Background(), ctxKey{}, nEmitSign))
		}
		noteCurrentCase(map[string]any{"labels": r.Labels, "media_type": mt})
		if nEmitSign%3 == 0 {
			// the object has a past: it was signed, verified and read with another signer (another chain and key type) before
			if ws := warmSigner(); ws != nil {
				wr := goodReq(8)
				wr.Signer = ws
				env.Sign(wr)
				env.Verify()
				env.Content()
			}
		}
		b, err := env.Sign(req)
		switch {
		case err != nil && b != nil:
			out, errMsg = 3, err.Error()
		case err != nil:
			out, errMsg = 0, err.Error()
		default:
			out = 1
			p, perr := signature.ParseEnvelope(mt, b)
			if perr == nil {
				if c, verr := p.Verify(); verr == nil {
					verify = "(Some " + contentTermCanon(r.Fmt, c) + ")"
					if c2, cerr := env.Content(); cerr != nil || contentTermCanon(r.Fmt, c2) != contentTermCanon(r.Fmt, c) {
						objOK = false
					}
				} else {
					errMsg = "verify: " + verr.Error()
				}
			} else {
				errMsg = "parse: " + perr.Error()
			}
			if !r.SignerNil && !r.S.local { // the bytes the external signer saw = the bytes verification checks
				tbsOK = len(r.S.recorded) == 1 && bytes.Equal(r.S.recorded[0], tbsOf(r.Fmt, b))
			}
		}
	}()
	honest := !r.SignerNil && r.S.chain != nil && len(r.S.chain) > 0
	if honest {
		var k crypto.PrivateKey = r.S.signKey
		if r.S.local {
			k = r.S.key
		}
		cs, ok := k.(crypto.Signer)
		honest = ok && publicKeysEqual(cs.Public(), r.S.chain[0].PublicKey)
	}
	ctorWrong := false
	if !r.SignerNil && len(r.S.chain) > 0 {
		ctorWrong = localSignerAcceptsWrongKey(r.S.chain)
	}
	term := fmt.Sprintf("(mk @ID@ %s %s %s %d %s %s %s %s %s)", reqTerm, sf, ss, out, verify, cB(tbsOK), cB(objOK), cB(honest), cB(ctorWrong))
	cls := []string{"error", "envelope", "panic", "error+bytes"}[out]
	desc := map[string]any{"media_type": mt, "labels": r.Labels, "impl": cls, "impl_error": errMsg, "panic": panicMsg, "verified": verify != "None", "tbs_ok": tbsOK, "obj_ok": objOK,
		"payload": string(r.Payload), "time": r.Time.String(), "expiry": r.Expiry.String(), "scheme": r.Scheme, "cty": r.Cty, "n_attrs": len(r.Attrs)}
	for _, l := range r.Labels {
		w.Count("chg:" + l)
	}
	w.Count(fmt.Sprintf("fmt:%d", r.Fmt))
	w.Emit(term, desc, fmt.Sprintf("fmt%d/%s", r.Fmt, cls), len(r.Labels) > 0)
}

// tbsOf: the to-be-signed bytes of a produced envelope (independent computation)
func tbsOf(fmtIdx int, env []byte) []byte {
	if fmtIdx == 0 {
		var e vJWSEnvelope
		if json.Unmarshal(env, &e) != nil {
			return nil
		}
		return []byte(e.Protected + "." + e.Payload)
	}
	var raw []cbor.RawMessage
	body := env
	if len(body) > 0 && body[0] == 0xd2 {
		body = body[1:]
	}
	if cbor.Unmarshal(body, &raw) != nil || len(raw) != 4 {
		return nil
	}
	var prot, payload []byte
	cbor.Unmarshal(raw[0], &prot)
	cbor.Unmarshal(raw[2], &payload)
	return sigStructure(prot, payload)
}

var _ = base64.StdEncoding
var _ = cose.MediaTypeEnvelope
var _ = jws.MediaTypeEnvelope

// ---------- generator ----------
type change struct {
	name   string
	benign bool
	fmt    int // -1 both
	f      func(r *areq)
}

func signChanges() []change {
	f := envFixtureGet()
	leaf := f.chain[0]
	var cs []change
	add := func(name string, benign bool, fm int, fn func(*areq)) { cs = append(cs, change{name, benign, fm, fn}) }
	add("payload-empty", false, -1, func(r *areq) { r.Payload = nil })
	add("payload-null", false, 0, func(r *areq) { r.Payload = []byte("null") })
	add("payload-array", false, 0, func(r *areq) { r.Payload = []byte(`[{"a":1}]`) })
	add("payload-string", false, 0, func(r *areq) { r.Payload = []byte(`"str"`) })
	add("payload-not-json", false, 0, func(r *areq) { r.Payload = []byte(`{"a":1} trailing`) })
	add("payload-binary", true, 1, func(r *areq) { r.Payload = []byte{0, 1, 2, 0xff, 0xfe} })
	add("payload-big-numbers", true, 0, func(r *areq) {
		r.Payload = []byte(`{"size":12345678901234567890,"e":1e2,"f":0.10,"neg":-9007199254740993,"esc":"é\n","nested":{"a":[1,2.50,{"b":null}]},"dup":1,"dup":2}`)
	})
	add("payload-claim-like-members", true, 0, func(r *areq) {
		r.Payload = []byte(`{"exp":1,"nbf":99999999999,"iat":99999999999,"aud":["x"],"iss":5,"sub":null,"jti":{},"targetArtifact":{"size":1}}`)
	})
	add("payload-exp-not-numeric", true, 0, func(r *areq) { r.Payload = []byte(`{"exp":"never","nbf":"soon","iat":true}`) })
	add("time-zero", false, -1, func(r *areq) { r.Time = time.Time{} })
	add("time-subsecond", true, -1, func(r *areq) { r.Time = r.Time.Add(987654321) })
	add("time-zone", true, -1, func(r *areq) { r.Time = r.Time.In(time.FixedZone("z", -7*3600)) })
	add("expiry-same-second", false, -1, func(r *areq) { r.Expiry = r.Time.Add(700 * time.Millisecond) })
	add("expiry==time-other-zone", false, -1, func(r *areq) { r.Expiry = r.Time.UTC(); r.Time = r.Time.In(time.FixedZone("e", 5*3600+45*60)) })
	add("expiry==time-local-vs-utc", false, -1, func(r *areq) { r.Expiry = r.Time.In(time.FixedZone("w", -3*3600-1800)); r.Time = r.Time.UTC() })
	add("expiry-same-second-other-zone", false, -1, func(r *areq) { r.Expiry = r.Time.Add(400 * time.Millisecond).In(time.FixedZone("n", 3600)) })
	add("expiry-before", false, -1, func(r *areq) { r.Expiry = r.Time.Add(-time.Hour) })
	add("expiry-next-second", true, -1, func(r *areq) { r.Expiry = r.Time.Truncate(time.Second).Add(time.Second + 5) })
	add("expiry-year-9999", true, -1, func(r *areq) { r.Expiry = time.Date(9999, 12, 31, 23, 59, 59, 0, time.UTC) })
	add("expiry-year-2300", true, -1, func(r *areq) { r.Expiry = time.Date(2300, 1, 1, 0, 0, 0, 0, time.UTC) })
	add("expiry-year-2640", true, -1, func(r *areq) { r.Expiry = time.Date(2640, 1, 2, 3, 4, 5, 0, time.UTC) })
	add("expiry-2262-04-12", true, -1, func(r *areq) { r.Expiry = time.Date(2262, 4, 12, 0, 0, 0, 0, time.UTC) })
	add("expiry-none", true, -1, func(r *areq) { r.Expiry = time.Time{} })
	add("scheme-empty", false, -1, func(r *areq) { r.Scheme = "" })
	add("scheme-other", false, -1, func(r *areq) { r.Scheme = "notary.x509.something" })
	add("scheme-sa", true, -1, func(r *areq) { r.Scheme = "notary.x509.signingAuthority" })
	add("signer-nil", false, -1, func(r *areq) { r.SignerNil = true })
	add("signer-keyspec-error", false, -1, func(r *areq) { r.S.ksErr = true })
	add("signer-keyspec-rsa1024", false, -1, func(r *areq) { r.S.ks = signature.KeySpec{Type: signature.KeyTypeRSA, Size: 1024} })
	add("signer-keyspec-ec224", false, -1, func(r *areq) { r.S.ks = signature.KeySpec{Type: signature.KeyTypeEC, Size: 224} })
	add("signer-keyspec-type0", false, -1, func(r *areq) { r.S.ks = signature.KeySpec{Type: 0, Size: 256} })
	add("signer-keyspec-mismatch-ec384", false, -1, func(r *areq) {
		r.S.ks = signature.KeySpec{Type: signature.KeyTypeEC, Size: 384}
		r.S.signAlg = "ES384"
	})
	add("signer-chain-error", false, -1, func(r *areq) { r.S.chainErr = true })
	add("signer-nil-certs", false, -1, func(r *areq) { r.S.nilCerts = true; r.S.local = false })
	add("signer-empty-certs", false, -1, func(r *areq) { r.S.chain = []*x509.Certificate{} })
	add("signer-remote", true, -1, func(r *areq) { r.S.local = false; r.S.scribble = true })
	add("signer-local-key-not-signer", false, -1, func(r *areq) { r.S.local = true; r.S.key = notASigner{1} })
	add("signer-local-wrong-key-type", false, -1, func(r *areq) { r.S.local = true; r.S.key = Key("rsa2048a") })
	add("signer-local-wrong-curve", false, -1, func(r *areq) { r.S.local = true; r.S.key = Key("ec384") })
	add("signer-local-ed25519-key", false, -1, func(r *areq) { r.S.local = true; r.S.key = Key("ed25519") })
	add("chain-ts-leaf", false, -1, func(r *areq) { r.S.chain = basePlan(2, "ts", "ec256b").build().xs })
	add("chain-reversed", false, -1, func(r *areq) {
		if len(r.S.chain) > 0 {
			r.S.chain = []*x509.Certificate{r.S.chain[len(r.S.chain)-1], r.S.chain[0]}
		}
	})
	add("chain-3", true, -1, func(r *areq) { r.S.chain = basePlan(3, "cs", "ec256b").build().xs })
	add("chain-1-selfsigned", true, -1, func(r *areq) { r.S.chain = basePlan(1, "cs", "ec256b").build().xs })
	add("chain-leaf-other-key", false, -1, func(r *areq) { r.S.chain = basePlan(2, "cs", "ec384").build().xs })
	add("time=leaf.NotBefore", true, -1, func(r *areq) { r.Time = leaf.NotBefore })
	add("time=leaf.NotBefore-1ns", false, -1, func(r *areq) { r.Time = leaf.NotBefore.Add(-1) })
	add("time=leaf.NotAfter+999ms", true, -1, func(r *areq) { r.Time = leaf.NotAfter.Add(999 * time.Millisecond); r.Expiry = time.Time{} })
	add("time=leaf.NotAfter+1s", false, -1, func(r *areq) { r.Time = leaf.NotAfter.Add(time.Second); r.Expiry = time.Time{} })
	add("time=root.NotBefore-1s", false, -1, func(r *areq) { r.Time = f.chain[1].NotBefore.Add(-time.Second) })
	add("cty-empty", false, 1, func(r *areq) { r.Cty = "" })
	add("cty-noslash", false, 1, func(r *areq) { r.Cty = "noslash" })
	add("cty-padded", false, 1, func(r *areq) { r.Cty = " a/b" })
	add("cty-two-slashes", false, 1, func(r *areq) { r.Cty = "a/b/c" })
	add("cty-odd", true, 0, func(r *areq) { r.Cty = "" })
	add("agent", true, -1, func(r *areq) { r.Agent = "tool/2.0 (x)" })
	// extended attributes
	A := func(name string, benign bool, fm int, as ...aattr) {
		add(name, benign, fm, func(r *areq) { r.Attrs = append(r.Attrs, as...) })
	}
	A("attr-text", true, -1, aattr{akey{Kind: "text", Text: "com.example.one"}, false, "v1"})
	A("attr-text-crit", true, -1, aattr{akey{Kind: "text", Text: "com.example.two"}, true, int64(42)})
	A("attr-values-json", true, 0, aattr{akey{Kind: "text", Text: "x.obj"}, false, map[string]any{"k": []any{true, nil, "s"}}}, aattr{akey{Kind: "text", Text: "x.float"}, true, 1.5}, aattr{akey{Kind: "text", Text: "x.null"}, false, nil})
	A("attr-values-cbor", true, 1, aattr{akey{Kind: "text", Text: "x.map"}, false, map[any]any{"k": []any{true, nil, "s"}}}, aattr{akey{Kind: "text", Text: "x.bstr"}, true, []byte{1, 2}}, aattr{akey{Kind: "text", Text: "x.neg"}, false, int64(-7)})
	A("attr-number-beyond-2^53", true, 0, aattr{akey{Kind: "text", Text: "x.big"}, false, uint64(12345678901234567890)})
	A("attr-notary-namespace", true, -1, aattr{akey{Kind: "text", Text: "io.cncf.notary.verificationPlugin"}, true, "com.example.plugin"}, aattr{akey{Kind: "text", Text: "io.cncf.notary.verificationPluginMinVersion"}, false, "1.0.0"})
	A("attr-looks-like-spec", true, -1, aattr{akey{Kind: "text", Text: "io.cncf.notary.expiryDate"}, false, "x"}, aattr{akey{Kind: "text", Text: "algorithm"}, true, "y"})
	A("attr-case-fold-pair", true, -1, aattr{akey{Kind: "text", Text: "BuildID"}, false, "a"}, aattr{akey{Kind: "text", Text: "buildid"}, true, "b"})
	A("attr-case-fold-pair-2", true, -1, aattr{akey{Kind: "text", Text: "com.example.Tag"}, true, int64(1)}, aattr{akey{Kind: "text", Text: "COM.EXAMPLE.TAG"}, false, int64(2)})
	A("attr-dup-text", false, -1, aattr{akey{Kind: "text", Text: "dup.key"}, false, "a"}, aattr{akey{Kind: "text", Text: "dup.key"}, true, "b"})
	for _, k := range []string{"alg", "cty", "crit", kExp, kST, kScheme, kAST} {
		k := k
		benign := false
		A("attr-key-"+strings.TrimPrefix(k, "io.cncf.notary."), benign, 0, aattr{akey{Kind: "text", Text: k}, false, "2099-01-01T00:00:00Z"})
		if k == "alg" || k == "cty" || k == "crit" {
			A("attr-key-text-"+k, true, 1, aattr{akey{Kind: "text", Text: k}, false, "plain text label"})
		} else {
			A("attr-key-"+strings.TrimPrefix(k, "io.cncf.notary."), false, 1, aattr{akey{Kind: "text", Text: k}, true, cborTag1Int(4102444800)})
		}
	}
	A("attr-key-expiry-crit", false, 0, aattr{akey{Kind: "text", Text: kExp}, true, "2099-01-01T00:00:00Z"})
	A("attr-key-case-variant", false, 0, aattr{akey{Kind: "text", Text: "ALG"}, false, "x"})
	for _, kind := range []string{"int", "int64", "uint64", "int8", "int16", "int32", "uint", "uint8", "uint16", "uint32"} {
		for _, n := range []int64{1, 2, 3} {
			A(fmt.Sprintf("attr-key-%s(%d)", kind, n), false, 1, aattr{akey{Kind: kind, Num: n}, false, "v"})
		}
		A(fmt.Sprintf("attr-key-%s(100)", kind), true, 1, aattr{akey{Kind: kind, Num: 100}, true, "v"})
		A(fmt.Sprintf("attr-key-%s(4)", kind), true, 1, aattr{akey{Kind: kind, Num: 4}, false, []byte("kid")})
		A(fmt.Sprintf("attr-key-%s(0)", kind), true, 1, aattr{akey{Kind: kind, Num: 0}, true, "v"})
		A(fmt.Sprintf("attr-key-%s(100)", kind), false, 0, aattr{akey{Kind: kind, Num: 100}, false, "v"})
	}
	A("attr-key-int(-300)", true, 1, aattr{akey{Kind: "int", Num: -300}, false, []any{int64(1)}})
	A("attr-key-int+int64-same", false, 1, aattr{akey{Kind: "int", Num: 200}, false, "a"}, aattr{akey{Kind: "int64", Num: 200}, false, "b"})
	A("attr-key-int-and-text-same-spelling", true, 1, aattr{akey{Kind: "int64", Num: 201}, true, "a"}, aattr{akey{Kind: "text", Text: "201"}, false, "b"})
	for _, kind := range []string{"float", "bool", "bytes", "map", "nil"} {
		A("attr-key-"+kind, false, -1, aattr{akey{Kind: kind}, false, "v"})
	}
	return cs
}

func baseReq(fmtIdx int) *areq {
	f := envFixtureGet()
	return &areq{Fmt: fmtIdx, Payload: []byte(`{"targetArtifact":{"digest":"sha256:11","size":7}}`), Cty: payloadCT, Time: baseTime, Expiry: baseTime.Add(48 * time.Hour),
		Scheme: "notary.x509", S: &cfgSigner{local: true, ks: signature.KeySpec{Type: signature.KeyTypeEC, Size: 256}, chain: f.chain, key: Key("ec256b"), signKey: Key("ec256b"), signAlg: "ES256"}}
}

func applyChange(r *areq, c change) bool {
	if c.fmt >= 0 && c.fmt != r.Fmt {
		return false
	}
	if r.SignerNil && strings.HasPrefix(c.name, "signer-") {
		return false
	}
	c.f(r)
	r.Labels = append(r.Labels, c.name)
	return true
}

func genSign(prop, tier string, rng *RNG, w *CaseWriter) {
	w.ShardSize = 150
	chs := signChanges()
	w.Extra["changes"] = len(chs)
	for fi := 0; fi < 2; fi++ {
		emitSign(w, baseReq(fi))
		for _, c := range chs {
			r := baseReq(fi)
			if applyChange(r, c) {
				emitSign(w, r)
			}
			// the same change with an external signer and with the other scheme
			r2 := baseReq(fi)
			r2.S.local = false
			r2.S.scribble = true
			r2.Scheme = "notary.x509.signingAuthority"
			r2.Labels = []string{"signer-remote", "scheme-sa"}
			if applyChange(r2, c) {
				emitSign(w, r2)
			}
		}
	}
	// every specification-defined text label as an attribute key, whether or not the header it collides with is
	// going to be written for this request (expiry unset; the other scheme's time header), critical or not, with a
	// value of the header's own kind or a plain string: always an invalid request
	for fi := 0; fi < 2; fi++ {
		for _, scheme := range []string{"notary.x509", "notary.x509.signingAuthority"} {
			for _, withExp := range []bool{true, false} {
				for _, k := range []string{kExp, kST, kScheme, kAST, "alg", "cty", "crit"} {
					for _, crit := range []bool{true, false} {
						for vi := 0; vi < 2; vi++ {
							if fi == 1 && (k == "alg" || k == "cty" || k == "crit") {
								continue // plain text labels in COSE (the integer labels are in the single changes)
							}
							var val any = "plain"
							if vi == 0 {
								if fi == 0 {
									val = "2099-01-01T00:00:00Z"
								} else {
									val = cborTag1Int(4102444800)
								}
								if k == kScheme {
									val = scheme
								}
							}
							r := baseReq(fi)
							r.Scheme = scheme
							if !withExp {
								r.Expiry = time.Time{}
							}
							r.Attrs = []aattr{{akey{Kind: "text", Text: k}, crit, val}}
							r.Labels = []string{"reserved-key-grid", "key=" + strings.TrimPrefix(k, "io.cncf.notary."), fmt.Sprintf("crit=%v exp=%v", crit, withExp), "scheme=" + scheme}
							emitSign(w, r)
						}
					}
				}
			}
		}
	}
	every := 5
	if tier == "thorough" {
		every = 1
	}
	n := 0
	for fi := 0; fi < 2; fi++ {
		for i, a := range chs {
			for j, b := range chs {
				if i >= j {
					continue
				}
				n++
				if n%every != 0 {
					continue
				}
				r := baseReq(fi)
				if applyChange(r, a) && applyChange(r, b) {
					emitSign(w, r)
				}
			}
		}
	}
	// the six key specs, local and remote
	for fi := 0; fi < 2; fi++ {
		for _, kn := range []string{"rsa2048a", "rsa3072", "rsa4096", "ec256b", "ec384", "ec521"} {
			for _, local := range []bool{true, false} {
				r := baseReq(fi)
				ch := basePlan(2, "cs", kn).build().xs
				ks := trueKeySpec(Key(kn))
				r.S = &cfgSigner{local: local, ks: ks, chain: ch, key: Key(kn), signKey: Key(kn), signAlg: numJose[int(ks.SignatureAlgorithm())], scribble: !local}
				r.Labels = []string{"key=" + kn, fmt.Sprintf("local=%v", local)}
				r.Attrs = []aattr{{akey{Kind: "text", Text: "com.example.k"}, true, kn}}
				emitSign(w, r)
			}
		}
	}
	_ = prop
	_ = rng
}

func publicKeysEqual(a, b crypto.PublicKey) bool {
	type eq interface{ Equal(crypto.PublicKey) bool }
	if x, ok := a.(eq); ok {
		return x.Equal(b)
	}
	return false
}

var ctorWrongCache = map[int]bool{}

// localSignerAcceptsWrongKey: does signature.NewLocalSigner accept the chain together with a private key that
// is not the key of its leaf certificate (another key of the same type; for RSA also the same modulus with
// another public exponent)?
func localSignerAcceptsWrongKey(chain []*x509.Certificate) bool {
	id := rawIDs.id(chain[0].Raw)
	if v, ok := ctorWrongCache[id]; ok {
		return v
	}
	res := false
	for _, kn := range keyNames {
		k := Key(kn)
		if publicKeysEqual(k.Public(), chain[0].PublicKey) {
			if rk, ok := k.(*rsa.PrivateKey); ok {
				if twin := rsaTwin(rk); twin != nil {
					if _, err := signature.NewLocalSigner(chain, twin); err == nil {
						res = true
					}
				}
			}
			continue
		}
		if _, err := signature.NewLocalSigner(chain, k); err == nil {
			res = true
		}
	}
	ctorWrongCache[id] = res
	return res
}
