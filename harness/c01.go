package main

import (
	"crypto/rsa"
	"strings"
	"time"

	"crypto/x509"
	"encoding/base64"
	"encoding/json"
	"fmt"
	"github.com/notaryproject/notation-core-go/signature"

	"github.com/notaryproject/notation-core-go/signature/cose"
	"github.com/notaryproject/notation-core-go/signature/jws"
)

func init() { register("C01", "Run.C01", genC01) }

type builtEnv struct {
	plan  *hplan
	bytes []byte
	mt    string
	// components
	jP, jL string // JWS protected / payload (base64url text)
	cP, cL []byte // COSE protected bytes / payload
	sig    []byte
	chain  []*x509.Certificate
}

func buildEnv(fi int, key string, chainLen int, payload string, scheme string) *builtEnv {
	p := basePlanEnv(fi, scheme, true)
	p.Chain = basePlan(chainLen, "cs", key).build().xs
	p.SignWith, p.LeafKey = Key(key), key
	alg := numJose[keyAlgNum(Key(key).Public())]
	p.DeclAlg, p.SignAlg = alg, alg
	p.Payload = []byte(payload)
	p.Attrs = []hattr{{TextKey: "com.example.build", Raw: `"` + key + `"`, Val: key, Crit: true}}
	be := &builtEnv{plan: p, chain: p.Chain}
	if fi == 0 {
		s := p.buildJWS()
		b, err := s.encode()
		if err != nil {
			panic(err)
		}
		be.bytes, be.mt = b, jws.MediaTypeEnvelope
		be.jP = s.protectedB64()
		be.jL = base64.RawURLEncoding.EncodeToString(s.Payload)
		v := viewJWSsig(b)
		be.sig = v
	} else {
		s := p.buildCOSE()
		pb := s.protectedBytes()
		sig, err := signRaw(s.SignAlg, s.SignKey, sigStructure(pb, s.Payload))
		if err != nil {
			panic(err)
		}
		s.Sig = sig
		b, _ := s.encode()
		be.bytes, be.mt = b, cose.MediaTypeEnvelope
		be.cP, be.cL, be.sig = pb, s.Payload, sig
	}
	return be
}

func viewJWSsig(b []byte) []byte {
	var e vJWSEnvelope
	if err := json.Unmarshal(b, &e); err != nil {
		panic(err)
	}
	sig, _ := base64.RawURLEncoding.DecodeString(e.Signature)
	return sig
}

// splice builds an envelope whose four components come from a (false) or b (true)
func splice(a, b *builtEnv, pP, pL, pS, pX bool) ([]byte, string) {
	pick := func(c bool) *builtEnv {
		if c {
			return b
		}
		return a
	}
	if a.mt == jws.MediaTypeEnvelope {
		s := &jwsSpec{}
		pb, lb := pick(pP).jP, pick(pL).jL
		s.ProtectedB64, s.PayloadB64 = &pb, &lb
		s.Sig = pick(pS).sig
		for _, c := range pick(pX).chain {
			s.Chain = append(s.Chain, c.Raw)
		}
		out, _ := s.encode()
		return out, a.mt
	}
	s := &coseSpec{ProtectedBytes: pick(pP).cP, Payload: pick(pL).cL, Sig: pick(pS).sig}
	var chain []any
	for _, c := range pick(pX).chain {
		chain = append(chain, c.Raw)
	}
	s.Unprotected = []cEntry{{int64(33), chain}}
	out, _ := s.encode()
	return out, a.mt
}

func genC01(tier string, rng *RNG, w *CaseWriter) {
	w.ShardSize = 150
	keys := []string{"ec256b", "rsa2048a"}
	if tier == "thorough" {
		keys = []string{"ec256b", "rsa2048a", "ec384", "ec521", "rsa3072", "rsa4096"}
	}
	for fi := 0; fi < 2; fi++ {
		var envs []*builtEnv
		for _, k := range keys {
			for _, n := range []int{1, 2, 3} {
				e := buildEnv(fi, k, n, fmt.Sprintf(`{"subject":"%s-%d"}`, k, n), []string{"notary.x509", "notary.x509.signingAuthority"}[n%2])
				envs = append(envs, e)
				emitEnvelope(w, e.mt, e.bytes, []string{"valid", "key=" + k, fmt.Sprintf("chain=%d", n)}, 2)
			}
		}
		// (i) splices: components of two valid envelopes in every combination
		A := buildEnv(fi, "ec256b", 2, `{"subject":"A"}`, "notary.x509")
		B := buildEnv(fi, "ec256c", 2, `{"subject":"B"}`, "notary.x509")   // same key type, other key
		C := buildEnv(fi, "ec256b", 2, `{"subject":"C"}`, "notary.x509")   // same key, other payload
		D := buildEnv(fi, "ec256b", 3, `{"subject":"A"}`, "notary.x509")   // same key and content, other chain (re-issued leaf)
		E := buildEnv(fi, "rsa2048a", 2, `{"subject":"E"}`, "notary.x509") // other key type
		for _, pair := range [][2]*builtEnv{{A, B}, {A, C}, {A, D}, {A, E}, {B, A}, {E, A}} {
			for m := 0; m < 16; m++ {
				b, mt := splice(pair[0], pair[1], m&1 != 0, m&2 != 0, m&4 != 0, m&8 != 0)
				exp := 0
				if m == 0 || m == 15 {
					exp = 2
				}
				emitEnvelope(w, mt, b, []string{fmt.Sprintf("splice-%04b", m)}, exp)
			}
		}
		// (ii) unsigned parts may vary
		for _, e := range envs[:3] {
			p := *e.plan
			p.Agent, p.TS = "another-agent/1.0", []byte{9, 9, 9}
			if b, mt, err := p.encode(); err == nil {
				// the signature is recomputed (ECDSA/PSS are randomised) but the signed parts are unchanged
				emitEnvelope(w, mt, b, []string{"unsigned-agent+ts"}, 2)
			}
			if fi == 0 {
				s := e.plan.buildJWS()
				s.ExtraHeader = []jMember{{"x-unprotected", `{"any":"thing"}`}}
				s.ExtraTop = []jMember{{"unknown-top-level", `[1,2]`}}
				if b, err := s.encode(); err == nil {
					emitEnvelope(w, e.mt, b, []string{"unsigned-extra-members"}, 2)
					emitEnvelope(w, e.mt, append([]byte(" \n\t"), append(b, ' ', '\n')...), []string{"outer-whitespace"}, 2)
				}
			} else {
				s := e.plan.buildCOSE()
				s.Unprotected = append(s.Unprotected, cEntry{"x-unprotected", []any{int64(1), "two"}}, cEntry{int64(4), []byte("kid")})
				if b, err := s.encode(); err == nil {
					emitEnvelope(w, e.mt, b, []string{"unsigned-extra-headers"}, 2)
				}
			}
		}
		// (ii-b) unsigned members of the wrong kind, and signed-looking members placed among the unsigned ones
		for _, d := range deviations() {
			if !strings.HasPrefix(d.name, "unsigned-") && !strings.Contains(d.name, "-unsigned") && !strings.HasPrefix(d.name, "case-variant") && !strings.HasPrefix(d.name, "cty-") {
				continue
			}
			for _, e := range envs[:2] {
				p := *e.plan
				p.jMut, p.cMut, p.Labels = nil, nil, nil
				if !applyDev(&p, d) {
					continue
				}
				if b, mt, err := p.encode(); err == nil {
					emitEnvelope(w, mt, b, []string{d.name}, 0)
				}
			}
		}
		// (ii-c) an object with a history: a valid envelope is parsed and verified, then the same object signs a new
		// request through an external signer whose signature was made with ANOTHER key (it returns the victim's
		// chain), then it is verified again.  The bytes the second Sign returned are the case's envelope; the
		// implementation outputs are those of the object itself.
		for _, e := range envs[:2] {
			e := e
			env, err := signature.ParseEnvelope(e.mt, e.bytes)
			if err != nil {
				continue
			}
			_, v1 := env.Verify()
			liar := remoteCfg{&cfgSigner{ks: trueKeySpec(e.plan.SignWith), chain: e.chain, signKey: Key("ec256c"), signAlg: "ES256"}}
			if _, isRSA := e.plan.SignWith.Public().(*rsa.PublicKey); isRSA {
				liar.signKey, liar.signAlg = Key("rsa2048b"), "PS256"
			}
			req := &signature.SignRequest{Payload: signature.Payload{ContentType: payloadCT, Content: []byte(`{"forged":true}`)}, Signer: liar,
				SigningTime: baseTime, SigningScheme: signature.SigningSchemeX509}
			b2, serr := env.Sign(req)
			if v1 != nil || serr != nil || len(b2) == 0 {
				w.Count("history-scenario-skipped")
				continue
			}
			emitEnvelopeOut(w, e.mt, b2, []string{"history:verify,sign-with-lying-signer,verify"}, 0, "%s", func() (out implEnvOut) {
				out.Verify, out.Content = "None", "None"
				defer func() {
					if r := recover(); r != nil {
						out.Panicked, out.PanicMsg = true, fmt.Sprint(r)
					}
				}()
				out.ParseOK = true
				if c, err := env.Verify(); err == nil && c != nil {
					t, _ := contentTerm(c)
					out.Verify = "(Some " + t + ")"
				} else {
					out.VerifyErr = errClass(err)
				}
				if c, err := env.Content(); err == nil && c != nil {
					t, _ := contentTerm(c)
					out.Content = "(Some " + t + ")"
				} else {
					out.ContErr = errClass(err)
				}
				return
			})
		}
		// (ii-d) the same with an honest signer and another payload: what the object returns afterwards is the decoding
		// of the bytes its second Sign returned, not of what it held before
		for _, e := range envs[:3] {
			e := e
			env, err := signature.ParseEnvelope(e.mt, e.bytes)
			if err != nil {
				continue
			}
			env.Verify()
			env.Content()
			ls, lerr := signature.NewLocalSigner(e.chain, e.plan.SignWith)
			if lerr != nil {
				continue
			}
			req := &signature.SignRequest{Payload: signature.Payload{ContentType: "application/vnd.example.second+json", Content: []byte(`{"second":"signing"}`)}, Signer: ls,
				SigningTime: baseTime.Add(time.Hour), SigningScheme: signature.SigningSchemeX509SigningAuthority,
				ExtendedSignedAttributes: []signature.Attribute{{Key: "vendor.second", Critical: true, Value: "yes"}}}
			b2, serr := env.Sign(req)
			if serr != nil || len(b2) == 0 {
				w.Count("history-scenario-skipped")
				continue
			}
			emitEnvelopeOut(w, e.mt, b2, []string{"history:verify,content,sign-again,verify"}, 2, "%s", func() (out implEnvOut) {
				out.Verify, out.Content = "None", "None"
				defer func() {
					if r := recover(); r != nil {
						out.Panicked, out.PanicMsg = true, fmt.Sprint(r)
					}
				}()
				out.ParseOK = true
				if c, err := env.Verify(); err == nil && c != nil {
					t, _ := contentTerm(c)
					out.Verify = "(Some " + t + ")"
				} else {
					out.VerifyErr = errClass(err)
				}
				if c, err := env.Content(); err == nil && c != nil {
					t, _ := contentTerm(c)
					out.Content = "(Some " + t + ")"
				} else {
					out.ContErr = errClass(err)
				}
				return
			})
		}
		// (iii) leaf substitution by look-alikes: same subject and issuer, other key
		{
			twin := basePlan(2, "cs", "ec256c").build().xs // same names as A's chain, leaf holds another key
			s := [2]*builtEnv{A, {chain: twin}}
			_ = s
			bx := &builtEnv{mt: A.mt, jP: A.jP, jL: A.jL, cP: A.cP, cL: A.cL, sig: A.sig, chain: []*x509.Certificate{twin[0], A.chain[1]}}
			b, mt := splice(A, bx, false, false, false, true)
			emitEnvelope(w, mt, b, []string{"leaf-substituted-lookalike"}, 0)
		}
		// (iii-b) certificates in places the verifier must not consult: an attacker signs and puts the own
		// certificate where a lenient verifier might look, while the reported chain stays the victim's
		if fi == 1 {
			att := basePlan(2, "cs", "ec256c").build().xs
			for _, where := range []string{"protected-x5chain", "protected-x5bag", "unprotected-x5bag", "protected-x5chain-single"} {
				p := basePlanEnv(1, "notary.x509", false)
				p.Payload = []byte(`{"subject":"forged"}`)
				p.SignWith = Key("ec256c")
				attChain := []any{att[0].Raw, att[1].Raw}
				switch where {
				case "protected-x5chain":
					p.cMut = append(p.cMut, func(s *coseSpec) { s.Protected = append(s.Protected, cEntry{int64(33), attChain}) })
				case "protected-x5chain-single":
					p.cMut = append(p.cMut, func(s *coseSpec) { s.Protected = append(s.Protected, cEntry{int64(33), att[0].Raw}) })
				case "protected-x5bag":
					p.cMut = append(p.cMut, func(s *coseSpec) { s.Protected = append(s.Protected, cEntry{int64(32), attChain}) })
				case "unprotected-x5bag":
					p.cMut = append(p.cMut, func(s *coseSpec) { s.Unprotected = append([]cEntry{{int64(32), attChain}}, s.Unprotected...) })
				}
				if b, mt, err := p.encode(); err == nil {
					emitEnvelope(w, mt, b, []string{"attacker-cert-" + where}, 0)
				}
			}
		} else {
			att := basePlan(2, "cs", "ec256c").build().xs
			for _, where := range []string{"protected-x5c", "top-level-x5c", "jwk-in-protected"} {
				p := basePlanEnv(0, "notary.x509", false)
				p.Payload = []byte(`{"subject":"forged"}`)
				p.SignWith = Key("ec256c")
				x5c := `["` + base64.StdEncoding.EncodeToString(att[0].Raw) + `","` + base64.StdEncoding.EncodeToString(att[1].Raw) + `"]`
				switch where {
				case "protected-x5c":
					p.jMut = append(p.jMut, jAdd("x5c", x5c))
				case "top-level-x5c":
					p.jMut = append(p.jMut, func(s *jwsSpec) { s.ExtraTop = append(s.ExtraTop, jMember{"x5c", x5c}) })
				case "jwk-in-protected":
					p.jMut = append(p.jMut, jAdd("jwk", `{"kty":"EC","crv":"P-256","x":"AA","y":"AA"}`))
				}
				if b, mt, err := p.encode(); err == nil {
					emitEnvelope(w, mt, b, []string{"attacker-cert-" + where}, 0)
				}
			}
		}
		// (iv) single-bit mutations of valid envelopes
		stride := 5
		if tier == "thorough" {
			stride = 1
		}
		for ei, e := range []*builtEnv{A, envs[0], E} {
			if ei == 2 && tier != "thorough" {
				stride = 23
			}
			for pos := 0; pos < len(e.bytes); pos += stride {
				bit := uint(rng.Intn(8))
				m := append([]byte{}, e.bytes...)
				m[pos] ^= 1 << bit
				emitEnvelope(w, e.mt, m, []string{"bitflip"}, 0)
			}
		}
		// (v) structural mutations: truncation, duplication, swapped halves
		for _, e := range []*builtEnv{A, E} {
			n := len(e.bytes)
			for _, m := range [][]byte{e.bytes[:n/2], e.bytes[:n-1], append(append([]byte{}, e.bytes...), e.bytes...), append(append([]byte{}, e.bytes[n/2:]...), e.bytes[:n/2]...), {}, []byte("null"), []byte("{}"), {0xd2, 0x84, 0x40, 0xa0, 0x40, 0x40}} {
				emitEnvelope(w, e.mt, m, []string{"structural"}, 0)
			}
		}
	}
}
