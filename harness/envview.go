package main

import (
	"crypto"
	"crypto/x509"
	"encoding/base64"
	"encoding/json"
	"errors"
	"fmt"
	"math/big"
	"sort"
	"strings"
	"time"

	"github.com/fxamacker/cbor/v2"
	"github.com/notaryproject/notation-core-go/signature"
	gocose "github.com/veraison/go-cose"
)

// Independent decoding of an envelope into the view the Coq model works on (Model/Header.v hview).
// Only encoding/json, encoding/base64, crypto/x509, fxamacker/cbor and go-cose's message decoder
// are used: the libraries whose results the repository's code consumes (oracles), none of its code.

var labelIDs = func() *idTable {
	t := &idTable{}
	for _, s := range []string{"alg", "cty", "crit", "io.cncf.notary.expiry", "io.cncf.notary.signingTime", "io.cncf.notary.signingScheme", "io.cncf.notary.authenticSigningTime"} {
		t.id([]byte(s)) // 1..7
	}
	for i := 8; i < 100; i++ {
		t.id([]byte(fmt.Sprintf("\x00reserved-%d", i)))
	}
	return t
}()
var valueIDs, bytesIDs idTable

func textLabel(s string) string { return fmt.Sprintf("(LText %d)", labelIDs.id([]byte(s))) }
func intLabel(z int64) string   { return fmt.Sprintf("(LInt %s)", cZ(z)) }

func bytesID(b []byte) int {
	if len(b) == 0 {
		return 0
	}
	return bytesIDs.id(b)
}
func strID(s string) int { return bytesID([]byte("s:" + s)) }
func valueID(v any) int  { return valueIDs.id([]byte(fmt.Sprintf("%T|%#v", v, v))) }

// timeTerm: a time as a Coq Z literal, nanoseconds since the Unix epoch computed without overflow
// (time.Time.UnixNano is only defined for the years 1678..2262); Go's zero time is 0
func timeTerm(t time.Time) string {
	if t.IsZero() {
		return "0"
	}
	z := new(big.Int).Mul(big.NewInt(t.Unix()), big.NewInt(1000000000))
	z.Add(z, big.NewInt(int64(t.Nanosecond())))
	if z.Sign() < 0 {
		return "(" + z.String() + ")"
	}
	return z.String()
}

var joseAlgNum = map[string]int{"PS256": 1, "PS384": 2, "PS512": 3, "ES256": 4, "ES384": 5, "ES512": 6}
var coseAlgNum = map[int64]int{-37: 1, -38: 2, -39: 3, -7: 4, -35: 5, -36: 6}
var numJose = map[int]string{1: "PS256", 2: "PS384", 3: "PS512", 4: "ES256", 5: "ES384", 6: "ES512"}

type envView struct {
	Fmt         int
	Decoded     bool
	LibVerify   bool
	Alg, AlgLib int
	Cty         *int
	Scheme      int
	ST, AST, EX string // tval terms
	CritPresent bool
	Crit        []string // label terms
	Ext         [][2]string
	Payload     int
	Sig         int
	Chain       []*x509.Certificate
	Agent, TS   int
	Note        string
}

type extKV struct {
	kind int // 0 text, 1 int
	text string
	num  int64
	term string
	val  int
}

func sortExt(es []extKV) {
	sort.Slice(es, func(i, j int) bool {
		if es[i].kind != es[j].kind {
			return es[i].kind < es[j].kind
		}
		if es[i].kind == 0 {
			return es[i].text < es[j].text
		}
		return es[i].num < es[j].num
	})
}

func schemeCode(s string) int {
	switch s {
	case "notary.x509":
		return 0
	case "notary.x509.signingAuthority":
		return 1
	}
	return 2
}

// ---- JWS ----
type vJWSProtected struct {
	Algorithm            string     `json:"alg"`
	ContentType          string     `json:"cty"`
	Critical             []string   `json:"crit,omitempty"`
	Expiry               *time.Time `json:"io.cncf.notary.expiry,omitempty"`
	SigningScheme        string     `json:"io.cncf.notary.signingScheme"`
	SigningTime          *time.Time `json:"io.cncf.notary.signingTime,omitempty"`
	AuthenticSigningTime *time.Time `json:"io.cncf.notary.authenticSigningTime,omitempty"`
}
type vJWSHeader struct {
	TimestampSignature []byte   `json:"io.cncf.notary.timestampSignature,omitempty"`
	CertChain          [][]byte `json:"x5c"`
	SigningAgent       string   `json:"io.cncf.notary.signingAgent,omitempty"`
}
type vJWSEnvelope struct {
	Payload   string     `json:"payload"`
	Protected string     `json:"protected"`
	Header    vJWSHeader `json:"header"`
	Signature string     `json:"signature"`
}

var jwsHeaderKeys = []string{"alg", "cty", "crit", "io.cncf.notary.expiry", "io.cncf.notary.signingTime", "io.cncf.notary.signingScheme", "io.cncf.notary.authenticSigningTime"}

func tvalJWS(t *time.Time) string {
	if t == nil {
		return "TAbsent"
	}
	return fmt.Sprintf("(TTime %s 1)", timeTerm((*t)))
}

func viewJWS(b []byte) *envView {
	v := &envView{Fmt: 0, ST: "TAbsent", AST: "TAbsent", EX: "TAbsent"}
	var e vJWSEnvelope
	if err := json.Unmarshal(b, &e); err != nil {
		v.Note = "outer json: " + err.Error()
		return v
	}
	raw, err := base64.RawURLEncoding.DecodeString(e.Protected)
	if err != nil {
		v.Note = "protected b64"
		return v
	}
	var p vJWSProtected
	var m map[string]any
	if err := json.Unmarshal(raw, &p); err != nil {
		v.Note = "protected struct: " + err.Error()
		return v
	}
	if err := json.Unmarshal(raw, &m); err != nil {
		v.Note = "protected map: " + err.Error()
		return v
	}
	payload, err := base64.RawURLEncoding.DecodeString(e.Payload)
	if err != nil {
		v.Note = "payload b64"
		return v
	}
	sig, err := base64.RawURLEncoding.DecodeString(e.Signature)
	if err != nil {
		v.Note = "signature b64"
		return v
	}
	for _, c := range e.Header.CertChain {
		x, err := x509.ParseCertificate(c)
		if err != nil {
			v.Note = "x5c der"
			return v
		}
		v.Chain = append(v.Chain, x)
	}
	// a member name that differs from a specification-defined one only in letter case binds to the
	// struct field but not to the exact-name views: such a protected header is refused
	for k := range m {
		for _, hk := range jwsHeaderKeys {
			if k != hk && strings.EqualFold(k, hk) {
				v.Note = "case-variant of a specification header: " + k
				return v
			}
		}
	}
	v.Decoded = true
	v.Alg = joseAlgNum[p.Algorithm]
	if s, ok := m["alg"].(string); ok {
		v.AlgLib = joseAlgNum[s]
	}
	c := strID(p.ContentType)
	v.Cty = &c
	v.Scheme = schemeCode(p.SigningScheme)
	v.ST, v.AST, v.EX = tvalJWS(p.SigningTime), tvalJWS(p.AuthenticSigningTime), tvalJWS(p.Expiry)
	v.CritPresent = len(p.Critical) > 0
	for _, c := range p.Critical {
		v.Crit = append(v.Crit, textLabel(c))
	}
	var es []extKV
	for k, val := range m {
		spec := false
		for _, hk := range jwsHeaderKeys {
			if k == hk {
				spec = true
			}
		}
		if !spec {
			es = append(es, extKV{kind: 0, text: k, term: textLabel(k), val: valueID(val)})
		}
	}
	sortExt(es)
	for _, x := range es {
		v.Ext = append(v.Ext, [2]string{x.term, fmt.Sprint(x.val)})
	}
	v.Payload, v.Sig = bytesID(payload), bytesID(sig)
	v.Agent = strID(e.Header.SigningAgent)
	if e.Header.SigningAgent == "" {
		v.Agent = 0
	}
	v.TS = bytesID(e.Header.TimestampSignature)
	// what golang-jwt accepts: header and claims decode as JSON objects, the exact "alg" is one of the six
	// allowed names, and the signature over protected.payload verifies under the leaf key with that algorithm
	if len(v.Chain) > 0 && v.AlgLib != 0 {
		var claims map[string]any
		dec := json.NewDecoder(strings.NewReader(string(payload)))
		dec.UseNumber()
		claimsOK := dec.Decode(&claims) == nil
		if claimsOK && verifyRaw(numJose[v.AlgLib], v.Chain[0].PublicKey, []byte(e.Protected+"."+e.Payload), sig, false) {
			v.LibVerify = true
		}
	}
	return v
}

// ---- COSE ----
func tvalCOSE(prot map[any]any, raw map[any]cbor.RawMessage, label string) string {
	val, ok := prot[label]
	if !ok {
		return "TAbsent"
	}
	t, ok := val.(time.Time)
	if !ok {
		return "TBad"
	}
	var rt cbor.RawTag
	if err := rt.UnmarshalCBOR(raw[label]); err != nil {
		return "TBad"
	}
	return fmt.Sprintf("(TTime %s %d)", timeTerm((t)), rt.Number)
}

func coseLabelTerm(l any) (extKV, bool) {
	switch x := l.(type) {
	case int64:
		return extKV{kind: 1, num: x, term: intLabel(x)}, true
	case string:
		return extKV{kind: 0, text: x, term: textLabel(x)}, true
	}
	return extKV{}, false
}

func viewCOSE(b []byte) *envView {
	v := &envView{Fmt: 1, ST: "TAbsent", AST: "TAbsent", EX: "TAbsent"}
	var msg gocose.Sign1Message
	if err := msg.UnmarshalCBOR(b); err != nil {
		v.Note = "go-cose: " + err.Error()
		return v
	}
	prot := map[any]any(msg.Headers.Protected)
	rawMap := map[any]cbor.RawMessage{}
	if len(msg.Headers.RawProtected) > 0 {
		var inner []byte
		if err := cbor.Unmarshal(msg.Headers.RawProtected, &inner); err != nil {
			v.Note = "raw protected"
			return v
		}
		if len(inner) > 0 {
			if err := cbor.Unmarshal(inner, &rawMap); err != nil {
				v.Note = "raw protected map"
				return v
			}
		}
	}
	v.Decoded = true
	if a, err := msg.Headers.Protected.Algorithm(); err == nil {
		v.Alg = coseAlgNum[int64(a)]
		v.AlgLib = v.Alg
	}
	if s, ok := prot[int64(3)].(string); ok {
		c := strID(s)
		v.Cty = &c
	}
	if s, ok := prot["io.cncf.notary.signingScheme"].(string); ok {
		v.Scheme = schemeCode(s)
	} else {
		v.Scheme = 3
	}
	v.ST = tvalCOSE(prot, rawMap, "io.cncf.notary.signingTime")
	v.AST = tvalCOSE(prot, rawMap, "io.cncf.notary.authenticSigningTime")
	v.EX = tvalCOSE(prot, rawMap, "io.cncf.notary.expiry")
	if cr, ok := prot[int64(2)]; ok {
		v.CritPresent = true
		if arr, ok := cr.([]any); ok {
			for _, l := range arr {
				if kv, ok := coseLabelTerm(l); ok {
					v.Crit = append(v.Crit, kv.term)
				}
			}
		}
	}
	var es []extKV
	for l, val := range prot {
		kv, ok := coseLabelTerm(l)
		if !ok {
			continue
		}
		if kv.kind == 1 && (kv.num == 1 || kv.num == 2 || kv.num == 3) {
			continue
		}
		if kv.kind == 0 && labelIDs.id([]byte(kv.text)) >= 4 && labelIDs.id([]byte(kv.text)) <= 7 {
			continue
		}
		kv.val = valueID(val)
		es = append(es, kv)
	}
	sortExt(es)
	for _, x := range es {
		v.Ext = append(v.Ext, [2]string{x.term, fmt.Sprint(x.val)})
	}
	v.Payload, v.Sig = bytesID(msg.Payload), bytesID(msg.Signature)
	if arr, ok := msg.Headers.Unprotected[int64(33)].([]any); ok {
		for _, c := range arr {
			der, ok := c.([]byte)
			if !ok {
				v.Chain = nil
				break
			}
			x, err := x509.ParseCertificate(der)
			if err != nil {
				v.Chain = nil
				v.Decoded = false
				v.Note = "x5chain der"
				break
			}
			v.Chain = append(v.Chain, x)
		}
	}
	if s, ok := msg.Headers.Unprotected["io.cncf.notary.signingAgent"].(string); ok && s != "" {
		v.Agent = strID(s)
	}
	if t, ok := msg.Headers.Unprotected["io.cncf.notary.timestampSignature"].([]byte); ok {
		v.TS = bytesID(t)
	}
	// what go-cose accepts with a verifier bound to the leaf key: header 1 equals the algorithm dictated by
	// the key, payload present, signature over Sig_structure(protected as carried, payload) verifies
	if len(v.Chain) > 0 && msg.Payload != nil {
		{
			want := keyAlgNum(v.Chain[0].PublicKey)
			if want != 0 && v.Alg == want {
				var inner []byte
				cbor.Unmarshal(msg.Headers.RawProtected, &inner)
				if verifyRaw(numJose[want], v.Chain[0].PublicKey, sigStructure(inner, msg.Payload), msg.Signature, true) {
					v.LibVerify = true
				}
			}
		}
	}
	return v
}

func (v *envView) term() string {
	cty := "None"
	if v.Cty != nil {
		cty = fmt.Sprintf("(Some %d)", *v.Cty)
	}
	var ext []string
	for _, e := range v.Ext {
		ext = append(ext, fmt.Sprintf("(%s, %s)", e[0], e[1]))
	}
	chain := "[]"
	if len(v.Chain) > 0 {
		chain = chainTerm(v.Chain)
	}
	return fmt.Sprintf("(HV %d %d %d %s %d %s %s %s %s %s %s %d %d %s %d %d)", v.Fmt, v.Alg, v.AlgLib, cty, v.Scheme, v.ST, v.AST, v.EX,
		cB(v.CritPresent), cList(v.Crit), cList(ext), v.Payload, v.Sig, chain, v.Agent, v.TS)
}

// ---- projection of the implementation's EnvelopeContent into the model's content record ----
func contentTerm(c *signature.EnvelopeContent) (string, map[string]any) {
	si := c.SignerInfo
	var es []extKV
	for _, a := range si.SignedAttributes.ExtendedAttributes {
		var kv extKV
		switch k := a.Key.(type) {
		case string:
			kv = extKV{kind: 0, text: k, term: textLabel(k)}
		case int64:
			kv = extKV{kind: 1, num: k, term: intLabel(k)}
		case int:
			kv = extKV{kind: 1, num: int64(k), term: intLabel(int64(k))}
		default:
			kv = extKV{kind: 0, text: fmt.Sprintf("\x00odd-key-%T-%v", k, k), term: textLabel(fmt.Sprintf("\x00odd-key-%T-%v", k, k))}
		}
		kv.val = valueID(a.Value)
		if a.Critical {
			kv.term = "C" + kv.term
		}
		es = append(es, kv)
	}
	sortExt(es)
	var attrs []string
	for _, e := range es {
		crit := false
		t := e.term
		if strings.HasPrefix(t, "C") {
			crit, t = true, t[1:]
		}
		attrs = append(attrs, fmt.Sprintf("(Attr %s %s %d)", t, cB(crit), e.val))
	}
	var chain []string
	for _, x := range si.CertificateChain {
		chain = append(chain, fmt.Sprint(rawIDs.id(x.Raw)))
	}
	scheme := schemeCode(string(si.SignedAttributes.SigningScheme))
	agent := 0
	if si.UnsignedAttributes.SigningAgent != "" {
		agent = strID(si.UnsignedAttributes.SigningAgent)
	}
	term := fmt.Sprintf("(Content %d %d %d %s %s %s %d %d %s %d %d)", bytesID(c.Payload.Content), strID(c.Payload.ContentType), scheme,
		timeTerm((si.SignedAttributes.SigningTime)), timeTerm((si.SignedAttributes.Expiry)), cList(attrs), int(si.SignatureAlgorithm),
		bytesID(si.Signature), cList(chain), agent, bytesID(si.UnsignedAttributes.TimestampSignature))
	d := map[string]any{"payload": string(c.Payload.Content), "cty": c.Payload.ContentType, "scheme": string(si.SignedAttributes.SigningScheme),
		"time": si.SignedAttributes.SigningTime.String(), "expiry": si.SignedAttributes.Expiry.String(), "alg": int(si.SignatureAlgorithm), "n_attrs": len(es), "chain_len": len(chain)}
	return term, d
}

type implEnvOut struct {
	ParseOK   bool
	Verify    string // Coq option content
	Content   string
	VerifyErr string
	ContErr   string
	Panicked  bool
	PanicMsg  string
}

func errClass(err error) string {
	if err == nil {
		return ""
	}
	var a *signature.InvalidSignatureError
	var b *signature.SignatureIntegrityError
	var c *signature.UnsupportedSignatureAlgoError
	var d *signature.SignatureNotFoundError
	switch {
	case errors.As(err, &b):
		return "integrity"
	case errors.As(err, &c):
		return "unsupported-alg"
	case errors.As(err, &d):
		return "not-found"
	case errors.As(err, &a):
		return "invalid"
	}
	return "other"
}

// runEnvelope parses and reads an envelope with the implementation under check
func runEnvelope(mediaType string, b []byte) (out implEnvOut) {
	out.Verify, out.Content = "None", "None"
	defer func() {
		if r := recover(); r != nil {
			out.Panicked = true
			out.PanicMsg = fmt.Sprint(r)
		}
	}()
	env, err := signature.ParseEnvelope(mediaType, b)
	if err != nil {
		out.VerifyErr, out.ContErr = "parse:"+errClass(err), "parse:"+errClass(err)
		return
	}
	out.ParseOK = true
	if c, err := env.Verify(); err == nil && c != nil {
		t, _ := contentTerm(c)
		out.Verify = "(Some " + t + ")"
	} else {
		out.VerifyErr = errClass(err)
	}
	// the other call order on a second object parsed from the same bytes: Content, Verify, Verify.  Verification
	// must not depend on what was called before it; if any of the calls accepts, that acceptance is what is reported.
	if env2, err := signature.ParseEnvelope(mediaType, b); err == nil {
		env2.Content()
		for i := 0; i < 2; i++ {
			if c, err := env2.Verify(); err == nil && c != nil {
				t, _ := contentTerm(c)
				if out.Verify == "None" {
					out.Verify = "(Some " + t + ")"
					out.VerifyErr = "accepted only after Content() had been called"
				} else if out.Verify != "(Some "+t+")" {
					out.Panicked, out.PanicMsg = true, "Verify() returned different content on a second object parsed from the same bytes"
				}
			} else if out.Verify != "None" && out.VerifyErr == "" {
				out.Panicked, out.PanicMsg = true, "Verify() succeeded on one object and failed on another parsed from the same bytes: "+errClass(err)
			}
		}
	}
	if c, err := env.Content(); err == nil && c != nil {
		t, _ := contentTerm(c)
		out.Content = "(Some " + t + ")"
		// lookup helper: every text-keyed attribute is found under its key, an absent key is an error
		for _, a := range c.SignerInfo.SignedAttributes.ExtendedAttributes {
			if k, ok := a.Key.(string); ok {
				got, err := c.SignerInfo.ExtendedAttribute(k)
				if err != nil || got.Key != a.Key {
					out.Panicked, out.PanicMsg = true, "ExtendedAttribute lookup failed for present key "+k
				}
			}
		}
		if _, err := c.SignerInfo.ExtendedAttribute("\x00no-such-key"); err == nil {
			out.Panicked, out.PanicMsg = true, "ExtendedAttribute lookup succeeded for an absent key"
		}
	} else {
		out.ContErr = errClass(err)
	}
	return
}

var _ = crypto.SHA256

// coseSignature: the signature bytes of a COSE_Sign1 (independent decoding)
func coseSignature(env []byte) []byte {
	var msg gocose.Sign1Message
	if err := msg.UnmarshalCBOR(env); err != nil {
		return nil
	}
	return msg.Signature
}

// timeTermNZ: like timeTerm but without the zero-time convention (certificate validity bounds)
func timeTermNZ(t time.Time) string {
	z := new(big.Int).Mul(big.NewInt(t.Unix()), big.NewInt(1000000000))
	z.Add(z, big.NewInt(int64(t.Nanosecond())))
	if z.Sign() < 0 {
		return "(" + z.String() + ")"
	}
	return z.String()
}
