package main

import (
	"fmt"
	"math/big"
	"time"
)

func init() { register("C12", "Run.C12", genC12) }

// shape of the result slice: chains of length 1..5, distinct URLs per certificate, all per-source
// outcome classes, both purposes, both entry points; plus chains invalid for the purpose and the empty chain
func genC12(tier string, rng *RNG, w *CaseWriter) {
	w.ShardSize = 200
	oAl := []ocspBehav{oGood, oRevoked, oUnknown, oErr, oBadURL, oStale, {Kind: "http500"}, {Kind: "garbage"}, {Kind: "truncated"}, {Kind: "canned-trylater"}}
	cAl := []dpBehav{dpByName("clean"), dpByName("lists-cert"), dpByName("fetch-fail"), dpByName("expired"), dpByName("delta-clean"), dpByName("lists-hold")}
	randPlan := func() srcPlan {
		var p srcPlan
		for k := rng.Intn(4); k > 0; k-- {
			p.O = append(p.O, Pick(rng, oAl))
		}
		for k := rng.Intn(4); k > 0; k-- {
			p.C = append(p.C, Pick(rng, cAl))
		}
		return p
	}
	// valid chains
	per := 120
	if tier == "thorough" {
		per = 2500
	}
	for n := 1; n <= 5; n++ {
		for k := 0; k < per; k++ {
			plans := make([]srcPlan, n-1)
			for i := range plans {
				plans[i] = randPlan()
			}
			purp := "cs"
			if k%4 == 1 {
				purp = "ts"
			}
			st := time.Time{}
			if k%3 == 0 {
				st = stRef
			}
			revRootNamesSources = k%5 == 3
			revSelfIssuedIntermediate = k%7 == 4
			emitRev(w, buildPlanCase(k%3%2, purp, plans, st, k%9 == 2), true, "valid")
			revRootNamesSources, revSelfIssuedIntermediate = false, false
			if n == 1 && k > 6 {
				break
			}
		}
	}
	// a context that is already cancelled: every exchange fails, the slice must still be complete
	for n := 2; n <= 5; n++ {
		for k := 0; k < 8; k++ {
			plans := make([]srcPlan, n-1)
			for i := range plans {
				plans[i] = randPlan()
			}
			rc := buildPlanCase(0, "cs", plans, time.Time{}, k%2 == 0)
			rc.Cancel = "before"
			emitRev(w, rc, true, "cancelled-before")
		}
	}
	// one validator object, two chains: a valid chain, then a forged one with the same issuer names and serial numbers at
	// every position (a certificate re-signed by a key that is not its issuer's): the second call must see an invalid chain
	for n := 2; n <= 4; n++ {
		for pos := 0; pos < n-1; pos++ {
			mk := func(forged bool) *builtChain {
				p := basePlan(n, "cs", "ec256b")
				for i := range p.certs {
					p.certs[i].spec.Serial = big.NewInt(int64(770000 + 10*n + i))
				}
				if forged {
					p.certs[pos].signKey = "ec256c"
				}
				return p.build()
			}
			good, bad := mk(false), mk(true)
			for _, warm := range []bool{true, false} {
				rc := &revCase{Entry: 0, Purpose: "cs", Chain: &revChain{certs: bad.certs, slots: make([]certSlots, n-1)}, Labels: []string{"validator-reuse", fmt.Sprintf("forged-pos=%d warm=%v", pos, warm)}}
				if warm {
					rc.WarmChain = good.xs
				}
				emitRev(w, rc, true, "validator-reuse")
			}
			// and the other way round: the forged chain first must not poison the valid one
			rc := &revCase{Entry: 0, Purpose: "cs", Chain: &revChain{certs: good.certs, slots: make([]certSlots, n-1)}, WarmChain: bad.xs, Labels: []string{"validator-reuse", "valid-after-forged"}}
			emitRev(w, rc, true, "validator-reuse")
		}
	}
	// systematic: every single-source outcome at every position of a length-4 chain
	for pos := 0; pos < 3; pos++ {
		for _, o := range oAl {
			plans := []srcPlan{{}, {}, {}}
			plans[pos] = srcPlan{O: []ocspBehav{o}}
			emitRev(w, buildPlanCase(pos%2, "cs", plans, time.Time{}, false), true, "single-ocsp")
		}
		for _, c := range cAl {
			plans := []srcPlan{{}, {}, {}}
			plans[pos] = srcPlan{C: []dpBehav{c}}
			emitRev(w, buildPlanCase(0, "cs", plans, time.Time{}, false), true, "single-crl")
		}
	}
	// chains invalid for the configured purpose: the C03/C14 violations, through both entry points
	mods := chainMods()
	nInv := 0
	for _, purp := range []string{"cs", "ts"} {
		for n := 1; n <= 3; n++ {
			for _, m := range mods {
				for pos := 0; pos < n; pos++ {
					if tier != "thorough" && (nInv+pos)%3 != 0 && m.benign {
						continue
					}
					p := basePlan(n, purp, "ec256b")
					for i := 0; i < n-1; i++ {
						p.certs[i].spec.OCSP = []string{ocspURL(i, 0, "ok")}
						p.certs[i].spec.CRL = []string{crlURL(i, 0)}
					}
					if !m.apply(p, pos, purp) {
						continue
					}
					nInv++
					b := p.build()
					rc := &revCase{Entry: nInv % 2, Purpose: purp, Chain: &revChain{certs: b.certs}, OCSP: map[string]ocspBehav{}, CRL: map[string]crlDelivery{}, Labels: []string{fmt.Sprintf("%s@%d", m.name, pos)}}
					for i := 0; i < n-1; i++ {
						rc.OCSP[b.xs[i].OCSPServer[0]] = oGood
						rc.CRL[b.xs[i].CRLDistributionPoints[0]] = dpByName("clean").mk()
					}
					emitRev(w, rc, true, "mod:"+m.name)
				}
			}
		}
	}
	// a code-signing chain offered for timestamping and vice versa; the empty chain
	for _, e := range []int{0, 1} {
		for _, n := range []int{1, 2, 3} {
			cs := buildPlanCase(e, "cs", make([]srcPlan, n-1), time.Time{}, false)
			cs.Purpose = "ts"
			emitRev(w, cs, true, "wrong-purpose")
			ts := buildPlanCase(e, "ts", make([]srcPlan, n-1), time.Time{}, false)
			ts.Purpose = "cs"
			emitRev(w, ts, true, "wrong-purpose")
		}
		emitRev(w, &revCase{Entry: e, Purpose: "cs", Chain: &revChain{}}, true, "empty-chain")
	}
}
