package main

import (
	"bytes"
	"context"
	"crypto"
	"crypto/x509"
	"errors"
	"fmt"
	"time"

	"github.com/notaryproject/notation-core-go/signature"
	tspclient "github.com/notaryproject/tspclient-go"
)

func init() { register("C15", "Run.C15", genC15) }

type tsaVariant struct {
	name    string
	chain   []*Cert
	trusted bool
}

func tsaVariants() []tsaVariant {
	mkn := func(n int, name string, f func(p *chainPlan), trusted bool) tsaVariant {
		p := basePlan(n, "ts", "ec256b")
		for i := range p.certs {
			p.certs[i].spec.CN = fmt.Sprintf("tsa%d-", n) + p.certs[i].spec.CN
		}
		if f != nil {
			f(p)
		}
		return tsaVariant{name, p.build().certs, trusted}
	}
	mk := func(name string, f func(p *chainPlan), trusted bool) tsaVariant {
		p := basePlan(3, "ts", "ec256b")
		for i := range p.certs {
			p.certs[i].spec.CN = "tsa-" + p.certs[i].spec.CN
		}
		if f != nil {
			f(p)
		}
		return tsaVariant{name, p.build().certs, trusted}
	}
	okV := mk("ok", nil, true)
	// the SAME TSA leaf certificate under a CA certificate re-issued (same name, key and serial) without a key usage
	// extension: crypto/x509 still builds the path, the timestamping chain rules refuse it - also after the leaf has
	// been seen in a valid chain
	reSpec := okV.chain[1].Spec
	reSpec.KUExt, reSpec.KU = ExtAbsent, 0
	reSpec.Serial = okV.chain[1].X.SerialNumber
	reCA := Issue(reSpec, okV.chain[2], nil)
	sameLeaf := tsaVariant{"same-leaf-ca-reissued-no-ku", []*Cert{okV.chain[0], reCA, okV.chain[2]}, true}
	return []tsaVariant{
		okV,
		sameLeaf,
		mk("untrusted-root", nil, false),
		mk("leaf-eku-noncritical", func(p *chainPlan) { p.certs[0].spec.EKUExt = ExtNonCritical }, true),
		mk("leaf-eku-extra-codesigning", func(p *chainPlan) { p.certs[0].spec.EKU = []string{"ts", "code"} }, true),
		mk("leaf-ku-keyencipherment", func(p *chainPlan) { p.certs[0].spec.KU |= x509.KeyUsageKeyEncipherment }, true),
		mk("leaf-ku-ext-absent", func(p *chainPlan) { p.certs[0].spec.KUExt = ExtAbsent; p.certs[0].spec.KU = 0 }, true),
		mk("ca-ku-ext-absent", func(p *chainPlan) { p.certs[1].spec.KUExt = ExtAbsent; p.certs[1].spec.KU = 0 }, true),
		mk("ca-no-certsign", func(p *chainPlan) { p.certs[1].spec.KU = x509.KeyUsageCRLSign }, true),
		mk("leaf-expired", func(p *chainPlan) {
			p.certs[0].spec.NotBefore = baseTime.Add(-48 * time.Hour)
			p.certs[0].spec.NotAfter = baseTime.Add(-24 * time.Hour)
		}, true),
		mk("ca-pathlen-too-small", func(p *chainPlan) { p.certs[2].spec.MaxPathLen = 0 }, true),
		mk("leaf-empty-subject", func(p *chainPlan) { p.certs[0].spec.EmptySubject = true }, true),
		// a lone self-signed TSA certificate that is itself the caller's trusted root, and chains of two
		mkn(1, "single-ok", nil, true),
		mkn(1, "single-ku-keyencipherment", func(p *chainPlan) { p.certs[0].spec.KU |= x509.KeyUsageKeyEncipherment }, true),
		mkn(1, "single-is-ca", func(p *chainPlan) { p.certs[0].spec.IsCA = true; p.certs[0].spec.BC = true }, true),
		mkn(1, "single-eku-extra-codesigning", func(p *chainPlan) { p.certs[0].spec.EKU = []string{"ts", "code"} }, true),
		mkn(2, "two-ok", nil, true),
		mkn(2, "two-leaf-eku-noncritical", func(p *chainPlan) { p.certs[0].spec.EKUExt = ExtNonCritical }, true),
	}
}

func hashOf(algNum int) crypto.Hash {
	switch algNum {
	case 1, 4:
		return crypto.SHA256
	case 2, 5:
		return crypto.SHA384
	}
	return crypto.SHA512
}

func signatureBytesOf(fmtIdx int, env []byte) []byte {
	if fmtIdx == 0 {
		return viewJWSsig(env)
	}
	v := viewCOSE(env)
	_ = v
	var msgSig []byte
	func() {
		defer func() { recover() }()
		msgSig = coseSignature(env)
	}()
	return msgSig
}

func emitC15(w *CaseWriter, r *areq, tv *tsaVariant, behav string, val *fakeValidator, label string) {
	mt := mediaTypes[r.Fmt]
	reqTerm, sf, ss := r.reqTerm()
	tsTerm, tsf, tss := "None", "[]", "[]"
	var tsa *fakeTSA
	var roots *x509.CertPool
	if tv != nil {
		tsa = &fakeTSA{behav: behav, chain: tv.chain}
		roots = x509.NewCertPool()
		if tv.trusted {
			roots.AddCert(tv.chain[len(tv.chain)-1].X)
		} else {
			roots.AddCert(envFixtureGetCA().X)
		}
		// the oracle side of the world: what tspclient-go says about this authority (library code only)
		answer, chainTerm_ := false, "None"
		ks, _ := r.S.KeySpec()
		probeReq, err := tspclient.NewRequest(tspclient.RequestOptions{Content: []byte("probe"), HashAlgorithm: hashOf(int(ks.SignatureAlgorithm()))})
		if err == nil {
			if resp, err := tsa.timestamper().Timestamp(context.Background(), probeReq); err == nil {
				if tok, err := resp.SignedToken(); err == nil {
					answer = true
					if ch, err := tok.Verify(context.Background(), x509.VerifyOptions{Roots: roots}); err == nil {
						chainTerm_ = "(Some " + chainTerm(ch) + ")"
						tsf, tss = oracleTerms(ch)
					}
				}
			}
		}
		vt := "VNone"
		if val != nil {
			if val.err {
				vt = "VErr"
			} else {
				var rs []string
				for _, x := range val.results {
					rs = append(rs, resTerm(x))
				}
				vt = "(VResults " + cList(rs) + ")"
			}
		}
		tsTerm = fmt.Sprintf("(Some (TsaW %s %s %s 77))", cB(answer), chainTerm_, vt)
		tsa.calls, tsa.issued = 0, nil
	}
	out, tsErr, tokenOK, tokenPresent := 0, false, true, false
	var errMsg, panicMsg string
	func() {
		defer func() {
			if p := recover(); p != nil {
				out, panicMsg = 2, fmt.Sprint(p)
			}
		}()
		env, err := signature.NewEnvelope(mt)
		if err != nil {
			panic(err)
		}
		req := r.build()
		if tsa != nil {
			req.Timestamper = tsa.timestamper()
			req.TSARootCAs = roots
			if val != nil {
				req.TSARevocationValidator = val
			}
		}
		noteCurrentCase(map[string]any{"labels": r.Labels, "media_type": mt, "tsa": label})
		nEmitSign++
		if nEmitSign%2 == 1 { // every other request travels as the copy WithContext makes
			req = req.WithContext(context.WithValue(context.Background(), ctxKey{}, nEmitSign))
		}
		b, err := env.Sign(req)
		switch {
		case err != nil && b != nil:
			out, errMsg = 3, err.Error()
		case err != nil:
			out, errMsg = 0, err.Error()
			var te *signature.TimestampError
			tsErr = errors.As(err, &te)
		default:
			out = 1
			p, perr := signature.ParseEnvelope(mt, b)
			if perr != nil {
				tokenOK = false
				return
			}
			c, cerr := p.Content()
			if cerr != nil {
				tokenOK = false
				return
			}
			tok := c.SignerInfo.UnsignedAttributes.TimestampSignature
			tokenPresent = len(tok) > 0
			if tsa != nil && tokenPresent {
				tokenOK = len(tsa.issued) > 0 && bytes.Equal(tok, tsa.issued[len(tsa.issued)-1])
				if st, err := tspclient.ParseSignedToken(tok); err == nil {
					if info, err := st.Info(); err == nil {
						h := hashOf(int(c.SignerInfo.SignatureAlgorithm))
						d := h.New()
						d.Write(c.SignerInfo.Signature)
						if !bytes.Equal(info.MessageImprint.HashedMessage, d.Sum(nil)) {
							tokenOK = false
						}
					} else {
						tokenOK = false
					}
				} else {
					tokenOK = false
				}
			}
		}
	}()
	calls := 0
	if tsa != nil {
		calls = tsa.calls
	}
	term := fmt.Sprintf("(mk @ID@ %s %s %s %s %s %s %d %s %d %s %s)", reqTerm, sf, ss, tsTerm, tsf, tss, out, cB(tsErr), calls, cB(tokenOK), cB(tokenPresent))
	cls := []string{"error", "envelope", "panic", "error+bytes"}[out]
	desc := map[string]any{"media_type": mt, "labels": r.Labels, "tsa": label, "impl": cls, "impl_error": errMsg, "timestamp_error": tsErr, "tsa_calls": calls, "token_ok": tokenOK, "token_present": tokenPresent, "panic": panicMsg}
	w.Count("tsa:" + label)
	w.Count(fmt.Sprintf("fmt:%d", r.Fmt))
	w.Emit(term, desc, fmt.Sprintf("fmt%d/%s", r.Fmt, cls), true)
}

func genC15(tier string, rng *RNG, w *CaseWriter) {
	w.ShardSize = 100
	tvs := tsaVariants()
	behavs := []string{"granted", "rejected", "wrong-imprint", "wrong-nonce", "garbage", "http500", "wrong-content-type", "transport", "empty"}
	keys := []string{"ec256b", "rsa2048a"}
	if tier == "thorough" {
		keys = []string{"ec256b", "rsa2048a", "ec384", "ec521", "rsa3072", "rsa4096"}
	}
	mkReq := func(fi int, kn, scheme string) *areq {
		r := baseReq(fi)
		ch := basePlan(2, "cs", kn).build().xs
		ks := trueKeySpec(Key(kn))
		r.S = &cfgSigner{local: true, ks: ks, chain: ch, key: Key(kn), signKey: Key(kn), signAlg: numJose[int(ks.SignatureAlgorithm())]}
		r.Scheme = scheme
		r.Labels = []string{"key=" + kn, "scheme=" + scheme}
		return r
	}
	for fi := 0; fi < 2; fi++ {
		for _, kn := range keys {
			for _, scheme := range []string{"notary.x509", "notary.x509.signingAuthority"} {
				// no timestamper
				emitC15(w, mkReq(fi, kn, scheme), nil, "", nil, "no-timestamper")
				// every TSA chain variant, granted
				for i := range tvs {
					if scheme != "notary.x509" && i > 1 {
						continue
					}
					emitC15(w, mkReq(fi, kn, scheme), &tvs[i], "granted", nil, "chain:"+tvs[i].name)
				}
				// every authority behaviour with the good chain
				for _, b := range behavs {
					if scheme != "notary.x509" && b != "granted" && b != "transport" {
						continue
					}
					emitC15(w, mkReq(fi, kn, scheme), &tvs[0], b, nil, "behav:"+b)
				}
			}
		}
		// revocation validator: error, and every result vector over {Unknown, OK, NonRevokable, Revoked}^n for n <= 4
		emitC15(w, mkReq(fi, "ec256b", "notary.x509"), &tvs[0], "granted", &fakeValidator{err: true}, "validator:error")
		for n := 0; n <= 4; n++ {
			for _, vec := range seqs([]int{0, 1, 2, 3}, n) {
				if tier != "thorough" && n == 4 && (vec[0]+2*vec[1]+3*vec[2]+vec[3])%4 != 0 {
					continue
				}
				if tier != "thorough" && fi == 1 && n >= 3 && (vec[0]+vec[1]+vec[2])%3 != 0 {
					continue
				}
				emitC15(w, mkReq(fi, "ec256b", "notary.x509"), &tvs[0], "granted", &fakeValidator{results: vec}, fmt.Sprintf("validator:n=%d", n))
			}
		}
		// a back-dated signing time (the signer's chain was already valid then) with an authority whose certificates
		// have expired since: the token must be judged now, not at the request's signing time
		for _, tvName := range []string{"leaf-expired", "ok"} {
			for i := range tvs {
				if tvs[i].name != tvName {
					continue
				}
				r := mkReq(fi, "ec256b", "notary.x509")
				p := basePlan(2, "cs", "ec256b")
				for k := range p.certs {
					p.certs[k].spec.NotBefore = baseTime.Add(-30 * 24 * time.Hour)
				}
				r.S.chain = p.build().xs
				r.Time = baseTime.Add(-36 * time.Hour)
				r.Expiry = time.Time{}
				r.Labels = append(r.Labels, "signing-time-backdated-36h")
				emitC15(w, r, &tvs[i], "granted", nil, "backdated:"+tvName)
			}
		}
		// result vectors over a TSA chain whose leaf has an empty subject DN (its identity is in a critical subjectAltName)
		for i := range tvs {
			if tvs[i].name != "leaf-empty-subject" {
				continue
			}
			for _, vec := range [][]int{{0, 1, 1}, {1, 1, 1}, {3, 1, 1}, {0, 0, 2}, {2, 1, 0}, {1, 0, 1}} {
				emitC15(w, mkReq(fi, "ec256b", "notary.x509"), &tvs[i], "granted", &fakeValidator{results: vec}, "validator:empty-subject-leaf")
			}
		}
		// an invalid request with a timestamper: the authority must not decide anything
		bad := mkReq(fi, "ec256b", "notary.x509")
		bad.Payload = nil
		bad.Labels = append(bad.Labels, "payload-empty")
		emitC15(w, bad, &tvs[0], "granted", nil, "invalid-request")
		late := mkReq(fi, "ec256b", "notary.x509")
		late.Time = time.Date(2000, 1, 1, 0, 0, 0, 0, time.UTC)
		late.Expiry = time.Time{}
		late.Labels = append(late.Labels, "chain-invalid-at-signing-time")
		emitC15(w, late, &tvs[0], "granted", nil, "late-failure")
	}
	_ = rng
}
