package main

import (
	"bytes"
	"crypto"
	"crypto/ecdsa"
	"crypto/ed25519"
	"crypto/hmac"
	"crypto/rand"
	"crypto/rsa"
	"crypto/sha256"
	"crypto/sha512"
	"crypto/x509"
	"encoding/base64"
	"encoding/json"
	"fmt"
	"hash"
	"math/big"

	"github.com/fxamacker/cbor/v2"
)

// Independent envelope encoders: they use encoding/json, encoding/base64, fxamacker/cbor and
// the stdlib crypto only — no code of the repository under check.

func hashFor(bits int) (crypto.Hash, func() hash.Hash) {
	switch bits {
	case 384:
		return crypto.SHA384, sha512.New384
	case 512:
		return crypto.SHA512, sha512.New
	}
	return crypto.SHA256, sha256.New
}

// algInfo: JOSE name -> (family, hash bits, COSE id)
type algInfo struct {
	Family string // PS | ES | RS | HS | EdDSA | none
	Bits   int
	Cose   int64
}

var algTable = map[string]algInfo{
	"PS256": {"PS", 256, -37}, "PS384": {"PS", 384, -38}, "PS512": {"PS", 512, -39},
	"ES256": {"ES", 256, -7}, "ES384": {"ES", 384, -35}, "ES512": {"ES", 512, -36},
	"RS256": {"RS", 256, -257}, "RS384": {"RS", 384, -258}, "RS512": {"RS", 512, -259},
	"HS256": {"HS", 256, 5}, "HS384": {"HS", 384, 6}, "HS512": {"HS", 512, 7},
	"EdDSA": {"EdDSA", 0, -8}, "none": {"none", 0, 0}, "ES256K": {"ES", 256, -47},
}

func ecSigBytes(r, s *big.Int, size int) []byte {
	out := make([]byte, 2*size)
	r.FillBytes(out[:size])
	s.FillBytes(out[size:])
	return out
}

// signRaw produces a genuinely valid signature of input for the named algorithm with key, when
// the key type admits one; otherwise an error.
func signRaw(alg string, key crypto.Signer, input []byte) ([]byte, error) {
	ai, ok := algTable[alg]
	if !ok {
		return nil, fmt.Errorf("unknown alg %s", alg)
	}
	switch ai.Family {
	case "none":
		return []byte{}, nil
	case "HS":
		_, hf := hashFor(ai.Bits)
		spki, err := x509.MarshalPKIXPublicKey(key.Public())
		if err != nil {
			return nil, err
		}
		m := hmac.New(hf, spki)
		m.Write(input)
		return m.Sum(nil), nil
	case "EdDSA":
		k, ok := key.(ed25519.PrivateKey)
		if !ok {
			return nil, fmt.Errorf("EdDSA needs an ed25519 key")
		}
		return ed25519.Sign(k, input), nil
	}
	h, hf := hashFor(ai.Bits)
	d := hf()
	d.Write(input)
	digest := d.Sum(nil)
	switch ai.Family {
	case "PS":
		k, ok := key.(*rsa.PrivateKey)
		if !ok {
			return nil, fmt.Errorf("PS needs an RSA key")
		}
		return rsa.SignPSS(rand.Reader, k, h, digest, &rsa.PSSOptions{SaltLength: rsa.PSSSaltLengthEqualsHash})
	case "RS":
		k, ok := key.(*rsa.PrivateKey)
		if !ok {
			return nil, fmt.Errorf("RS needs an RSA key")
		}
		return rsa.SignPKCS1v15(rand.Reader, k, h, digest)
	case "ES":
		k, ok := key.(*ecdsa.PrivateKey)
		if !ok {
			return nil, fmt.Errorf("ES needs an EC key")
		}
		r, s, err := ecdsa.Sign(rand.Reader, k, digest)
		if err != nil {
			return nil, err
		}
		return ecSigBytes(r, s, (k.Curve.Params().BitSize+7)/8), nil
	}
	return nil, fmt.Errorf("unsupported family")
}

// verifyRaw: does sig verify over input under pub with the named algorithm (six approved only)?
func verifyRaw(alg string, pub crypto.PublicKey, input, sig []byte, coseRules bool) bool {
	ai, ok := algTable[alg]
	if !ok || (ai.Family != "PS" && ai.Family != "ES") || alg == "ES256K" {
		return false
	}
	h, hf := hashFor(ai.Bits)
	d := hf()
	d.Write(input)
	digest := d.Sum(nil)
	switch ai.Family {
	case "PS":
		k, ok := pub.(*rsa.PublicKey)
		if !ok {
			return false
		}
		salt := rsa.PSSSaltLengthAuto // golang-jwt's verify option
		if coseRules {
			salt = rsa.PSSSaltLengthEqualsHash // go-cose's
		}
		return rsa.VerifyPSS(k, h, digest, sig, &rsa.PSSOptions{SaltLength: salt}) == nil
	case "ES":
		k, ok := pub.(*ecdsa.PublicKey)
		if !ok {
			return false
		}
		size := map[int]int{256: 32, 384: 48, 512: 66}[ai.Bits]
		if len(sig) != 2*size {
			return false
		}
		r := new(big.Int).SetBytes(sig[:size])
		s := new(big.Int).SetBytes(sig[size:])
		return ecdsa.Verify(k, digest, r, s)
	}
	return false
}

// ---------------- JWS ----------------

type jMember struct {
	Key string
	Raw string // raw JSON text of the value
}

type jwsSpec struct {
	Protected    []jMember // ordered, duplicates allowed
	ProtectedTxt *string   // overrides Protected: the text that is base64url-encoded
	ProtectedB64 *string   // overrides everything: the value of the "protected" member
	Payload      []byte
	PayloadB64   *string
	Chain        [][]byte
	ChainRaw     *string // raw JSON for x5c
	Agent        string
	TS           []byte
	SignAlg      string
	SignKey      crypto.Signer
	Sig          []byte // if non-nil, used instead of signing
	SigB64       *string
	ExtraTop     []jMember
	ExtraHeader  []jMember
}

func jstr(s string) string { b, _ := json.Marshal(s); return string(b) }

func membersJSON(ms []jMember) string {
	var b bytes.Buffer
	b.WriteByte('{')
	for i, m := range ms {
		if i > 0 {
			b.WriteByte(',')
		}
		b.WriteString(jstr(m.Key))
		b.WriteByte(':')
		b.WriteString(m.Raw)
	}
	b.WriteByte('}')
	return b.String()
}

func (s *jwsSpec) protectedB64() string {
	if s.ProtectedB64 != nil {
		return *s.ProtectedB64
	}
	txt := membersJSON(s.Protected)
	if s.ProtectedTxt != nil {
		txt = *s.ProtectedTxt
	}
	return base64.RawURLEncoding.EncodeToString([]byte(txt))
}

func (s *jwsSpec) encode() ([]byte, error) {
	p := s.protectedB64()
	pl := base64.RawURLEncoding.EncodeToString(s.Payload)
	if s.PayloadB64 != nil {
		pl = *s.PayloadB64
	}
	sig := s.Sig
	if sig == nil && s.SigB64 == nil {
		var err error
		sig, err = signRaw(s.SignAlg, s.SignKey, []byte(p+"."+pl))
		if err != nil {
			return nil, err
		}
	}
	sigB := base64.RawURLEncoding.EncodeToString(sig)
	if s.SigB64 != nil {
		sigB = *s.SigB64
	}
	var hdr []jMember
	if s.ChainRaw != nil {
		hdr = append(hdr, jMember{"x5c", *s.ChainRaw})
	} else {
		cs := make([]string, len(s.Chain))
		for i, c := range s.Chain {
			cs[i] = base64.StdEncoding.EncodeToString(c)
		}
		b, _ := json.Marshal(cs)
		hdr = append(hdr, jMember{"x5c", string(b)})
	}
	if s.Agent != "" {
		hdr = append(hdr, jMember{"io.cncf.notary.signingAgent", jstr(s.Agent)})
	}
	if s.TS != nil {
		hdr = append(hdr, jMember{"io.cncf.notary.timestampSignature", jstr(base64.StdEncoding.EncodeToString(s.TS))})
	}
	hdr = append(hdr, s.ExtraHeader...)
	top := []jMember{{"payload", jstr(pl)}, {"protected", jstr(p)}, {"header", membersJSON(hdr)}, {"signature", jstr(sigB)}}
	top = append(top, s.ExtraTop...)
	return []byte(membersJSON(top)), nil
}

// ---------------- COSE ----------------

type cEntry struct {
	Label any // int64 / string / anything cbor can encode
	Value any // any Go value, or cbor.RawMessage for exact bytes
}

type coseSpec struct {
	Protected      []cEntry
	ProtectedBytes []byte // overrides Protected: the content of the protected bstr
	Unprotected    []cEntry
	Payload        []byte
	NilPayload     bool
	SignAlg        string
	SignKey        crypto.Signer
	Sig            []byte
	Untagged       bool
}

var cborEnc, _ = cbor.EncOptions{Sort: cbor.SortNone}.EncMode()

func cborRaw(v any) []byte {
	if r, ok := v.(cbor.RawMessage); ok {
		return r
	}
	b, err := cborEnc.Marshal(v)
	if err != nil {
		panic(err)
	}
	return b
}

func cborHead(major byte, n int) []byte {
	switch {
	case n < 24:
		return []byte{major<<5 | byte(n)}
	case n < 256:
		return []byte{major<<5 | 24, byte(n)}
	case n < 65536:
		return []byte{major<<5 | 25, byte(n >> 8), byte(n)}
	}
	return []byte{major<<5 | 26, byte(n >> 24), byte(n >> 16), byte(n >> 8), byte(n)}
}

func cborMap(es []cEntry) []byte {
	out := cborHead(5, len(es))
	for _, e := range es {
		out = append(out, cborRaw(e.Label)...)
		out = append(out, cborRaw(e.Value)...)
	}
	return out
}

func cborBstr(b []byte) []byte { return append(cborHead(2, len(b)), b...) }

// CBOR time encodings
func cborTag1Int(sec int64) cbor.RawMessage { return append([]byte{0xc1}, cborRaw(sec)...) }
func cborTag1Float(f float64) cbor.RawMessage {
	return append([]byte{0xc1}, cborRaw(f)...)
}
func cborTag0(s string) cbor.RawMessage { return append([]byte{0xc0}, cborRaw(s)...) }

func sigStructure(protected, payload []byte) []byte {
	out := cborHead(4, 4)
	out = append(out, cborRaw("Signature1")...)
	out = append(out, cborBstr(protected)...)
	out = append(out, cborBstr(nil)...)
	out = append(out, cborBstr(payload)...)
	return out
}

func (s *coseSpec) protectedBytes() []byte {
	if s.ProtectedBytes != nil {
		return s.ProtectedBytes
	}
	if len(s.Protected) == 0 {
		return []byte{}
	}
	return cborMap(s.Protected)
}

func (s *coseSpec) encode() ([]byte, error) {
	p := s.protectedBytes()
	sig := s.Sig
	if sig == nil {
		var err error
		sig, err = signRaw(s.SignAlg, s.SignKey, sigStructure(p, s.Payload))
		if err != nil {
			return nil, err
		}
	}
	var out []byte
	if !s.Untagged {
		out = append(out, 0xd2) // tag 18
	}
	out = append(out, cborHead(4, 4)...)
	out = append(out, cborBstr(p)...)
	out = append(out, cborMap(s.Unprotected)...)
	if s.NilPayload {
		out = append(out, 0xf6)
	} else {
		out = append(out, cborBstr(s.Payload)...)
	}
	out = append(out, cborBstr(sig)...)
	return out, nil
}

// keyAlgNum: the algorithm (1..6) dictated by a public key, 0 if the key is not one of the six supported kinds
func keyAlgNum(pub crypto.PublicKey) int {
	switch k := pub.(type) {
	case *rsa.PublicKey:
		switch k.Size() * 8 {
		case 2048:
			return 1
		case 3072:
			return 2
		case 4096:
			return 3
		}
	case *ecdsa.PublicKey:
		switch k.Curve.Params().BitSize {
		case 256:
			return 4
		case 384:
			return 5
		case 521:
			return 6
		}
	}
	return 0
}
