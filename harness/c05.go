package main

import (
	"fmt"
	"time"
)

func init() { register("C05", "Run.C05", genC05) }

type dpBehav struct {
	name string
	mk   func() crlDelivery
}

func kc() []entrySpec   { return []entrySpec{{Match: true, Reason: 1, RTime: 2, Inv: "none"}} }
func hold() []entrySpec { return []entrySpec{{Match: true, Reason: 6, RTime: 2, Inv: "none"}} }

func dpAlphabet() []dpBehav {
	base := func(f func(b *crlSpec)) *crlSpec {
		b := &crlSpec{Number: 5, Next: "+1h", Signer: "issuer", Entries: []entrySpec{{Match: false, Reason: 1, RTime: 1, Inv: "none"}}}
		if f != nil {
			f(b)
		}
		return b
	}
	delta := func(f func(d *crlSpec)) *crlSpec {
		d := &crlSpec{Number: 6, Next: "+1h", Signer: "issuer", Indicator: "5"}
		if f != nil {
			f(d)
		}
		return d
	}
	B := func(name string, fb func(b *crlSpec), withDelta bool, fd func(d *crlSpec)) dpBehav {
		return dpBehav{name, func() crlDelivery {
			d := crlDelivery{Base: base(fb)}
			if withDelta {
				d.Delta = delta(fd)
			}
			return d
		}}
	}
	return []dpBehav{
		B("clean", nil, false, nil),
		B("lists-cert", func(b *crlSpec) { b.Entries = kc() }, false, nil),
		B("lists-hold", func(b *crlSpec) { b.Entries = hold() }, false, nil),
		B("wrong-signer", func(b *crlSpec) { b.Signer = "other" }, false, nil),
		B("bad-signature", func(b *crlSpec) { b.Signer = "badsig" }, false, nil),
		B("expired", func(b *crlSpec) { b.Next = "-1h" }, false, nil),
		B("no-nextupdate", func(b *crlSpec) { b.Next = "absent" }, false, nil),
		B("crit-ext", func(b *crlSpec) { b.CritExt = true }, false, nil),
		B("idp-critical", func(b *crlSpec) { b.IDP = true }, false, nil),
		B("entry-crit-matching", func(b *crlSpec) { b.Entries = []entrySpec{{Match: true, Reason: 8, RTime: 1, Inv: "none", Crit: true}} }, false, nil),
		B("entry-crit-other", func(b *crlSpec) {
			b.Entries = []entrySpec{{Match: false, Reason: 1, RTime: 1, Inv: "none", Crit: true}}
		}, false, nil),
		B("base-nonumber", func(b *crlSpec) { b.Number = -1 }, false, nil),
		{"fetch-fail", func() crlDelivery { return crlDelivery{FetchErr: true} }},
		B("delta-clean", nil, true, nil),
		B("delta-lists-cert", nil, true, func(d *crlSpec) { d.Entries = kc() }),
		B("delta-removes-hold", func(b *crlSpec) { b.Entries = hold() }, true, func(d *crlSpec) { d.Entries = []entrySpec{{Match: true, Reason: 8, RTime: 3, Inv: "none"}} }),
		B("delta-number-equal", nil, true, func(d *crlSpec) { d.Number = 5 }),
		B("delta-number-lower", nil, true, func(d *crlSpec) { d.Number = 4 }),
		B("delta-ind-base-1", nil, true, func(d *crlSpec) { d.Indicator = "4" }),
		B("delta-number-equal-ind-lower", nil, true, func(d *crlSpec) { d.Number = 5; d.Indicator = "4" }),
		B("delta-number-lower-ind-lower", nil, true, func(d *crlSpec) { d.Number = 4; d.Indicator = "2" }),
		B("delta-number-base+1-ind-0", nil, true, func(d *crlSpec) { d.Number = 6; d.Indicator = "0" }),
		B("delta-number-huge", nil, true, func(d *crlSpec) { d.Number = 1 << 40; d.Indicator = "5" }),
		B("delta-ind-base+1", nil, true, func(d *crlSpec) { d.Indicator = "6" }),
		// numbers beyond 64 bits (CRL numbers may have 20 octets): 2^64+50 against base 5, 2^64+5 (low 64 bits equal the base number)
		B("delta-ind-2^64+50", nil, true, func(d *crlSpec) { d.Indicator = "18446744073709551666"; d.NumberBig = "18446744073709551700" }),
		B("delta-ind-2^64+base", nil, true, func(d *crlSpec) { d.Indicator = "18446744073709551621"; d.NumberBig = "18446744073709551700" }),
		B("base-2^64+9-delta-ind-2^80+7", func(b *crlSpec) { b.NumberBig = "18446744073709551625" }, true, func(d *crlSpec) {
			d.Indicator = "1208925819614629174706183"
			d.NumberBig = "1208925819614629174706190"
		}),
		B("base-2^64+9-delta-ind-2^64+9", func(b *crlSpec) { b.NumberBig = "18446744073709551625" }, true, func(d *crlSpec) {
			d.Indicator = "18446744073709551625"
			d.NumberBig = "18446744073709551626"
		}),
		B("base-2^64+9-delta-number-9", func(b *crlSpec) { b.NumberBig = "18446744073709551625" }, true, func(d *crlSpec) { d.Indicator = "5"; d.Number = 9 }),
		B("delta-ind-unparsable", nil, true, func(d *crlSpec) { d.Indicator = "bad" }),
		B("delta-no-indicator", nil, true, func(d *crlSpec) { d.Indicator = "" }),
		B("delta-expired", nil, true, func(d *crlSpec) { d.Next = "-1h" }),
		B("delta-no-nextupdate", nil, true, func(d *crlSpec) { d.Next = "absent" }),
		B("delta-wrong-signer", nil, true, func(d *crlSpec) { d.Signer = "other" }),
		B("delta-crit-ext", nil, true, func(d *crlSpec) { d.CritExt = true }),
		B("delta-nonumber", nil, true, func(d *crlSpec) { d.Number = -1 }),
		B("base-nonumber+delta", func(b *crlSpec) { b.Number = -1 }, true, nil),
		// the base CRL carries a freshest-CRL extension but the bundle has no delta (the extension names no URI, or the fetcher delivered base-only)
		B("base-freshest-ext-nonuri-no-delta", func(b *crlSpec) {
			b.FreshestRaw = []byte{0x30, 0x11, 0x30, 0x0f, 0xA0, 0x0d, 0xA0, 0x0b, 0x82, 0x09, 'c', 'r', 'l', '.', 'e', 'x', '.', 'c', 'o'}
		}, false, nil),
	}
}

func genC05(tier string, rng *RNG, w *CaseWriter) {
	w.ShardSize = 200
	alpha := dpAlphabet()
	type variant struct {
		fresh, noCRLSign, http bool
		st                     time.Time
		freshRaw               string // shape of the certificate's freshest-CRL extension (with fresh)
	}
	run := func(bs []dpBehav, v variant) {
		var nc map[int]bool
		if v.noCRLSign {
			nc = map[int]bool{1: true}
		}
		chain := buildRevChain("cs", []certSlots{{NCRL: len(bs), Freshest: v.fresh, FreshestRaw: v.freshRaw}}, nc, nil)
		urls := chain.xs()[0].CRLDistributionPoints
		m := map[string]crlDelivery{}
		var names []string
		for i, b := range bs {
			m[urls[i]] = b.mk()
			names = append(names, b.name)
		}
		rc := &revCase{Entry: 0, Purpose: "cs", Chain: chain, CRL: m, ST: v.st, HTTPCRL: v.http, Labels: names}
		term, desc, outs, panicked := runRevCase(rc)
		cls := "?"
		if len(outs) > 0 {
			cls = resTerm(outs[0].Result)
		}
		if panicked {
			cls = "panic"
		}
		desc["variant"] = fmt.Sprintf("fresh=%v nocrlsign=%v http=%v st=%v", v.fresh, v.noCRLSign, v.http, !v.st.IsZero())
		for _, n := range names {
			w.Count("dp:" + n)
		}
		w.Count(fmt.Sprintf("points:%d", len(bs)))
		nontriv := false
		for _, n := range names {
			if n != "clean" {
				nontriv = true
			}
		}
		w.Emit("(mk @ID@ "+term+")", desc, cls, nontriv || v.fresh || v.noCRLSign)
	}
	plain := variant{}
	// the certificate's freshest-CRL pointer in shapes that name no usable URI: it is still a pointer that must be honoured
	dnsOnly := string([]byte{0x30, 0x11, 0x30, 0x0f, 0xA0, 0x0d, 0xA0, 0x0b, 0x82, 0x09, 'c', 'r', 'l', '.', 'e', 'x', '.', 'c', 'o'})
	mailFirst := string([]byte{0x30, 0x17, 0x30, 0x15, 0xA0, 0x13, 0xA0, 0x11, 0x81, 0x05, 'a', '@', 'b', '.', 'c', 0x86, 0x08, 'h', 't', 't', 'p', ':', '/', '/', 'x'})
	issuerOnly := string([]byte{0x30, 0x0b, 0x30, 0x09, 0xA2, 0x07, 0x82, 0x05, 'i', 's', 's', 'u', 'r'})
	for _, a := range alpha {
		for _, raw := range []string{dnsOnly, mailFirst, issuerOnly} {
			run([]dpBehav{a}, variant{fresh: true, freshRaw: raw})
		}
	}
	for _, a := range alpha {
		for _, v := range []variant{plain, {fresh: true}, {noCRLSign: true}, {http: true}, {st: stRef}, {fresh: true, http: true}} {
			run([]dpBehav{a}, v)
		}
	}
	for i, a := range alpha {
		for j, b := range alpha {
			v := plain
			switch (i*7 + j) % 6 {
			case 1:
				v.http = true
			case 2:
				v.fresh = true
			case 3:
				v.st = stRef
			}
			run([]dpBehav{a, b}, v)
		}
	}
	nt := 400
	if tier == "thorough" {
		nt = 0
		for _, a := range alpha {
			for _, b := range alpha {
				for k, c := range alpha {
					v := plain
					if k%5 == 1 {
						v.http = true
					}
					run([]dpBehav{a, b, c}, v)
				}
			}
		}
	}
	for k := 0; k < nt; k++ {
		v := variant{fresh: rng.Chance(1, 6), http: rng.Chance(1, 4), noCRLSign: rng.Chance(1, 12)}
		if rng.Bool() {
			v.st = stRef
		}
		pickB := func() dpBehav {
			if rng.Chance(1, 2) {
				return Pick(rng, []dpBehav{alpha[0], alpha[13], alpha[8]}) // mostly-valid stream
			}
			return Pick(rng, alpha)
		}
		run([]dpBehav{pickB(), pickB(), pickB()}, v)
	}
}
