package main

import (
	"fmt"
	"time"

	"golang.org/x/crypto/ocsp"
)

func init() { register("C04", "Run.C04", genC04) }

func ocspAlphabet() []ocspBehav {
	R := func(signer, serial string, status int, next, inv string) ocspBehav {
		return ocspBehav{Kind: "resp", Signer: signer, Serial: serial, Status: status, Next: next, Inv: inv}
	}
	al := []ocspBehav{
		R("issuer", "match", ocsp.Good, "+1h", "none"),
		R("issuer", "match", ocsp.Revoked, "+1h", "none"),
		R("issuer", "match", ocsp.Unknown, "+1h", "none"),
		R("delegate-eku", "match", ocsp.Good, "+1h", "none"),
		R("delegate-eku", "match", ocsp.Revoked, "+1h", "none"),
		R("delegate-noeku", "match", ocsp.Good, "+1h", "none"),
		R("self", "match", ocsp.Good, "+1h", "none"),
		R("unrelated-embedded", "match", ocsp.Good, "+1h", "none"),
		R("otherkey", "match", ocsp.Good, "+1h", "none"),
		R("issuer-embedded", "match", ocsp.Good, "+1h", "none"),
		R("issuer", "other", ocsp.Good, "+1h", "none"),
		R("issuer", "match", ocsp.Good, "-1h", "none"),
		R("issuer", "match", ocsp.Good, "absent", "none"),
		R("issuer", "match", ocsp.Revoked, "-1h", "after"),
		R("issuer", "match", ocsp.Revoked, "absent", "none"),
		R("issuer", "match", ocsp.Revoked, "+1h", "before"),
		R("issuer", "match", ocsp.Revoked, "+1h", "equal"),
		R("issuer", "match", ocsp.Revoked, "+1h", "after"),
		R("issuer", "match", ocsp.Revoked, "+1h", "malformed"),
		R("issuer", "match", ocsp.Revoked, "+1h", "trailing"),
		R("issuer", "match", ocsp.Good, "+1h", "after"),
		R("issuer", "match", ocsp.Unknown, "+1h", "after"),
		R("delegate-noeku", "match", ocsp.Revoked, "+1h", "after"),
		R("delegate-othereku", "match", ocsp.Good, "+1h", "none"),
		R("sibling-issuer-name", "match", ocsp.Good, "+1h", "none"),
		R("sibling-issuer-name", "match", ocsp.Revoked, "+1h", "after"),
	}
	c := R("issuer", "match", ocsp.Good, "+1h", "none")
	c.Crit = true
	al = append(al, c)
	bs := R("issuer", "match", ocsp.Good, "+1h", "none")
	bs.BadSig = true
	al = append(al, bs)
	for _, k := range []string{"badurl", "scheme", "emptyurl", "blankurl", "transport", "timeout", "http404", "http500", "http302", "http500-good-body", "http404-good-body", "http201-good-body", "empty", "truncated", "oversized", "garbage", "readerr",
		"canned-unauthorized", "canned-malformed", "canned-internal", "canned-trylater", "canned-sigrequired"} {
		al = append(al, ocspBehav{Kind: k})
	}
	return al
}

func runOCSPCase(w *CaseWriter, bs []ocspBehav, entry int, st time.Time, nCRL int, labels []string) {
	runOCSPCaseSerial(w, bs, entry, st, nCRL, labels, 0)
}

// serialLen > 0: the checked certificate has a serial number of that many octets (GET / POST request encodings)
func runOCSPCaseSerial(w *CaseWriter, bs []ocspBehav, entry int, st time.Time, nCRL int, labels []string, serialLen int) {
	var kinds []string
	for _, b := range bs {
		switch b.Kind {
		case "badurl", "scheme", "emptyurl", "blankurl":
			kinds = append(kinds, b.Kind)
		default:
			kinds = append(kinds, "ok")
		}
	}
	var big map[int]int
	if serialLen > 0 {
		big = map[int]int{0: serialLen}
		labels = append(labels, fmt.Sprintf("serial-octets=%d", serialLen))
	}
	chain := buildRevChain("cs", []certSlots{{OCSP: kinds, NCRL: nCRL}}, nil, big)
	urls := chain.xs()[0].OCSPServer
	m := map[string]ocspBehav{}
	var names []string
	for i, b := range bs {
		m[urls[i]] = b
		names = append(names, b.String())
	}
	rc := &revCase{Entry: entry, Purpose: "cs", Chain: chain, OCSP: m, ST: st, Labels: append(names, labels...)}
	term, desc, outs, panicked := runRevCase(rc)
	cls := "?"
	if len(outs) > 0 {
		cls = resTerm(outs[0].Result)
	}
	if panicked {
		cls = "panic"
	}
	for _, n := range names {
		w.Count("ocsp:" + n)
	}
	w.Count(fmt.Sprintf("urls:%d", len(bs)))
	w.Count(fmt.Sprintf("entry:%d", entry))
	w.Emit("(mk @ID@ "+term+")", desc, cls, true)
}

func genC04(tier string, rng *RNG, w *CaseWriter) {
	w.ShardSize = 200
	al := ocspAlphabet()
	w.Extra["alphabet"] = len(al)
	for _, a := range al {
		for _, st := range []time.Time{{}, stRef, stRef.Add(600 * time.Millisecond), stRef.Add(-400 * time.Millisecond)} {
			for _, entry := range []int{0, 1} {
				runOCSPCase(w, []ocspBehav{a}, entry, st, 0, nil)
			}
		}
	}
	// request encodings: serial numbers that keep the request below 255 characters (GET), below it only before
	// URL-escaping (60 octets), and far above it (POST)
	for k, a := range al {
		for _, n := range []int{20, 60, 150} {
			runOCSPCaseSerial(w, []ocspBehav{a}, k%2, time.Time{}, 0, nil, n)
		}
	}
	for i, a := range al {
		for j, b := range al {
			st := time.Time{}
			if (i+j)%2 == 0 {
				st = stRef
			}
			runOCSPCase(w, []ocspBehav{a, b}, (i*3+j)%2, st, 0, nil)
		}
	}
	nt := 600
	if tier == "thorough" {
		nt = 12000
	}
	for k := 0; k < nt; k++ {
		st := time.Time{}
		if rng.Bool() {
			st = stRef
		}
		runOCSPCase(w, []ocspBehav{Pick(rng, al), Pick(rng, al), Pick(rng, al)}, rng.Intn(2), st, 0, nil)
	}
}
