// mutgen: classic mutation operators over the non-test sources a property is anchored in.
// Usage: mutgen <repo root> <out dir> file...   Writes <out>/mNNNN.json {file, start, end, old, new, op, line}.
package main

import (
	"encoding/json"
	"fmt"
	"go/ast"
	"go/parser"
	"go/token"
	"os"
	"path/filepath"
	"strings"
)

type mut struct {
	File  string `json:"file"`
	Start int    `json:"start"`
	End   int    `json:"end"`
	Old   string `json:"old"`
	New   string `json:"new"`
	Op    string `json:"op"`
	Line  int    `json:"line"`
	Func  string `json:"func"`
}

var wave2 = os.Getenv("MUTGEN_WAVE") == "2"
var wave3 = os.Getenv("MUTGEN_WAVE") == "3"

func main() {
	root, out := os.Args[1], os.Args[2]
	os.MkdirAll(out, 0o755)
	var ms []mut
	for _, rel := range os.Args[3:] {
		path := filepath.Join(root, rel)
		src, err := os.ReadFile(path)
		if err != nil {
			panic(err)
		}
		fset := token.NewFileSet()
		f, err := parser.ParseFile(fset, path, src, 0)
		if err != nil {
			panic(err)
		}
		off := func(p token.Pos) int { return fset.Position(p).Offset }
		for _, d := range f.Decls {
			fd, ok := d.(*ast.FuncDecl)
			if !ok || fd.Body == nil {
				continue
			}
			fn := fd.Name.Name
			retErr := false
			if fd.Type.Results != nil && len(fd.Type.Results.List) > 0 {
				if id, ok := fd.Type.Results.List[len(fd.Type.Results.List)-1].Type.(*ast.Ident); ok && id.Name == "error" {
					retErr = true
				}
			}
			add := func(start, end token.Pos, repl, op string) {
				s, e := off(start), off(end)
				ms = append(ms, mut{rel, s, e, string(src[s:e]), repl, op, fset.Position(start).Line, fn})
			}
			retBool := false
			if fd.Type.Results != nil && len(fd.Type.Results.List) == 1 {
				if id, ok := fd.Type.Results.List[0].Type.(*ast.Ident); ok && id.Name == "bool" && len(fd.Type.Results.List[0].Names) <= 1 {
					retBool = true
				}
			}
			if wave3 {
				ast.Inspect(fd.Body, func(n ast.Node) bool {
					switch x := n.(type) {
					case *ast.IfStmt:
						c := string(src[off(x.Cond.Pos()):off(x.Cond.End())])
						add(x.Cond.Pos(), x.Cond.End(), "!("+c+")", "negate-if")
					case *ast.ReturnStmt:
						if retBool && len(x.Results) == 1 {
							if id, ok := x.Results[0].(*ast.Ident); !ok || (id.Name != "true" && id.Name != "false") {
								c := string(src[off(x.Results[0].Pos()):off(x.Results[0].End())])
								add(x.Results[0].Pos(), x.Results[0].End(), "!("+c+")", "negate-return")
							}
						}
					case *ast.CallExpr:
						for i := 0; i+1 < len(x.Args); i++ {
							a, b := x.Args[i], x.Args[i+1]
							simple := func(e ast.Expr) bool {
								switch e.(type) {
								case *ast.Ident, *ast.SelectorExpr, *ast.IndexExpr:
									return true
								}
								return false
							}
							if simple(a) && simple(b) {
								sa, sb := string(src[off(a.Pos()):off(a.End())]), string(src[off(b.Pos()):off(b.End())])
								if sa != sb {
									add(a.Pos(), b.End(), sb+string(src[off(a.End()):off(b.Pos())])+sa, "swap-args")
								}
							}
						}
					case *ast.CaseClause:
						if x.List != nil && len(x.Body) > 0 { // not the default clause: drop its body (the case does nothing)
							add(x.Body[0].Pos(), x.Body[len(x.Body)-1].End(), "", "empty-case")
						}
					case *ast.IndexExpr:
						if be, ok := x.Index.(*ast.BinaryExpr); ok && (be.Op == token.ADD || be.Op == token.SUB) {
							if bl, ok := be.Y.(*ast.BasicLit); ok && bl.Kind == token.INT {
								add(be.Pos(), be.End(), string(src[off(be.X.Pos()):off(be.X.End())]), "index-drop-offset")
							}
						}
					}
					return true
				})
				continue
			}
			ast.Inspect(fd.Body, func(n ast.Node) bool {
				switch x := n.(type) {
				case *ast.BinaryExpr:
					if wave2 {
						return true
					}
					var alts []string
					switch x.Op {
					case token.LSS:
						alts = []string{"<="}
					case token.LEQ:
						alts = []string{"<"}
					case token.GTR:
						alts = []string{">="}
					case token.GEQ:
						alts = []string{">"}
					case token.EQL:
						alts = []string{"!="}
					case token.NEQ:
						alts = []string{"=="}
					case token.LAND:
						alts = []string{"||"}
					case token.LOR:
						alts = []string{"&&"}
					case token.ADD:
						if _, isStr := x.X.(*ast.BasicLit); !isStr {
							if _, isStr2 := x.Y.(*ast.BasicLit); isStr2 && x.Y.(*ast.BasicLit).Kind == token.INT {
								alts = []string{"-"}
							}
						}
					case token.SUB:
						if bl, ok := x.Y.(*ast.BasicLit); ok && bl.Kind == token.INT {
							alts = []string{"+"}
						}
					}
					for _, a := range alts {
						add(x.OpPos, x.OpPos+token.Pos(len(x.Op.String())), a, "op:"+x.Op.String()+"->"+a)
					}
					// drop one side of a logical connective
					if x.Op == token.LAND || x.Op == token.LOR {
						add(x.Pos(), x.End(), string(src[off(x.X.Pos()):off(x.X.End())]), "keep-left")
						add(x.Pos(), x.End(), string(src[off(x.Y.Pos()):off(x.Y.End())]), "keep-right")
					}
				case *ast.UnaryExpr:
					if !wave2 && x.Op == token.NOT {
						add(x.Pos(), x.X.Pos(), "", "drop-not")
					}
				case *ast.IfStmt:
					// delete a guard: an if without else whose body leaves the function / loop
					if !wave2 && x.Else == nil && len(x.Body.List) > 0 {
						switch x.Body.List[len(x.Body.List)-1].(type) {
						case *ast.ReturnStmt, *ast.BranchStmt:
							if x.Init == nil {
								add(x.Pos(), x.End(), "", "delete-guard")
							} else {
								// keep the init statement's effects: replace the condition by false
								add(x.Cond.Pos(), x.Cond.End(), "false", "guard-false")
							}
						}
					}
				case *ast.ExprStmt:
					if wave2 {
						if _, ok := x.X.(*ast.CallExpr); ok {
							add(x.Pos(), x.End(), "", "delete-call")
						}
					}
				case *ast.AssignStmt:
					if wave2 && x.Tok != token.DEFINE {
						add(x.Pos(), x.End(), "", "delete-assign")
					}
				case *ast.IncDecStmt:
					if wave2 {
						add(x.Pos(), x.End(), "", "delete-incdec")
					}
				case *ast.ReturnStmt:
					if wave2 && retErr && len(x.Results) >= 1 {
						last := x.Results[len(x.Results)-1]
						if id, ok := last.(*ast.Ident); !ok || id.Name != "nil" {
							add(last.Pos(), last.End(), "nil", "return-nil-error")
						}
					}
				case *ast.BranchStmt:
					if !wave2 && x.Label == nil {
						switch x.Tok {
						case token.BREAK:
							add(x.Pos(), x.End(), "continue", "break->continue")
						case token.CONTINUE:
							add(x.Pos(), x.End(), "break", "continue->break")
						}
					}
				case *ast.BasicLit:
					if wave2 && x.Kind == token.INT && x.Value != "0" && x.Value != "1" && !strings.HasPrefix(x.Value, "0x") {
						add(x.Pos(), x.End(), "("+x.Value+" + 1)", "int+1")
						add(x.Pos(), x.End(), "("+x.Value+" - 1)", "int-1")
					}
					if !wave2 && x.Kind == token.INT && (x.Value == "0" || x.Value == "1") {
						r := "1"
						if x.Value == "1" {
							r = "0"
						}
						add(x.Pos(), x.End(), r, "int:"+x.Value+"->"+r)
					}
				case *ast.Ident:
					if !wave2 && (x.Name == "true" || x.Name == "false") {
						r := "false"
						if x.Name == "false" {
							r = "true"
						}
						add(x.Pos(), x.End(), r, "bool-flip")
					}
				}
				return true
			})
		}
	}
	for i, m := range ms {
		b, _ := json.Marshal(m)
		os.WriteFile(filepath.Join(out, fmt.Sprintf("m%04d.json", i)), b, 0o644)
	}
	byOp := map[string]int{}
	for _, m := range ms {
		byOp[strings.SplitN(m.Op, ":", 2)[0]]++
	}
	fmt.Println(len(ms), byOp)
}
