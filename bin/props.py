# Per-property configuration of bin/check.
PROPS = {
    "C19": {
        "rule": "all chains x all trust lists over a pool of 7 real certificates with look-alikes (same subject+key other serial / other validity / other key / cross-signed), exhaustive up to the length in extra.exhaustive_up_to_len, sampled beyond; non-trivial = chain and trust list both non-empty; distinct by Coq term",
        "exhaustive": True,
        "assumptions": ["x509.Certificate.Equal compares raw DER (library oracle); returned certificate identified by pointer identity in the trust slice"],
    },
}
