# Per-property configuration of bin/check.
PROPS = {
    "C19": {
        "level_text": "C19_iff / C19_some_iff / C19_only_raw / C19_arg_errors / C19_ast_iff are proved for chains and trust lists of every length (induction), closed under the global context; the model is run against the implementation on every chain x trust list over a 9-certificate look-alike pool up to the stated length.",
        "technique": "Coq theorem: executable scan <-> declarative leaf-most first match (all lengths) + exhaustive small-scope differential correspondence",
        "rule": "all chains x all trust lists over a pool of 9 real certificates with look-alikes (same subject+key other serial / other validity / other key / cross-signed; re-issued and cross-signed CA look-alikes), exhaustive up to the length in extra.exhaustive_up_to_len, sampled beyond; non-trivial = chain and trust list both non-empty; distinct by Coq term",
        "exhaustive": True,
        "assumptions": ["x509.Certificate.Equal compares raw DER (library oracle); returned certificate identified by pointer identity in the trust slice"],
    },
    "C03": {
        "level_text": "C03_exact proves, for chains of every length and every signature oracle, that the model of ValidateCodeSigningCertChain accepts exactly the chains meeting the declarative text of the property (position-by-position Forall spec); since model = spec by theorem every disagreement between model and implementation on a generated chain is reported as a violation with that chain.",
        "technique": "Coq theorem: loop model <-> declarative conformance (induction over the chain) + differential correspondence on generated real certificates",
        "rule": "conformant chains of length 1..max_len (extra.max_len) for six leaf key kinds; every single modification (about 60: each key-usage bit, KU absent/non-critical, each EKU, CA flag, BC, path length depth-1/depth/depth+1/0, wrong issuer name, wrong signer key, self-signed in place, re-issued twin of the next certificate, root not self-signed, unsupported keys, validity) at every position; swaps, reversal, drops, duplicates; (benign, violation) pairs; signing time nil / mid / at and 1 ns / 1 s outside each bound of each certificate; random stacks. Oracle answers (CheckSignatureFrom matrix, CheckSignature) computed by calling the stdlib on the generated certificates. non-trivial = modified or accepted; distinct by Coq term",
        "assumptions": ["crypto/x509 parsing and signature checks are oracles; the abstract certificate is read from the parsed x509.Certificate's public fields"],
    },
    "C14": {
        "level_text": "C14_exact (under WF, a fact about parsed certificates) proves model of ValidateTimestampingCertChain <-> declarative TSA-chain conformance for every chain length; C14_shared_walk states the shared ordering/issuance/root/CA walk; the revocation validator's demand is observed through purpose.Timestamping.",
        "technique": "Coq theorem: loop model <-> declarative conformance (induction over the chain) + differential correspondence on generated real certificates",
        "rule": "as C03 with a TSA-conformant base chain, plus all 16 subsets of {timeStamping, codeSigning, any, unknown OID} x both criticalities as the leaf EKU for chain lengths 1..3; observed through ValidateTimestampingCertChain and through the revocation validator configured with purpose.Timestamping",
        "assumptions": ["crypto/x509 parsing and signature checks are oracles; WF (EKU criticality code in {0,1,2}, non-empty ExtKeyUsage implies the extension is present) is a fact about crypto/x509 parsing"],
    },
    "C10": {
        "claimed": False,
        "rule": "real CRLs (x509.CreateRevocationList) delivered for the leaf's single distribution point: every single entry (reasons 0..10 x 6 invalidity shapes x critical flag) in base or delta; ordered pairs over a reduced alphabet split base/delta in every way; sampled lists of 2..6 entries over the full alphabet; signing time zero and non-zero; non-trivial = at least one entry for the certificate's serial",
    },
    "C05": {"claimed": False, "rule": "wip"},
    "C04": {"claimed": False, "rule": "wip"},
}
