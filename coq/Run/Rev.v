(* Shared case format of the revocation properties (C04, C05, C06, C10, C11, C12). *)
From NCG Require Export Model.Revocation.

Definition pos_out := (cres * list Z)%type.   (* result, URLs exchanged with for this certificate, in order *)

Record rcase := mk {
  r_id : Z;
  r_entry : Z;                          (* 0 = ValidateContext, 1 = ocsp.CheckStatus *)
  r_purpose : Z;
  r_chain : list cert; r_sf : list (list bool); r_ss : list bool;
  r_ocsp : list (Z * url_outcome);      (* what each OCSP URL does *)
  r_fetch : list (Z * fetch_outcome);   (* what fetching each CRL URL gives *)
  r_now : Z; r_st : Z;
  r_impl : option (list pos_out);       (* None = InvalidChainError, no results *)
  r_panicked : bool;
  r_iso : option (list pos_out);        (* C06 isolation: results of the companion run (None = not run) *)
  r_isopos : Z                          (* the position whose own URLs behave identically in both runs *)
}.

Fixpoint assoc {A} (d : A) (l : list (Z * A)) (k : Z) : A :=
  match l with [] => d | (k', v) :: r => if k =? k' then v else assoc d r k end.

Definition case_world (c : rcase) : world :=
  World (assoc UErr (r_ocsp c)) (assoc FetchErr (r_fetch c)) (r_now c).

Definition model_out (c : rcase) : option (list pos_out) :=
  let sf := mat_sigfrom (r_sf c) in let ss := vec_selfsig (r_ss c) in
  if r_entry c =? 1 then ocsp_check_status sf ss (r_purpose c) (case_world c) (r_st c) (r_chain c)
  else validate_ctx sf ss (r_purpose c) (case_world c) (r_st c) (r_chain c).

Definition Zlist_eqb := list_eqb Z.eqb.
Definition pos_eqb (a b : pos_out) : bool :=
  cres_eqb (fst a) (fst b) && Zlist_eqb (snd a) (snd b).
Definition out_eqb (a b : option (list pos_out)) : bool := option_eqb (list_eqb pos_eqb) a b.

(* full agreement of everything observed *)
Definition agrees (c : rcase) : bool := negb (r_panicked c) && out_eqb (model_out c) (r_impl c).

(* projections *)
Definition results_of (o : option (list pos_out)) : option (list rres) :=
  match o with None => None | Some l => Some (map (fun p => cr_result (fst p)) l) end.
Definition leaf_result (o : option (list pos_out)) : option rres :=
  match o with Some (p :: _) => Some (cr_result (fst p)) | _ => None end.
Definition leaf_cres (o : option (list pos_out)) : option cres :=
  match o with Some (p :: _) => Some (fst p) | _ => None end.
