(* Correspondence for C06.  Spec side (code 2), per non-root certificate naming a source the entry
   point uses: never NonRevokable; OK only with GoodEvidence; Revoked only with RevokedEvidence
   (booleans of Run/RevSpec.v, the notions of C06_fail_closed); and isolation: the result of the
   certificate at r_isopos is the same in the companion run r_iso, in which the behaviour of every
   URL of the OTHER certificates was replaced. *)
From NCG Require Export Run.RevSpec.
Definition case := rcase.

Definition pos_check (w : world) (st : Z) (standalone : bool) (i : nat) (c : cert) (is_root : bool) (o : pos_out) : Z :=
  if is_root then 0 else
  let r := cr_result (fst o) in
  let names := negb (null (c_ocsp c)) || (negb standalone && negb (null (c_crl c))) in
  if negb names then 0
  else if rres_eqb r RNonRevokable then 1
  else if rres_eqb r ROK && negb (good_evidence_b w st (negb standalone) c) then 2
  else if rres_eqb r RRevoked && negb (revoked_evidence_b w st (negb standalone) c) then 3
  else 0.

Definition iso_ok (c : rcase) : bool :=
  match r_impl c, r_iso c with
  | Some a, Some b =>
      let i := Z.to_nat (r_isopos c) in
      match nth_error a i, nth_error b i with
      | Some x, Some y => cres_eqb (fst x) (fst y) && Zlist_eqb (snd x) (snd y)
      | _, _ => false
      end
  | _, None => true
  | None, Some _ => false
  end.

Definition check_case (c : rcase) : verdict :=
  if r_panicked c then (r_id c, 2, 9) else
  match r_impl c with
  | None => if agrees c then (r_id c, 0, 0) else (r_id c, 1, 0)
  | Some outs =>
      let k := first_bad (pos_check (case_world c) (r_st c) (r_entry c =? 1)) 0 (r_chain c) outs in
      if negb (k =? 0) then (r_id c, 2, k)
      else if negb (iso_ok c) then (r_id c, 2, 4)
      else if agrees c then (r_id c, 0, 0) else (r_id c, 1, 0)
  end.
Definition check_all := collect check_case.
