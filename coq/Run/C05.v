(* Correspondence for C05.  The leaf names only CRL distribution points.  Spec side (code 2) is
   the property text via Properties/C05.v: clear_b u = true <-> the point delivered an authentic
   current bundle that does not list the certificate (clear_b_iff / C05_point_iff). *)
From NCG Require Export Run.Rev.
From NCG Require Import Proofs.CrlCheck.
Definition case := rcase.

(* the clauses, as a function of the world, the certificate's distribution points and the leaf's result *)
Definition c05_spec (w : world) (st : Z) (leaf : cert) (r : rres) : Z :=
  let clr := clear_b (w_fetch w) (w_now w) st (c_serial leaf) (c_freshest leaf) in
  let pc := point_check (w_fetch w) (w_now w) st (c_serial leaf) (c_freshest leaf) in
  let first := find (fun u => negb (clr u)) (c_crl leaf) in
  (* OK although some distribution point did not deliver an authentic current clear CRL *)
  if rres_eqb r ROK && negb (forallb clr (c_crl leaf)) then 1
  (* a point fails (first non-clear point does not list the certificate) but the result is not Unknown *)
  else if match first with Some u => match pc u with None => true | _ => false end | None => false end && negb (rres_eqb r RUnknown) then 2
  (* the first non-clear point lists the certificate but the result is not Revoked *)
  else if match first with Some u => match pc u with Some ERevoked => true | _ => false end | None => false end && negb (rres_eqb r RRevoked) then 3
  else 0.

Definition check_case (c : rcase) : verdict :=
  if r_panicked c then (r_id c, 2, 9) else
  match r_chain c, leaf_result (r_impl c) with
  | leaf :: _, Some r =>
      let k := c05_spec (case_world c) (r_st c) leaf r in
      if negb (k =? 0) then (r_id c, 2, k)
      else if agrees c then (r_id c, 0, 0) else (r_id c, 1, 0)
  | _, _ => if agrees c then (r_id c, 0, 0) else (r_id c, 1, 0)
  end.
Definition check_all := collect check_case.
