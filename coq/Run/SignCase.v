(* Shared case format of the signing properties (C08, C16). *)
From NCG Require Export Model.Sign.
From NCG Require Import Proofs.Header.
From NCG Require Export Run.Env.

Record scase := mk {
  s_id : Z;
  s_req : sreq;
  s_sf : list (list bool); s_ss : list bool;     (* oracles for the signer's chain *)
  s_out : Z;                 (* 0 error and no bytes | 1 envelope bytes | 2 panic | 3 error together with bytes *)
  s_verify : option content; (* parse + Verify() of the produced bytes *)
  s_tbs_ok : bool;           (* external signer: the bytes it was handed are the to-be-signed bytes of the produced envelope *)
  s_obj_ok : bool;           (* the envelope object's own Content() equals that of the returned bytes *)
  s_honest : bool;           (* the signer signs with the private key of the leaf certificate it returns *)
  s_ctor_wrong : bool        (* signature.NewLocalSigner accepted this chain with a private key that is not the leaf's *)
}.

Definition m_sign (c : scase) : sout := sign (mat_sigfrom (s_sf c)) (vec_selfsig (s_ss c)) (s_req c).

(* the content a valid request must come back as *)
Definition expected_content (q : sreq) (a : Z) (chain : list cert) : content :=
  let labels := match all_some (map (fun x => norm_key (ra_key x)) (q_attrs q)) with Some ls => ls | None => [] end in
  Content (q_payload q) (q_cty q) (q_scheme q) (trunc_s (q_time q)) (trunc_s (q_expiry q))
          (map (fun p => Attr (fst p) (ra_crit (snd p)) (ra_val (snd p))) (combine labels (q_attrs q)))
          a (q_sig q) (map c_raw chain) (q_agent q) 0.

(* ValidReq (Proofs/Sign.v) as a boolean *)
Definition valid_req_b (sf : cert -> cert -> bool) (ss : cert -> bool) (q : sreq) : bool :=
  let st := trunc_s (q_time q) in let ex := trunc_s (q_expiry q) in
  negb (q_payload q =? 0) && ((q_fmt q =? 1) || (q_pkind q =? 1)) && negb (st =? 0) && ((ex =? 0) || (st <? ex)) &&
  ((q_scheme q =? 0) || (q_scheme q =? 1)) &&
  match q_signer q with
  | Some s =>
      match s_ks s, s_chain s with
      | Some k, Some (leaf :: rest) =>
          match sig_alg k with
          | Some a => validate_cs sf ss (Some st) (leaf :: rest) && (alg_Z (key_alg (c_pk leaf)) =? alg_Z (Some a))
          | None => false
          end
      | _, _ => false
      end
  | None => false
  end &&
  match all_some (map (fun x => norm_key (ra_key x)) (q_attrs q)) with
  | Some ls => nodup_labels ls && negb (existsb (fun l => if q_fmt q =? 0 then is_spec_label l
                                                         else match l with LText i => (4 <=? i) && (i <=? 7) | LInt z => (1 <=? z) && (z <=? 3) end) ls) &&
               ((q_fmt q =? 1) || forallb (fun l => match l with LText _ => true | LInt _ => false end) ls)
  | None => false
  end.
