(* Correspondence for C16.  Spec side (code 2) on the implementation's outcome:
   1 an envelope was produced for a request that is not valid (valid_req_b = ValidReq of Proofs/Sign.v)
   2 Sign panicked      3 an error was returned together with bytes
   4 a local signer could be constructed from a private key that does not belong to the leaf certificate *)
From NCG Require Export Run.SignCase.
Definition case := scase.
Definition check_case (c : scase) : verdict :=
  if s_ctor_wrong c then (s_id c, 2, 4) else
  if s_out c =? 2 then (s_id c, 2, 2) else if s_out c =? 3 then (s_id c, 2, 3) else
  if (s_out c =? 1) && negb (valid_req_b (mat_sigfrom (s_sf c)) (vec_selfsig (s_ss c)) (s_req c)) then (s_id c, 2, 1) else
  match m_sign c with
  | SOk _ => if s_out c =? 1 then (s_id c, 0, 0) else (s_id c, 1, 0)
  | _ => if s_out c =? 0 then (s_id c, 0, 0) else (s_id c, 1, 0)
  end.
Definition check_all := collect check_case.
