(* Correspondence for C18: histories of fetches, publications, cache manipulations and faults on
   the real HTTPFetcher vs the model.  Spec side (code 2), evaluated on the implementation's own
   outputs with the world state tracked by the model's bookkeeping of the non-fetch operations:
   1 a bundle was returned without any download although its base or delta CRL is not effective
   2 a downloaded bundle was returned with a cache configured but no cache write was attempted, or the
     write failed and the failure was hidden although errors are not discarded
   3 the delta CRL of a downloaded bundle is not "present exactly when the base advertises a location,
     taken from the first location that answers"
   4 a cache read failure was hidden although errors are not discarded / a cache miss became an error
   7 a URL whose scheme is not http was requested
   6 a bundle was returned without any download although it is not the bundle the cache holds for that URL
     (the cache holds what the caller put there and what completed downloads wrote back, nothing else) *)
From NCG Require Export Model.Fetcher.

Definition fout := option (fres * list fevent).
Record case := mk { c_id : Z; c_cfg : fcfg; c_w0 : fworld; c_ops : list fop; c_impl : list fout; c_panicked : bool }.

Definition fshape_eqb (a b : fshape) : bool :=
  match a, b with FNone, FNone => true | FBadOuter, FBadOuter => true
  | FPoints x, FPoints y =>
      list_eqb (fun p q => match p, q with DNoName, DNoName | DRelative, DRelative | DMalformed, DMalformed => true
                           | DFull g, DFull h => list_eqb (fun m n => match m, n with GUri u, GUri v => u =? v | GOther, GOther => true | _, _ => false end) g h
                           | _, _ => false end) x y
  | _, _ => false end.
Definition fcrl_eqb (a b : fcrl) : bool := (f_id a =? f_id b) && (f_next a =? f_next b) && fshape_eqb (f_fresh a) (f_fresh b).
Definition fbundle_eqb (a b : fbundle) : bool := fcrl_eqb (fb_base a) (fb_base b) && option_eqb fcrl_eqb (fb_delta a) (fb_delta b).
Definition fevent_eqb (a b : fevent) : bool :=
  match a, b with EGet x, EGet y | ESet x, ESet y | EDownload x, EDownload y => x =? y | _, _ => false end.
Definition fres_eqb (a b : fres) : bool :=
  match a, b with FErr, FErr => true | FOk x f, FOk y g => fbundle_eqb x y && Bool.eqb f g | _, _ => false end.
Definition fout_eqb (a b : fout) : bool :=
  option_eqb (fun x y => fres_eqb (fst x) (fst y) && list_eqb fevent_eqb (snd x) (snd y)) a b.

Definition is_download (e : fevent) : bool := match e with EDownload _ => true | _ => false end.
Definition is_set (e : fevent) : bool := match e with ESet _ => true | _ => false end.

(* the checks on one fetch: w = the world before it (as the model tracks it), u the URL *)
Definition fetch_spec (cfg : fcfg) (w : fworld) (u : Z) (r : fres) (ev : list fevent) : Z :=
  let downloaded := existsb is_download ev in
  if existsb (fun e => match e with EDownload v => negb (plain_http v) | _ => false end) ev then 7 else
  match r with
  | FOk b _ =>
      if negb downloaded &&
         negb (effective (fw_now w) (fb_base b) && match fb_delta b with None => true | Some d => effective (fw_now w) d end) then 1
      else if negb downloaded &&
              negb (match lookup (fw_cache w) u with Some b' => fbundle_eqb b b' | None => false end) then 6
      else if downloaded && fc_cache cfg && (negb (existsb is_set ev) || (fw_set_fault w && negb (fc_discard cfg))) then 2
      else if downloaded &&
              negb (match dl (fw_server w) u with
                    | Some base => fcrl_eqb base (fb_base b) &&
                        match fetch_delta (fw_server w) base with
                        | (DNone, _) => match fb_delta b with None => true | Some _ => false end
                        | (DSome d, _) => option_eqb fcrl_eqb (Some d) (fb_delta b)
                        | (DErr, _) => false
                        end
                    | None => false end) then 3
      else if fc_cache cfg && fw_get_fault w && negb (fc_discard cfg) then 4
      else 0
  | FErr =>
      (* a cache miss (or no cache) with everything downloadable must not be an error *)
      if negb (fw_get_fault w && negb (fc_discard cfg) && fc_cache cfg) && negb (fw_set_fault w && negb (fc_discard cfg) && fc_cache cfg) &&
         match dl (fw_server w) u with
         | Some base => match fetch_delta (fw_server w) base with (DErr, _) => false | _ => true end
         | None => false end &&
         match lookup (fw_cache w) u with None => true | Some _ => negb (fc_cache cfg) || true end then 4
      else 0
  end.

Fixpoint walk (cfg : fcfg) (w : fworld) (ops : list fop) (outs : list fout) : Z :=
  match ops, outs with
  | o :: r, x :: xs =>
      let k := match o, x with
               | OFetch u, Some (res, ev) => fetch_spec cfg w u res ev
               | OFetch _, None => 5
               | _, _ => 0 end in
      if negb (k =? 0) then k
      else
        (* advance the tracked world: non-fetch operations as in the model; a fetch updates the cache the way the
           implementation says it did (a successful download with a cache and no set fault stores the bundle) *)
        let w' := match o, x with
                  | OFetch u, Some (FOk b false, ev) =>
                      if fc_cache cfg && negb (fw_set_fault w) then FWorld ((u, b) :: fw_cache w) (fw_server w) (fw_get_fault w) (fw_set_fault w) (fw_now w) else w
                  | OFetch _, _ => w
                  | _, _ => fst (fstep cfg w o) end in
        walk cfg w' r xs
  | _, _ => 0
  end.

Definition check_case (c : case) : verdict :=
  if c_panicked c then (c_id c, 2, 9) else
  let k := walk (c_cfg c) (c_w0 c) (c_ops c) (c_impl c) in
  if negb (k =? 0) then (c_id c, 2, k)
  else if list_eqb fout_eqb (frun (c_cfg c) (c_w0 c) (c_ops c)) (c_impl c) then (c_id c, 0, 0) else (c_id c, 1, 0).
Definition check_all := collect check_case.
