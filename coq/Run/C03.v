(* Correspondence for C03.  model = spec by C03_exact, so every disagreement is a violation:
   1 the chain validator, 2 the revocation validator's chain gate, 3 the signing path (a signature is produced
   exactly when the signer's chain is a conforming code-signing chain valid at the signing time). *)
From NCG Require Export Model.Cert.

Record case := mk {
  c_id : Z; c_chain : list cert; c_sf : list (list bool); c_ss : list bool; c_st : option Z;
  c_impl : bool;   (* ValidateCodeSigningCertChain(chain, st) == nil *)
  c_rev : Z;       (* revocation validator with purpose CodeSigning: 1 results, 0 InvalidChainError, -1 not observed *)
  c_sign : Z;      (* Sign() with a local signer holding the leaf's key, at signing time c_signst: 1 envelope, 0 error, 2 panic, -1 not observed *)
  c_signst : Z
}.

Definition check_case (c : case) : verdict :=
  let sf := mat_sigfrom (c_sf c) in let ss := vec_selfsig (c_ss c) in
  if negb (Bool.eqb (validate_cs sf ss (c_st c) (c_chain c)) (c_impl c)) then (c_id c, 2, 1)
  else if (0 <=? c_rev c) && negb (Bool.eqb (validate_chain sf ss 0 (c_chain c)) (c_rev c =? 1)) then (c_id c, 2, 2)
  else if (0 <=? c_sign c) && negb (Bool.eqb (validate_cs sf ss (Some (c_signst c)) (c_chain c)) (c_sign c =? 1)) then (c_id c, 2, 3)
  else (c_id c, 0, 0).
Definition check_all := collect check_case.
