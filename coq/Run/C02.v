(* Correspondence for C02: table grid, key extraction / signer acceptance grid, and the envelope
   grid (leaf key kind x declared algorithm x format), each with a genuinely valid signature for the
   declared algorithm wherever the key type admits one.  The tables are proved equal to the six rows
   (C02_table_exact ...), so every disagreement on them is a violation (code 2). *)
From NCG Require Export Run.Env.

Inductive case :=
| KTab (id ktype ksize alg hash : Z)      (* KeySpec{Type,Size}.SignatureAlgorithm() as 0..6 and its Hash() in bits *)
| KKey (id : Z) (pk : pubkey) (ext : Z)   (* ExtractKeySpec(cert): -1 error, else type * 100000 + size *)
       (local_ok : bool)                  (* NewLocalSigner(chain, matching private key) accepted *)
       (local_wrong_ok : bool)            (* NewLocalSigner with a private key that is NOT the leaf's accepted *)
       (sign_jws sign_cose : bool)        (* a remote signer truthfully reporting this key produced an envelope *)
       (sign_mismatch : bool)             (* a signer reporting ANOTHER supported key spec than the leaf's produced an envelope *)
| KEnv (e : ecase).

Definition check_case (k : case) : verdict :=
  match k with
  | KTab id t s a h =>
      let m := sig_alg (KS t s) in
      if negb (alg_Z m =? a) then (id, 2, 1) else if negb (hash_of m =? h) then (id, 2, 2) else (id, 0, 0)
  | KKey id pk ext lok lwrong sj sc smis =>
      let m := extract_keyspec pk in
      let mz := match m with Some ks => ks_type ks * 100000 + ks_size ks | None => -1 end in
      let supported := match m with Some _ => true | None => false end in
      if negb (mz =? ext) then (id, 2, 3)
      else if negb (Bool.eqb lok supported) then (id, 2, 4)
      else if lwrong then (id, 2, 5)
      else if negb (Bool.eqb sj supported) || negb (Bool.eqb sc supported) then (id, 2, 6)
      else if smis then (id, 2, 7)
      else (id, 0, 0)
  | KEnv c =>
      if e_panicked c then (e_id c, 2, 9) else
      let la := leaf_alg c in
      (* verified / content returned with an algorithm that is not the one dictated by the leaf key, or not one of the six *)
      if match e_verify c with Some k => negb ((k_alg k =? la) && (1 <=? la) && (la <=? 6)) | None => false end then (e_id c, 2, 11)
      else if match e_content c with Some k => negb ((k_alg k =? la) && (1 <=? la) && (la <=? 6)) | None => false end then (e_id c, 2, 12)
      (* the signature library checked the signature under another algorithm than the leaf key's *)
      else if match e_verify c with Some _ => negb (h_alg_lib (e_view c) =? la) | None => false end then (e_id c, 2, 13)
      else if match e_verify c with Some _ => negb (e_libverify c) | None => false end then (e_id c, 2, 14)
      else if agrees c then (e_id c, 0, 0) else (e_id c, 1, 0)
  end.
Definition check_all := collect check_case.
