(* Correspondence for C10: the leaf names one distribution point whose bundle is authentic and
   current; the verdict over the entries is fully determined by the declarative reading
   (Proofs/Crl.v entries_spec = scan, theorem C10_scan_is_spec), so a different leaf result
   is a violation. *)
From NCG Require Export Run.Rev.
From NCG Require Import Proofs.Crl.

Definition expected_leaf (c : rcase) : option rres :=
  match r_chain c, r_fetch c with
  | leaf :: _, [(_, Fetched b)] =>
      if validate_bundle (r_now c) b then
        Some (match entries_spec (c_serial leaf) (r_st c) (bundle_entries b) with
              | EOk => ROK | ERevoked => RRevoked | EErr => RUnknown end)
      else Some RUnknown
  | _, _ => None
  end.

Definition check_case (c : rcase) : verdict :=
  if r_panicked c then (r_id c, 2, 9) else
  match expected_leaf c, leaf_result (r_impl c) with
  | Some e, Some r => if rres_eqb e r then (if agrees c then (r_id c, 0, 0) else (r_id c, 1, 0))
                      else (r_id c, 2, match e with ROK => 1 | RRevoked => 2 | _ => 3 end)
  | _, _ => (r_id c, 1, 0)
  end.
Definition case := rcase.
Definition check_all := collect check_case.
