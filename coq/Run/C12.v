(* Correspondence for C12.  Spec side (code 2) is evaluated on the implementation's output alone:
   invalid chain <-> no results; one result per certificate; root NonRevokable; server URLs are
   the certificate's own; verdict consistent with the server results (Consistent, Proofs/Revocation.v); a lone
   Unknown OCSP entry among several responders only after a decisive Unknown status (class 8). *)
From NCG Require Export Run.RevSpec.
Definition case := rcase.

(* a single Unknown OCSP entry for a certificate with several responders is only the documented shape when that
   responder really answered with status Unknown (decisive); after a mere failure the other responders are asked too *)
Definition lone_unknown_not_decisive (w : world) (st : Z) (c : cert) (r : cres) : bool :=
  rmethod_eqb (cr_method r) MOCSP && rres_eqb (cr_result r) RUnknown && (1 <? Z.of_nat (length (c_ocsp c))) &&
  match cr_servers r with
  | [s] => memZ (sr_url s) (c_ocsp c) && negb (sclass_eqb (sc w st (sr_url s)) CUnknownStatus)
  | _ => false
  end.

Definition pos_check (w : world) (st : Z) (standalone : bool) (i : nat) (c : cert) (is_root : bool) (o : pos_out) : Z :=
  let r := fst o in
  if is_root then (if cres_eqb r nonrev then 0 else 3)
  else if negb (forallb (fun s => (sr_url s =? 0) || memZ (sr_url s) (c_ocsp c) || memZ (sr_url s) (c_crl c)) (cr_servers r)) then 4
  else if negb (if standalone then consistent_ocsp_b c r else consistent_b c r) then 5
  else if rres_eqb (cr_result r) ROK && existsb (fun s => rres_eqb (sr_result s) RRevoked) (cr_servers r) then 6
  else if negb (forallb (fun u => memZ u (c_ocsp c) || memZ u (c_crl c)) (snd o)) then 7   (* exchanged with a URL of another certificate *)
  else if lone_unknown_not_decisive w st c r then 8
  else 0.

Definition check_case (c : rcase) : verdict :=
  if r_panicked c then (r_id c, 2, 9) else
  let valid := validate_chain (mat_sigfrom (r_sf c)) (vec_selfsig (r_ss c)) (r_purpose c) (r_chain c) in
  match r_impl c with
  | None => if valid then (r_id c, 2, 1) else (r_id c, 0, 0)     (* valid chain refused *)
  | Some outs =>
      if negb valid then (r_id c, 2, 1)                            (* invalid / empty chain produced results *)
      else if negb (Nat.eqb (length outs) (length (r_chain c))) then (r_id c, 2, 2)
      else let k := first_bad (pos_check (case_world c) (r_st c) (r_entry c =? 1)) 0 (r_chain c) outs in
           if negb (k =? 0) then (r_id c, 2, k)
           else if agrees c then (r_id c, 0, 0) else (r_id c, 1, 0)
  end.
Definition check_all := collect check_case.
