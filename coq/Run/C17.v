(* Correspondence for C17.  The harness forces a completion order of the per-certificate exchanges
   with a barrier; the schedule model (Model/Sched.v) is run on the corresponding trace with
   [check i] = the sequential per-certificate model (or the injected panic).  Spec side (code 2):
   1 without an injected panic the results differ from the sequential model (schedule dependence / interference)
   2 a panic was injected but did not resurface on the caller with one of the injected values (or results were returned)
   3 goroutines were left behind when the call returned
   4 concurrent callers sharing validator, client and fetcher did not all get the same results *)
From NCG Require Export Run.RevSpec.
From NCG Require Import Model.Sched.

Record case := mk {
  c_rc : rcase;
  c_order : list nat;            (* completion order (positions of the certificates whose exchange is released, in order) *)
  c_pan : list (nat * Z);        (* injected panics: position -> value id *)
  c_impl_panic : Z;              (* 0 = the call returned; otherwise the id of the recovered panic value (-1 = not one of the injected) *)
  c_leak : Z; c_callers_agree : bool
}.

Fixpoint lookup_nat (l : list (nat * Z)) (i : nat) : option Z :=
  match l with [] => None | (j, v) :: r => if Nat.eqb i j then Some v else lookup_nat r i end.

Definition n_of (c : case) : nat := pred (length (r_chain (c_rc c))).
Definition standalone (c : case) : bool := r_entry (c_rc c) =? 1.
Definition cert_at (c : case) (i : nat) : option cert := nth_error (r_chain (c_rc c)) i.
Definition kind_of (c : case) (i : nat) : bool :=
  match cert_at c i with
  | Some x => if standalone c then true else negb (null (c_ocsp x)) || negb (null (c_crl x))
  | None => false end.
Definition check_of (c : case) (i : nat) : outcome pos_out Z :=
  match lookup_nat (c_pan c) i with
  | Some v => Pan v
  | None =>
      let w := case_world (c_rc c) in
      match cert_at c i with
      | Some x => Res (if standalone c then ocsp_check (w_ocsp w) (w_now w) (r_st (c_rc c)) (c_ocsp x) else check_cert w (r_st (c_rc c)) x)
      | None => Res (nonrev, [])
      end
  end.

(* the trace of the forced schedule: all spawns, the root slot, the releases in order, Wait, Drain *)
Definition trace_of (c : case) : list label :=
  repeat Spawn (n_of c) ++ [Root] ++ map Finish (filter (kind_of c) (c_order c)) ++ [Wait; Drain].

Definition sched_final (c : case) : option (list (option pos_out) + Z) :=
  match run pos_out Z (n_of c) (kind_of c) (check_of c) (nonrev, []) (init pos_out Z) (trace_of c) with
  | Some s => fin s
  | None => None
  end.

Definition opos_eqb (a : option pos_out) (b : pos_out) : bool := match a with Some x => pos_eqb x b | None => false end.
Fixpoint olist_eqb (a : list (option pos_out)) (b : list pos_out) : bool :=
  match a, b with [], [] => true | x :: r, y :: s => opos_eqb x y && olist_eqb r s | _, _ => false end.

Definition check_case (c : case) : verdict :=
  let id := r_id (c_rc c) in
  let valid := validate_chain (mat_sigfrom (r_sf (c_rc c))) (vec_selfsig (r_ss (c_rc c))) (r_purpose (c_rc c)) (r_chain (c_rc c)) in
  if negb (c_callers_agree c) then (id, 2, 4) else
  if 0 <? c_leak c then (id, 2, 3) else
  if negb valid then (if agrees (c_rc c) then (id, 0, 0) else (id, 1, 0)) else
  match c_pan c with
  | [] =>
      (* no panic: whatever the schedule, the results are those of the sequential model *)
      if negb (c_impl_panic c =? 0) then (id, 2, 2)
      else if negb (out_eqb (model_out (c_rc c)) (r_impl (c_rc c))) then (id, 2, 1)
      else match sched_final c, r_impl (c_rc c) with
           | Some (inl rs), Some outs => if olist_eqb rs outs then (id, 0, 0) else (id, 1, 0)
           | _, _ => (id, 1, 0)
           end
  | _ =>
      if (c_impl_panic c =? 0) || negb (existsb (fun p => snd p =? c_impl_panic c) (c_pan c)) then (id, 2, 2)
      else match sched_final c with
           (* which value: the first to finish - decidable by the forced order only when a single panic was injected;
              with several, the recover handlers of the panicking goroutines race to the channel (the barrier cannot
              see an exchange that panicked complete), and the property only asks that one of them resurfaces *)
           | Some (inr v) => if (v =? c_impl_panic c) || (1 <? Z.of_nat (length (c_pan c))) then (id, 0, 0) else (id, 1, 0)
           | _ => (id, 1, 0)
           end
  end.
Definition check_all := collect check_case.
