(* Correspondence for C13.  Spec side (code 2) on the implementation's outputs:
   1 the extended attributes returned are not exactly the non-specification protected headers of the
     independent view (each once, value unchanged, critical iff listed in crit)
   2 a specification-defined label appears among the extended attributes
   3 JWS: a critical label naming no present header was accepted *)
From NCG Require Export Run.Env.
Definition case := ecase.
Definition is_spec_label (l : label) : bool :=
  match l with LText i => (1 <=? i) && (i <=? 7) | LInt z => (1 <=? z) && (z <=? 3) end.
Definition attrs_check (c : ecase) (k : content) : Z :=
  if negb (list_eqb attr_eqb (k_attrs k) (ext_attrs (e_view c))) then 1
  else if existsb (fun a => is_spec_label (a_key a)) (k_attrs k) then 2
  else if (h_fmt (e_view c) =? 0) && negb (forallb (fun v => spec_present_b (e_view c) v || ext_key_b (e_view c) v) (h_crit (e_view c))) then 3
  else 0.
Definition check_case (c : ecase) : verdict :=
  if e_panicked c then (e_id c, 2, 9) else
  let k1 := match e_content c with Some k => attrs_check c k | None => 0 end in
  let k2 := match e_verify c with Some k => attrs_check c k | None => 0 end in
  if negb (k1 =? 0) then (e_id c, 2, k1) else if negb (k2 =? 0) then (e_id c, 2, k2)
  else if agrees c then (e_id c, 0, 0) else (e_id c, 1, 0).
Definition check_all := collect check_case.
