From NCG Require Export Run.Rev.
Definition case := rcase.
Definition check_case (c : rcase) : verdict :=
  if agrees c then (r_id c, 0, 0) else (r_id c, 1, 0).
Definition check_all := collect check_case.
