(* Correspondence for C04.  The leaf names only OCSP responders.  Spec side (code 2) is the
   property text via the theorems of Properties/C04.v: server_check = COk <-> an authentic,
   current, Good answer (C04_server_ok_iff), = CRevoked <-> an authentic current Revoked one. *)
From NCG Require Export Run.Rev.
Definition case := rcase.

Definition sclass_eqb (a b : sclass) : bool :=
  match a, b with COk, COk | CRevoked, CRevoked | CUnknownStatus, CUnknownStatus | CError, CError => true | _, _ => false end.

(* the clauses, as a function of the world, the responder list and the leaf's result *)
Definition c04_spec (w : world) (st : Z) (urls : list Z) (r : rres) : Z :=
  let sc := server_check (w_ocsp w) (w_now w) st in
  let first := find (fun u => decisive (sc u)) urls in
  (* OK without any responder having given an authentic current Good answer *)
  if rres_eqb r ROK && negb (existsb (fun u => sclass_eqb (sc u) COk) urls) then 1
  (* the first decisive answer says Revoked but the result is not Revoked *)
  else if match first with Some u => sclass_eqb (sc u) CRevoked | None => false end && negb (rres_eqb r RRevoked) then 2
  (* OK although the first decisive answer was not the Good one *)
  else if rres_eqb r ROK && negb (match first with Some u => sclass_eqb (sc u) COk | None => false end) then 3
  else 0.

Definition check_case (c : rcase) : verdict :=
  if r_panicked c then (r_id c, 2, 9) else
  match r_chain c, leaf_result (r_impl c) with
  | leaf :: _, Some r =>
      let k := c04_spec (case_world c) (r_st c) (c_ocsp leaf) r in
      if negb (k =? 0) then (r_id c, 2, k)
      else if agrees c then (r_id c, 0, 0) else (r_id c, 1, 0)
  | _, _ => if agrees c then (r_id c, 0, 0) else (r_id c, 1, 0)
  end.
Definition check_all := collect check_case.
