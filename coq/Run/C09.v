(* Correspondence for C09: every call of the stream returns a value or an error.
   Spec side (code 2): 1 the call panicked on the calling goroutine, 2 it did not return within the
   watchdog although the transport had answered / the context was cancelled, 3 (reported by the driver
   as a process abort) a background goroutine killed the process, 4 more was read from a server body
   than the documented size cap allows.  The inventory of syntactic partial
   operations of the source is advisory (case 0 always has outcome 0): sites outside the reviewed
   list raise the stream's budget and are recorded in the evidence, they do not fail the check. *)
From NCG Require Export Model.Base.
Record case := mk { c_id : Z; c_kind : Z; c_outcome : Z (* 0 returned | 1 panicked | 2 hung | 4 read beyond the size cap *) }.
Definition check_case (c : case) : verdict :=
  if c_outcome c =? 0 then (c_id c, 0, 0)
  else (c_id c, 2, c_outcome c).
Definition check_all := collect check_case.
