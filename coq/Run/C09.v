(* Correspondence for C09: every call of the stream returns a value or an error.
   Spec side (code 2): 1 the call panicked on the calling goroutine, 2 it did not return within the
   watchdog although the transport had answered / the context was cancelled, 3 (reported by the driver
   as a process abort) a background goroutine killed the process.  Class 7 (code 1): the inventory of
   syntactic partial operations of the source differs from the reviewed one (a proof obligation
   without a discharge): reported as no-failing-input-found unless the stream crashes it. *)
From NCG Require Export Model.Base.
Record case := mk { c_id : Z; c_kind : Z; c_outcome : Z (* 0 returned | 1 panicked | 2 hung | 7 site inventory differs *) }.
Definition check_case (c : case) : verdict :=
  if c_outcome c =? 0 then (c_id c, 0, 0)
  else if c_outcome c =? 7 then (c_id c, 1, 7)
  else (c_id c, 2, c_outcome c).
Definition check_all := collect check_case.
