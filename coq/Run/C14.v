(* Correspondence for C14.  model = spec by C14_exact, so every disagreement is a violation. *)
From NCG Require Export Model.Cert.

Record case := mk {
  c_id : Z; c_chain : list cert; c_sf : list (list bool); c_ss : list bool; c_st : option Z;
  c_impl : bool;   (* ValidateTimestampingCertChain(chain) == nil *)
  c_rev : Z        (* revocation validator with purpose Timestamping: 1 results, 0 InvalidChainError *)
}.

Definition check_case (c : case) : verdict :=
  let sf := mat_sigfrom (c_sf c) in let ss := vec_selfsig (c_ss c) in
  if negb (Bool.eqb (validate_ts sf ss (c_chain c)) (c_impl c)) then (c_id c, 2, 1)
  else if (0 <=? c_rev c) && negb (Bool.eqb (validate_chain sf ss 1 (c_chain c)) (c_rev c =? 1)) then (c_id c, 2, 2)
  else (c_id c, 0, 0).
Definition check_all := collect check_case.
