(* Shared case format and boolean specs of the envelope-reading properties (C01, C02, C07, C13). *)
From NCG Require Export Model.Header.
From NCG Require Import Proofs.Header.

Record ecase := mk {
  e_id : Z;
  e_view : hview;
  e_sf : list (list bool); e_ss : list bool;   (* signature oracles of the chain in the view *)
  e_decoded : bool;          (* library decoding of the envelope succeeded (independent decoder) *)
  e_libverify : bool;        (* independent oracle: the signature verifies as carried under the leaf key *)
  e_verify : option content; (* implementation: Verify() *)
  e_content : option content;(* implementation: Content() *)
  e_panicked : bool;
  e_expect : Z               (* generator's expectation: 1 = built to be conformant and validly signed, 0 = none *)
}.

Definition attr_eqb (a b : attr) : bool :=
  label_eqb (a_key a) (a_key b) && Bool.eqb (a_critical a) (a_critical b) && (a_value a =? a_value b).
Definition content_eqb (a b : content) : bool :=
  (k_payload a =? k_payload b) && (k_cty a =? k_cty b) && (k_scheme a =? k_scheme b) && (k_time a =? k_time b) &&
  (k_expiry a =? k_expiry b) && list_eqb attr_eqb (k_attrs a) (k_attrs b) && (k_alg a =? k_alg b) && (k_sig a =? k_sig b) &&
  list_eqb Z.eqb (k_chain a) (k_chain b) && (k_agent a =? k_agent b) && (k_ts a =? k_ts b).
Definition ocontent_eqb := option_eqb content_eqb.

Definition m_content (c : ecase) := content_of (mat_sigfrom (e_sf c)) (vec_selfsig (e_ss c)) (e_decoded c) (e_view c).
Definition m_verify (c : ecase) := verify_of (mat_sigfrom (e_sf c)) (vec_selfsig (e_ss c)) (e_decoded c) (e_libverify c) (e_view c).
Definition agrees (c : ecase) : bool :=
  negb (e_panicked c) && ocontent_eqb (m_content c) (e_content c) && ocontent_eqb (m_verify c) (e_verify c).

Definition tval_eqb (a b : tval) : bool :=
  match a, b with TAbsent, TAbsent => true | TBad, TBad => true | TTime x i, TTime y j => (x =? y) && (i =? j) | _, _ => false end.

(* ---- ContentOK (Proofs/Header.v) as a boolean ---- *)
Definition spec_present_b (h : hview) (v : label) : bool :=
  (label_eqb v L_scheme && ((h_scheme h =? 0) || (h_scheme h =? 1) || (h_scheme h =? 2))) ||
  (label_eqb v L_expiry && tpresent (h_exp h)) || (label_eqb v L_astime && tpresent (h_ast h)) || (label_eqb v L_stime && tpresent (h_st h)).
Definition ext_key_b (h : hview) (v : label) : bool := existsb (fun kv => label_eqb (fst kv) v) (h_ext h).

Section S.
Variable sf : cert -> cert -> bool.
Variable ss : cert -> bool.

Definition chain_ok_b (alg : Z) (chain : list cert) : bool :=
  match chain with
  | [] => false
  | leaf :: _ => validate_cs sf ss None chain && (alg_Z (key_alg (c_pk leaf)) =? alg)
  end.

Definition content_ok_b (h : hview) (c : content) : bool :=
  let th := if k_scheme c =? 1 then h_ast h else h_st h in
  negb (k_payload c =? 0) && negb (k_sig c =? 0) && (k_payload c =? h_payload h) && (k_sig c =? h_sig h) &&
  ((k_scheme c =? 0) || (k_scheme c =? 1)) && (k_scheme c =? h_scheme h) &&
  match th with TTime t tag => (t =? k_time c) && ((h_fmt h =? 0) || (tag =? 1)) | _ => false end &&
  negb (k_time c =? 0) &&
  ((k_expiry c =? 0) || (k_time c <? k_expiry c)) && (k_expiry c =? ttime (h_exp h)) &&
  ((h_fmt h =? 0) || negb (tpresent (h_exp h)) || match h_exp h with TTime _ tag => tag =? 1 | _ => false end) &&
  mem_label L_scheme (h_crit h) && ((k_expiry c =? 0) || mem_label L_expiry (h_crit h)) &&
  (negb (k_scheme c =? 1) || mem_label L_astime (h_crit h)) &&
  (negb (h_fmt h =? 0) || forallb (fun v => spec_present_b h v || ext_key_b h v) (h_crit h)) &&
  (negb (h_fmt h =? 0) || tval_eqb (if k_scheme c =? 1 then h_st h else h_ast h) TAbsent) &&
  (k_alg c =? h_alg h) && negb (k_alg c =? 0) && chain_ok_b (k_alg c) (h_chain h) && list_eqb Z.eqb (k_chain c) (map c_raw (h_chain h)) &&
  list_eqb attr_eqb (k_attrs c) (ext_attrs h) && (k_agent c =? h_agent h) && (k_ts c =? h_ts h) &&
  (k_cty c =? match h_cty h with Some x => x | None => 0 end) &&
  ((h_fmt h =? 0) || match h_cty h with Some _ => true | None => false end).

(* ---- Conformant (Proofs/Header.v) as a boolean ---- *)
Fixpoint nodup_b (l : list label) : bool :=
  match l with [] => true | x :: r => negb (mem_label x r) && nodup_b r end.
Definition conformant_b (h : hview) : bool :=
  let th := if h_scheme h =? 1 then h_ast h else h_st h in
  ((h_fmt h =? 0) || (h_fmt h =? 1)) && negb (h_payload h =? 0) && negb (h_sig h =? 0) &&
  match h_cty h with Some _ => true | None => false end &&
  ((h_scheme h =? 0) || (h_scheme h =? 1)) &&
  match th with
  | TTime t 1 => negb (t =? 0) && match h_exp h with TAbsent => true | TTime e 1 => negb (e =? 0) && (t <? e) | _ => false end
  | _ => false end &&
  (negb (h_fmt h =? 0) || tval_eqb (if h_scheme h =? 1 then h_st h else h_ast h) TAbsent) &&
  h_crit_present h && nodup_b (h_crit h) && mem_label L_scheme (h_crit h) &&
  (negb (h_scheme h =? 1) || mem_label L_astime (h_crit h)) && (negb (tpresent (h_exp h)) || mem_label L_expiry (h_crit h)) &&
  forallb (fun v => label_eqb v L_scheme || (label_eqb v L_astime && (h_scheme h =? 1)) || (label_eqb v L_expiry && tpresent (h_exp h)) || ext_key_b h v) (h_crit h) &&
  negb (h_alg h =? 0) && chain_ok_b (h_alg h) (h_chain h).
End S.

Definition c_ok (c : ecase) := content_ok_b (mat_sigfrom (e_sf c)) (vec_selfsig (e_ss c)) (e_view c).
Definition conf (c : ecase) := conformant_b (mat_sigfrom (e_sf c)) (vec_selfsig (e_ss c)) (e_view c).
Definition leaf_alg (c : ecase) : Z := match h_chain (e_view c) with leaf :: _ => alg_Z (key_alg (c_pk leaf)) | [] => 0 end.
