(* Correspondence for C11.  By C11_table the model's per-certificate result IS the decision table
   over the OCSP outcome (C04) and the CRL outcome (C05); each row is checked against the
   implementation's output and contact log (code 2, class = row). *)
From NCG Require Export Run.RevSpec.
Definition case := rcase.

Definition is_crl_url (c : cert) (u : Z) : bool := memZ u (c_crl c).

Definition pos_check (w : world) (st : Z) (standalone : bool) (i : nat) (c : cert) (is_root : bool) (o : pos_out) : Z :=
  if is_root then 0 else
  let r := fst o in
  let oo := ocsp_check (w_ocsp w) (w_now w) st (c_ocsp c) in
  let cc := crl_check (w_fetch w) (w_now w) st (c_serial c) (c_freshest c) (c_crl c) in
  if standalone then
    (if existsb (is_crl_url c) (snd o) then 6 else if pos_eqb o oo then 0 else 7)
  else
  match c_ocsp c, c_crl c with
  | [], [] => if pos_eqb o (nonrev, []) then 0 else 4
  | [], _ :: _ => if pos_eqb o cc then 0 else 3
  | _ :: _, [] => if pos_eqb o oo then 0 else 5
  | _ :: _, _ :: _ =>
      match cr_result (fst oo) with
      | RUnknown =>
          if pos_eqb o (CRes (cr_result (fst cc)) (cr_servers (fst oo) ++ cr_servers (fst cc)) MFallback, snd oo ++ snd cc) then 0 else 2
      | _ => if pos_eqb o oo then 0 else 1     (* a Good / Revoked OCSP answer is final; no CRL fetched *)
      end
  end.

Definition check_case (c : rcase) : verdict :=
  if r_panicked c then (r_id c, 2, 9) else
  match r_impl c with
  | None => if agrees c then (r_id c, 0, 0) else (r_id c, 1, 0)
  | Some outs =>
      let k := first_bad (pos_check (case_world c) (r_st c) (r_entry c =? 1)) 0 (r_chain c) outs in
      if negb (k =? 0) then (r_id c, 2, k)
      else if agrees c then (r_id c, 0, 0) else (r_id c, 1, 0)
  end.
Definition check_all := collect check_case.
