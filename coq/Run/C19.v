(* Correspondence for C19: the case carries the abstract input and what the implementation
   returned; since model = spec by C19_iff, every disagreement is a spec violation (code 2). *)
From NCG Require Export Model.Trust.

Record case := mk {
  c_id : Z;
  c_signer : option (list tcert);
  c_trust : list tcert;
  c_scheme : Z; c_time : Z;
  c_impl : Z;       (* -1 arg error (trust) | -2 arg error (signer) | -3 authenticity error | j >= 0 trust index returned *)
  c_impl_ast : Z    (* -1 error | t: the time returned *)
}.

Definition outcome_Z (o : auth_outcome) : Z :=
  match o with ArgErrTrust => -1 | ArgErrSigner => -2 | AuthErr => -3 | Trusted j => Z.of_nat j end.

Definition check_case (c : case) : verdict :=
  let m := outcome_Z (verify_authenticity (c_signer c) (c_trust c)) in
  let a := match authentic_signing_time (c_scheme c) (c_time c) with Some t => t | None => -1 end in
  if negb (m =? c_impl c) then (c_id c, 2, 1)
  else if negb (a =? c_impl_ast c) then (c_id c, 2, 2)
  else (c_id c, 0, 0).

Definition check_all := collect check_case.
Definition T := Build_tcert.
