(* Correspondence for C20: every history is run on a real envelope object and on the model.
   Spec side (code 2): the implementation's output trace must be a run of the reference machine
   (ref_accepts below is ref_step made executable over the set of possible shown states). *)
From NCG Require Export Model.Object.
From NCG Require Import Proofs.Object.

Record case := mk {
  c_id : Z; c_fmt : Z;          (* 0 JWS, 1 COSE *)
  c_start : Z;                  (* 0 new, 1 parsed valid (content 1), 2 parsed tampered (content 1, signature invalid) *)
  c_ops : list op;
  c_impl : list out;
  c_extra : Z                   (* 0 ok; 1 the bytes returned by a successful Sign do not parse+verify to the request;
                                   2 a repeated Verify/Content changed its answer; 3 panic *)
}.

Definition out_eqb (a b : out) : bool :=
  match a, b with
  | OBytes x, OBytes y => x =? y | OErr, OErr => true | ONoSig, ONoSig => true
  | OIntegrity, OIntegrity => true | OContent x, OContent y => x =? y | OOther, OOther => true | _, _ => false end.
Definition shown_eqb (a b : shown) : bool :=
  match a, b with None, None => true | Some (c, v), Some (d, w) => (c =? d) && Bool.eqb v w | _, _ => false end.

Definition start_obj (k : Z) : obj := if k =? 1 then parsed 1 true else if k =? 2 then parsed 1 false else new_obj.

(* successors of one possible shown state under (op, observed out); [] = not allowed *)
Definition ref_next (a : shown) (o : op) (x : out) : list shown :=
  match o with
  | SignOk r => if out_eqb x (OBytes r) then [Some (r, true)] else []
  | SignFailEarly _ | SignFailInner _ | SignFailLate _ => if out_eqb x OErr then [a; None] else []
  | Verify => if out_eqb x (match a with None => ONoSig | Some (c, v) => if v then OContent c else OIntegrity end) then [a] else []
  | Content => if out_eqb x (match a with None => ONoSig | Some (c, _) => OContent c end) then [a] else []
  end.

(* returns 0 if accepted, else the class of the first step at which no possible state remains *)
Fixpoint ref_accepts (poss : list shown) (ops : list op) (outs : list out) : Z :=
  match ops, outs with
  | [], [] => 0
  | o :: r, x :: xs =>
      let nxt := flat_map (fun a => ref_next a o x) poss in
      match nxt with
      | [] => match o with SignOk _ => 1 | SignFailEarly _ => 2 | SignFailInner _ => 3 | SignFailLate _ => 4 | Verify => 5 | Content => 6 end
      | _ => ref_accepts nxt r xs
      end
  | _, _ => 7
  end.

Definition check_case (c : case) : verdict :=
  if negb (c_extra c =? 0) then (c_id c, 2, 10 + c_extra c) else
  let k := ref_accepts [obs (start_obj (c_start c))] (c_ops c) (c_impl c) in
  if negb (k =? 0) then (c_id c, 2, k)
  else if list_eqb out_eqb (run (start_obj (c_start c)) (c_ops c)) (c_impl c) then (c_id c, 0, 0) else (c_id c, 1, 0).
Definition check_all := collect check_case.
