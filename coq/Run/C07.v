(* Correspondence for C07.  Spec side (code 2) on the implementation's outputs:
   1 Content() returned content that violates ContentOK (the signed-attribute rules of the property)
   2 Verify() succeeded but Content() does not return the identical result
   3 Verify() succeeded although the independent signature oracle says the signature does not verify as carried
   4 an envelope meeting the specification (Conformant) with a valid signature was rejected
   5 the generator built a conformant, validly signed envelope and the view does not say so (harness self-check) *)
From NCG Require Export Run.Env.
Definition case := ecase.
Definition check_case (c : ecase) : verdict :=
  if e_panicked c then (e_id c, 2, 9) else
  if match e_content c with Some k => negb (c_ok c k && e_decoded c) | None => false end then (e_id c, 2, 1) else
  if match e_verify c with Some k => negb (ocontent_eqb (e_content c) (Some k)) | None => false end then (e_id c, 2, 2) else
  if match e_verify c with Some _ => negb (e_libverify c) | None => false end then (e_id c, 2, 3) else
  if conf c && e_decoded c && e_libverify c && match e_verify c with None => true | Some _ => false end then (e_id c, 2, 4) else
  if (e_expect c =? 1) && negb (conf c && e_decoded c && e_libverify c) then (e_id c, 1, 5) else
  if agrees c then (e_id c, 0, 0) else (e_id c, 1, 0).
Definition check_all := collect check_case.
