(* Correspondence for C15.  Spec side (code 2) on the implementation's outcome:
   1 an envelope was produced under notary.x509 with a timestamper although some stage of the gate fails
     (no accepted response / token not verifying to the caller's roots / TSA chain not a conforming
     timestamping chain / validator error / a result that is not OK or NonRevokable / length mismatch)
   2 the envelope does not carry exactly the token the authority issued, or its imprint is not the digest
     of this envelope's signature bytes under the hash of the signing algorithm
   3 the authority was contacted under the signing-authority scheme or without a timestamper, or a token
     was embedded there
   4 a failure did not come back as a timestamp error without bytes
   5 the aggregation function itself accepted a vector it must reject (direct grid over result vectors) *)
From NCG Require Export Run.SignCase.
From NCG Require Export Model.Timestamp.

Record case := mk {
  c_id : Z;
  c_req : sreq; c_sf : list (list bool); c_ss : list bool;
  c_ts : option tsaw; c_tsf : list (list bool); c_tss : list bool;   (* the timestamper's world and the oracles of the TSA chain *)
  c_out : Z;              (* 0 error without bytes | 1 envelope | 2 panic | 3 error with bytes *)
  c_ts_error : bool;      (* the error is a signature.TimestampError *)
  c_calls : Z;            (* requests the authority received *)
  c_token_ok : bool;      (* envelope produced: the embedded token is byte-identical to the issued one and its imprint matches *)
  c_token_present : bool  (* envelope produced: a timestamp token is embedded *)
}.

Definition m_out (c : case) : sout :=
  sign_ts (mat_sigfrom (c_sf c)) (vec_selfsig (c_ss c)) (mat_sigfrom (c_tsf c)) (vec_selfsig (c_tss c)) (c_req c) (c_ts c).

Definition check_case (c : case) : verdict :=
  if c_out c =? 2 then (c_id c, 2, 9) else
  let contacted := ts_contacted (c_req c) (c_ts c) in
  let gate := match c_ts c with Some w => ts_gate (mat_sigfrom (c_tsf c)) (vec_selfsig (c_tss c)) w | None => None end in
  let must_ts := (q_scheme (c_req c) =? 0) && match c_ts c with Some _ => true | None => false end in
  if (c_out c =? 1) && must_ts && match gate with None => true | Some _ => false end then (c_id c, 2, 1)
  else if (c_out c =? 1) && must_ts && negb (c_token_ok c && c_token_present c) then (c_id c, 2, 2)
  else if negb must_ts && ((0 <? c_calls c) || ((c_out c =? 1) && c_token_present c)) then (c_id c, 2, 3)
  else if contacted && match gate with None => true | Some _ => false end && negb ((c_out c =? 0) && c_ts_error c) then (c_id c, 2, 4)
  else match m_out c with
       | SOk _ => if c_out c =? 1 then (c_id c, 0, 0) else (c_id c, 1, 0)
       | _ => if c_out c =? 0 then (c_id c, 0, 0) else (c_id c, 1, 0)
       end.
Definition check_all := collect check_case.
