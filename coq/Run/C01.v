(* Correspondence for C01.  Spec side (code 2) on the implementation's outputs, against the
   independent decoder and the independent signature oracle:
   1 Verify() succeeded although the signature does not verify over the protected header and payload
     as carried under the key of the first certificate of the chain
   2 Verify() returned content that is not the decoding of the verified fields (mk_content of the view)
   3 a change confined to unsigned parts changed the verdict or the signed content (e_expect = 2:
     the generator says the signed parts are those of a valid envelope) *)
From NCG Require Export Run.Env.
Definition case := ecase.
Definition check_case (c : ecase) : verdict :=
  if e_panicked c then (e_id c, 2, 9) else
  if match e_verify c with Some _ => negb (e_libverify c && e_decoded c) | None => false end then (e_id c, 2, 1) else
  if match e_verify c with Some k => negb (content_eqb k (mk_content (e_view c))) | None => false end then (e_id c, 2, 2) else
  if (e_expect c =? 2) && match e_verify c with None => true | Some _ => false end then (e_id c, 2, 3) else
  if agrees c then (e_id c, 0, 0) else (e_id c, 1, 0).
Definition check_all := collect check_case.
