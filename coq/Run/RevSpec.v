(* Boolean forms of the declarative notions used by the correspondence runs of C06, C11, C12. *)
From NCG Require Export Run.Rev.
From NCG Require Import Proofs.CrlCheck.

Definition sclass_eqb (a b : sclass) : bool :=
  match a, b with COk, COk | CRevoked, CRevoked | CUnknownStatus, CUnknownStatus | CError, CError => true | _, _ => false end.
Definition null {A} (l : list A) : bool := match l with [] => true | _ => false end.
Definition memZ (x : Z) (l : list Z) : bool := existsb (Z.eqb x) l.

Section W.
Variable w : world.
Variable st : Z.
Definition sc := server_check (w_ocsp w) (w_now w) st.
Definition clr (c : cert) := clear_b (w_fetch w) (w_now w) st (c_serial c) (c_freshest c).
Definition pck (c : cert) := point_check (w_fetch w) (w_now w) st (c_serial c) (c_freshest c).

(* GoodEvidence / RevokedEvidence of Proofs/Revocation.v as booleans; with_crl = the entry point uses CRLs *)
Definition good_evidence_b (with_crl : bool) (c : cert) : bool :=
  existsb (fun u => sclass_eqb (sc u) COk) (c_ocsp c) ||
  (with_crl && negb (null (c_crl c)) && forallb (clr c) (c_crl c)).
Definition revoked_evidence_b (with_crl : bool) (c : cert) : bool :=
  existsb (fun u => sclass_eqb (sc u) CRevoked) (c_ocsp c) ||
  (with_crl && existsb (fun u => match pck c u with Some ERevoked => true | _ => false end) (c_crl c)).
End W.

(* OcspEntries / CrlEntries / Consistent of Proofs/Revocation.v as booleans *)
Definition single_b (urls : list Z) (v : rres) (srv : list sres) : bool :=
  match srv with [s] => rres_eqb (sr_result s) v && memZ (sr_url s) urls | _ => false end.
Definition ocsp_entries_b (urls : list Z) (v : rres) (srv : list sres) : bool :=
  negb (rres_eqb v RNonRevokable) &&
  (single_b urls v srv || (rres_eqb v RUnknown && list_eqb sres_eqb srv (map (SRes RUnknown) urls))).
Definition crl_entries_b (urls : list Z) (v : rres) (srv : list sres) : bool :=
  match v with
  | ROK => list_eqb sres_eqb srv (map (SRes ROK) urls)
  | RNonRevokable => false
  | x => single_b urls x srv
  end.
Definition consistent_b (c : cert) (r : cres) : bool :=
  match cr_method r with
  | MUnknown => cres_eqb r nonrev && null (c_ocsp c) && null (c_crl c)
  | MOCSP => negb (null (c_ocsp c)) && ocsp_entries_b (c_ocsp c) (cr_result r) (cr_servers r)
  | MCRL => null (c_ocsp c) && negb (null (c_crl c)) && crl_entries_b (c_crl c) (cr_result r) (cr_servers r)
  | MFallback =>
      negb (null (c_ocsp c)) && negb (null (c_crl c)) &&
      existsb (fun k => ocsp_entries_b (c_ocsp c) RUnknown (firstn k (cr_servers r)) &&
                        crl_entries_b (c_crl c) (cr_result r) (skipn k (cr_servers r)))
              [1%nat; length (c_ocsp c)]
  end.
(* standalone OCSP entry point: a certificate without responders is NonRevokable with one entry *)
Definition consistent_ocsp_b (c : cert) (r : cres) : bool :=
  if null (c_ocsp c) then cres_eqb r (CRes RNonRevokable [SRes RNonRevokable 0] MOCSP)
  else rmethod_eqb (cr_method r) MOCSP && ocsp_entries_b (c_ocsp c) (cr_result r) (cr_servers r).

(* first position (with its certificate and implementation output) failing a per-position test *)
Fixpoint first_bad {A} (f : nat -> cert -> bool -> A -> Z) (i : nat) (chain : list cert) (outs : list A) : Z :=
  match chain, outs with
  | c :: rest, o :: orest =>
      let k := f i c (null rest) o in
      if negb (k =? 0) then k else first_bad f (S i) rest orest
  | _, _ => 0
  end.
