(* Correspondence for C08.  Spec side (code 2): whenever Sign produced an envelope,
   1 the envelope does not parse and verify
   2 the verified content differs from the request (payload, content type, scheme, times truncated to
     seconds, attributes with key / criticality / value, agent, algorithm of the signer's key, chain)
   3 the bytes handed to the external signer are not the bytes whose signature verification checks
   4 the signing object's own content differs from that of the returned bytes
   and, when no envelope was produced,
   5 a valid request (the model signs it: sign = SOk, which is ValidReq by C08_signs_exactly_the_valid_requests)
     with an honest signer was refused *)
From NCG Require Export Run.SignCase.
Definition null {A} (l : list A) : bool := match l with [] => true | _ => false end.
Definition case := scase.
Definition check_case (c : scase) : verdict :=
  if negb (s_out c =? 1) then
    match m_sign c with SOk _ => if s_honest c then (s_id c, 2, 5) else (s_id c, 1, 0) | _ => if s_out c =? 0 then (s_id c, 0, 0) else (s_id c, 1, 0) end
  else
  if negb (s_honest c) then (match m_sign c with SOk _ => (s_id c, 0, 0) | _ => (s_id c, 1, 0) end) else
  match s_verify c with
  | None => (s_id c, 2, 1)
  | Some k =>
      let exp := match q_signer (s_req c) with
                 | Some s => match s_ks s, s_chain s with
                             | Some ks, Some chain => Some (expected_content (s_req c) (alg_Z (sig_alg ks)) chain)
                             | _, _ => None end
                 | None => None end in
      let lossy := map (fun p => fst p) (filter (fun p => ra_lossy (snd p))
                     (combine (match all_some (map (fun x => norm_key (ra_key x)) (q_attrs (s_req c))) with Some ls => ls | None => [] end) (q_attrs (s_req c)))) in
      let mask (x : content) := Content (k_payload x) (k_cty x) (k_scheme x) (k_time x) (k_expiry x)
                                  (map (fun a => if mem_label (a_key a) lossy then Attr (a_key a) (a_critical a) 0 else a) (k_attrs x))
                                  (k_alg x) (k_sig x) (k_chain x) (k_agent x) (k_ts x) in
      if negb (ocontent_eqb exp (Some k)) then
        (* known finding F10: only the value of an attribute holding a number beyond float64 precision differs *)
        (if negb (null lossy) && ocontent_eqb (option_map mask exp) (Some (mask k)) then (s_id c, 2, 20) else (s_id c, 2, 2))
      else if negb (s_tbs_ok c) then (s_id c, 2, 3)
      else if negb (s_obj_ok c) then (s_id c, 2, 4)
      else match m_sign c with SOk _ => (s_id c, 0, 0) | _ => (s_id c, 1, 0) end
  end.
Definition check_all := collect check_case.
