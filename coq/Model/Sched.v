(* revocation/revocation.go ValidateContext (fan-out with WaitGroup, one result slot per goroutine,
   panic channel sized to the chain, drained after Wait) and revocation/ocsp/ocsp.go CheckStatus (same
   shape): a small-step interleaving semantics.  A schedule is a list of step labels; [check i] is the
   sequential per-certificate model under a fixed world (a result or a panic value). *)

From Coq Require Export List Arith Bool Lia.
Export ListNotations.

Section Sched.
Variables R V : Type.
Variable n : nat.                       (* chain has n+1 certificates; positions 0..n-1 are non-root *)
Variable kind : nat -> bool.            (* true: a goroutine is started for this position *)
Inductive outcome := Res (r : R) | Pan (v : V).
Variable check : nat -> outcome.        (* sequential per-certificate model, world fixed *)
Variable nonrev : R.

Record state := mk {
  slots : nat -> option R; next : nat; running : list nat; wg : nat;
  chan : list V; root : bool; waited : bool; fin : option (list (option R) + V) }.

Definition upd (f : nat -> option R) (i : nat) (r : R) : nat -> option R :=
  fun j => if Nat.eqb j i then Some r else f j.

Definition init : state := mk (fun _ => None) 0 [] 0 [] false false None.

Inductive label := Spawn | Finish (i : nat) | Root | Wait | Drain.

Definition remove1 (i : nat) (l : list nat) := filter (fun j => negb (Nat.eqb j i)) l.

Definition step (s : state) (a : label) : option state :=
  match a with
  | Spawn =>
      if (next s <? n) && negb (root s) then
        if kind (next s)
        then Some (mk (slots s) (S (next s)) (next s :: running s) (S (wg s)) (chan s) (root s) (waited s) (fin s))
        else Some (mk (upd (slots s) (next s) nonrev) (S (next s)) (running s) (wg s) (chan s) (root s) (waited s) (fin s))
      else None
  | Finish i =>
      if existsb (Nat.eqb i) (running s) then
        match check i with
        | Res r => Some (mk (upd (slots s) i r) (next s) (remove1 i (running s)) (pred (wg s)) (chan s) (root s) (waited s) (fin s))
        | Pan v => if length (chan s) <? S n   (* buffered channel of capacity n+1: send blocks when full *)
                   then Some (mk (slots s) (next s) (remove1 i (running s)) (pred (wg s)) (chan s ++ [v]) (root s) (waited s) (fin s))
                   else None
        end
      else None
  | Root =>
      if (next s =? n) && negb (root s)
      then Some (mk (upd (slots s) n nonrev) (next s) (running s) (wg s) (chan s) true (waited s) (fin s))
      else None
  | Wait =>
      if root s && (wg s =? 0) && negb (waited s)
      then Some (mk (slots s) (next s) (running s) (wg s) (chan s) (root s) true (fin s))
      else None
  | Drain =>
      if waited s && match fin s with None => true | _ => false end
      then Some (mk (slots s) (next s) (running s) (wg s) (chan s) (root s) (waited s)
                    (Some match chan s with
                          | v :: _ => inr v
                          | [] => inl (map (slots s) (seq 0 (S n))) end))
      else None
  end.

Fixpoint run (s : state) (tr : list label) : option state :=
  match tr with [] => Some s | a :: r => match step s a with Some s' => run s' r | None => None end end.


(* footprint of a step: the result slot it writes (None: none); the wait counter and the panic channel are
   synchronisation objects *)
Definition writes_slot (s : state) (a : label) : option nat :=
  match a with
  | Spawn => if kind (next s) then None else Some (next s)
  | Finish i => match check i with Res _ => Some i | Pan _ => None end
  | Root => Some n
  | _ => None
  end.
Definition is_goroutine_step (a : label) : bool := match a with Finish _ => true | _ => false end.
End Sched.
Arguments Res {R V} r.
Arguments Pan {R V} v.
Arguments slots {R V} s. Arguments next {R V} s. Arguments running {R V} s. Arguments wg {R V} s.
Arguments chan {R V} s. Arguments root {R V} s. Arguments waited {R V} s. Arguments fin {R V} s.
Arguments mk {R V}.
Arguments upd {R}.
