(* internal/timestamp/timestamp.go (Timestamp, revocationResult) and the timestamping step of the two
   format-level Sign functions (signature/jws/envelope.go timestampJWS, signature/cose/envelope.go).
   The timestamp authority, tspclient-go (request / response validation, CMS verification) and the
   revocation validator are a world of oracle results. *)
From NCG Require Export Model.Sign.

Inductive vres := VNone | VErr | VResults (rs : list rres).   (* no validator | ValidateContext error | its results *)

Record tsaw := TsaW {
  t_answer : bool;                  (* the timestamper returned a response tspclient accepts (granted, imprint, nonce, certReq) and the token parses *)
  t_chain : option (list cert);     (* SignedToken.Verify against the caller's TSA roots: the TSA chain, or None = error *)
  t_validator : vres;
  t_token : Z                       (* id of the token bytes of the response *)
}.

(* revocationResult *)
Inductive ares := AOk | AErrEmpty | AErrLength | ARevoked | AUnknown.
Definition res_ok (r : rres) : bool := match r with ROK | RNonRevokable => true | _ => false end.
(* the loop runs from the last result to the first: a Revoked anywhere returns at once *)
Fixpoint agg_scan (rev_rs : list rres) (unknown : bool) : ares :=
  match rev_rs with
  | [] => if unknown then AUnknown else AOk
  | r :: t => if res_ok r then agg_scan t unknown
              else match r with RRevoked => ARevoked | _ => agg_scan t true end
  end.
Definition aggregate (rs : list rres) (nchain : nat) : ares :=
  match rs with
  | [] => AErrEmpty
  | _ => if negb (Nat.eqb (length rs) nchain) then AErrLength else agg_scan (rev rs) false
  end.

Section Gate.
Variable sigfrom : cert -> cert -> bool.
Variable selfsig : cert -> bool.

(* timestamp.Timestamp: Some token / None = error *)
Definition ts_gate (w : tsaw) : option Z :=
  if negb (t_answer w) then None else
  match t_chain w with
  | None => None
  | Some chain =>
      if negb (validate_ts sigfrom selfsig chain) then None else
      match t_validator w with
      | VNone => Some (t_token w)
      | VErr => None
      | VResults rs => match aggregate rs (length chain) with AOk => Some (t_token w) | _ => None end
      end
  end.
End Gate.

Section SignTS.
Variable sigfrom : cert -> cert -> bool.      (* oracles for the signer's chain *)
Variable selfsig : cert -> bool.
Variable tsigfrom : cert -> cert -> bool.     (* oracles for the TSA chain *)
Variable tselfsig : cert -> bool.

(* is the authority contacted: the format-level Sign reached the timestamping step *)
Definition ts_contacted (q : sreq) (ts : option tsaw) : bool :=
  match ts with
  | None => false
  | Some _ =>
      (q_scheme q =? 0) && request_ok q &&
      match q_signer q with
      | Some s => match s_ks s with Some k => format_sign_ok q s k | None => false end
      | None => false
      end
  end.

(* Sign with an optional timestamper *)
Definition sign_ts (q : sreq) (ts : option tsaw) : sout :=
  match ts with
  | Some w =>
      if ts_contacted q ts then
        match ts_gate tsigfrom tselfsig w with
        | None => SErr                                  (* TimestampError, no envelope *)
        | Some tok =>
            match sign sigfrom selfsig q with
            | SOk h => SOk (HV (h_fmt h) (h_alg h) (h_alg_lib h) (h_cty h) (h_scheme h) (h_st h) (h_ast h) (h_exp h) (h_crit_present h)
                               (h_crit h) (h_ext h) (h_payload h) (h_sig h) (h_chain h) (h_agent h) tok)
            | x => x
            end
        end
      else sign sigfrom selfsig q
  | None => sign sigfrom selfsig q
  end.
End SignTS.
