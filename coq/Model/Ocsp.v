(* revocation/internal/ocsp/ocsp.go: CertCheckStatus, checkStatusFromServer and the result
   mapping.  What the responder sent is the abstract response below; whether
   x/crypto/ocsp.ParseResponseForCert accepts it is modelled by lib_accepts (validated by the
   forging responder of the harness, not proved). *)
From NCG Require Export Model.Crl.

Inductive ostatus := SGood | SRevoked | SUnknownStatus.
Inductive oinv := InvAbsent | InvUnusable | InvDate (t : Z).  (* invalidity-date single extension: absent / parse error or trailing bytes / value *)
Inductive osigner :=
| ByIssuer                                   (* no embedded certificate; signature checked under the issuer's key *)
| ByEmbedded (issued_by_issuer : bool)       (* embedded certificate signs the response; was it issued by the issuer? *)
             (is_issuer : bool)              (* the embedded certificate is byte-identical to the issuer certificate *)
             (ocsp_eku : bool).              (* it carries id-kp-OCSPSigning *)
Record oresp := OResp {
  o_signer : osigner;
  o_sig_valid : bool;        (* the response signature verifies under the key named by o_signer *)
  o_serial_match : bool;     (* some single response is for the certificate's serial number *)
  o_status : ostatus;
  o_next : Z;                (* NextUpdate, 0 = absent *)
  o_inv : oinv }.

Inductive url_outcome :=
| UBadURL                (* url.Parse fails or scheme is not http: no request is made *)
| UErr                   (* transport error, timeout, cancellation, non-200, read error, canned unsigned error body, unparsable body *)
| UResp (r : oresp).

(* ParseResponseForCert returns a response (rather than an error) *)
Definition lib_accepts (r : oresp) : bool :=
  o_sig_valid r && o_serial_match r &&
  match o_signer r with ByIssuer => true | ByEmbedded issued _ _ => issued end.

(* the signer is the issuer or a certificate the issuer issued and authorised for OCSP signing *)
Definition authorised (r : oresp) : bool :=
  match o_signer r with
  | ByIssuer => true
  | ByEmbedded issued is_iss eku => issued && (is_iss || eku)
  end.

Inductive sclass := COk | CRevoked | CUnknownStatus | CError.

Section OcspCheck.
Variable outcome : Z -> url_outcome.   (* what happens when the URL is contacted *)
Variables now st : Z.

(* checkStatusFromServer *)
Definition server_check (u : Z) : sclass :=
  match outcome u with
  | UBadURL | UErr => CError
  | UResp r =>
      if negb (lib_accepts r) then CError
      else if negb (authorised r) then CError
      else if o_next r <? now then CError          (* time.Now().After(NextUpdate); zero NextUpdate is in the past *)
      else
        match o_inv r, o_status r with
        | InvDate t, SRevoked => if negb (st =? 0) && (st <? t) then COk else CRevoked
        | _, SGood => COk
        | _, SRevoked => CRevoked
        | _, SUnknownStatus => CUnknownStatus
        end
  end.

Definition sclass_res (c : sclass) : rres :=
  match c with COk => ROK | CRevoked => RRevoked | _ => RUnknown end.
Definition decisive (c : sclass) : bool := match c with CError => false | _ => true end.
Definition contacts (u : Z) : bool := match outcome u with UBadURL => false | _ => true end.

(* the responder loop; acc = non-decisive results so far (reversed); log = URLs contacted *)
Fixpoint ocsp_loop (urls : list Z) (acc : list sres) (log : list Z) : cres * list Z :=
  match urls with
  | [] => (CRes (match acc with s :: _ => sr_result s | [] => RUnknown end) (rev acc) MOCSP, rev log)
  | u :: r =>
      let c := server_check u in
      let log' := if contacts u then u :: log else log in
      if decisive c then (CRes (sclass_res c) [SRes (sclass_res c) u] MOCSP, rev log')
      else ocsp_loop r (SRes RUnknown u :: acc) log'
  end.

(* ocsp.CertCheckStatus *)
Definition ocsp_check (urls : list Z) : cres * list Z :=
  match urls with
  | [] => (CRes RNonRevokable [SRes RNonRevokable 0] MOCSP, [])
  | _ => ocsp_loop urls [] []
  end.
End OcspCheck.
