(* signature/signer.go: VerifyAuthenticity; signature/types.go: AuthenticSigningTime.
   A certificate is the record of what could make two certificates "look alike";
   x509.Certificate.Equal compares the raw DER only (t_raw = identity of the DER bytes). *)
From NCG Require Export Model.Base.

Record tcert := { t_raw : Z; t_subj : Z; t_key : Z; t_serial : Z; t_iss : Z }.

Definition cert_equal (a b : tcert) : bool := t_raw a =? t_raw b.

Inductive auth_outcome :=
| ArgErrTrust          (* InvalidArgumentError{Param: "trustedCerts"} *)
| ArgErrSigner         (* InvalidArgumentError{Param: "signerInfo"} *)
| AuthErr              (* SignatureAuthenticityError *)
| Trusted (j : nat).   (* the trust-list entry at index j is returned *)

(* inner loop: index of the first trust entry equal to c *)
Fixpoint find_idx (c : tcert) (trust : list tcert) (j : nat) : option nat :=
  match trust with
  | [] => None
  | t :: r => if cert_equal t c then Some j else find_idx c r (S j)
  end.

(* outer loop over the signer's chain, leaf first *)
Fixpoint scan_chain (chain trust : list tcert) : option nat :=
  match chain with
  | [] => None
  | c :: r => match find_idx c trust 0 with
              | Some j => Some j
              | None => scan_chain r trust
              end
  end.

(* signer = None models a nil *SignerInfo *)
Definition verify_authenticity (signer : option (list tcert)) (trust : list tcert) : auth_outcome :=
  match trust with
  | [] => ArgErrTrust
  | _ => match signer with
         | None => ArgErrSigner
         | Some chain => match scan_chain chain trust with
                         | Some j => Trusted j
                         | None => AuthErr
                         end
         end
  end.

(* scheme: 0 = notary.x509, 1 = notary.x509.signingAuthority, anything else = other string.
   time: 0 = Go's zero time.Time.  Some t = the time is returned, None = error. *)
Definition authentic_signing_time (scheme time : Z) : option Z :=
  if scheme =? 1 then (if time =? 0 then None else Some time) else None.
