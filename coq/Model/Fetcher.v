(* revocation/crl/fetcher.go: HTTPFetcher.Fetch, fetch, fetchDeltaCRL, parseCRLDistributionPoint
   (at the level of the extension's shape), isEffective.  The server, the cache and the clock are a
   world; a CRL is what the fetcher reads of it. *)
From NCG Require Export Model.Base.

(* shape of a freshest-CRL (CRL distribution points) extension value *)
Inductive gname := GUri (u : Z) | GOther.                       (* a general name: URI or anything else *)
Inductive dpoint := DNoName | DFull (l : list gname) | DRelative | DMalformed.
Inductive fshape := FNone | FBadOuter | FPoints (l : list dpoint). (* no extension / not a SEQUENCE / points *)

Record fcrl := FCrl { f_id : Z; f_next : Z (* NextUpdate, 0 = absent *); f_fresh : fshape }.
Record fbundle := FBundle { fb_base : fcrl; fb_delta : option fcrl }.

(* URIs of one fullName: reading stops at the first general name that is not a URI *)
Fixpoint take_uris (l : list gname) : list Z :=
  match l with GUri u :: r => u :: take_uris r | _ => [] end.

(* parseCRLDistributionPoint: None = parse error *)
Fixpoint parse_cdp (l : list dpoint) : option (list Z) :=
  match l with
  | [] => Some []
  | DNoName :: r => parse_cdp r
  | DFull g :: r => match parse_cdp r with Some us => Some (take_uris g ++ us) | None => None end
  | DRelative :: _ => None
  | DMalformed :: _ => None
  end.

Record fworld := FWorld {
  fw_cache : list (Z * fbundle);      (* cache content, association list (first match) *)
  fw_server : list (Z * fcrl);        (* what a download of the URL yields; no entry = the download fails *)
  fw_get_fault : bool; fw_set_fault : bool;
  fw_now : Z }.
Record fcfg := FCfg { fc_cache : bool; fc_discard : bool }.

Fixpoint lookup {A} (l : list (Z * A)) (k : Z) : option A :=
  match l with [] => None | (k', v) :: r => if k =? k' then Some v else lookup r k end.

Definition effective (now : Z) (c : fcrl) : bool := negb (f_next c =? 0) && negb (f_next c <? now).

Inductive fevent := EGet (u : Z) | ESet (u : Z) | EDownload (u : Z).
Inductive fres := FErr | FOk (b : fbundle) (from_cache : bool).

(* fetchDeltaCRL: try the advertised locations in order; returns the delta, the downloads made, and
   whether an error results *)
(* fetchCRL: only plain-http URLs are ever requested; any other scheme fails without a request.
   URL identifiers are integers; the negative ones stand for URLs whose scheme is not "http". *)
Definition plain_http (u : Z) : bool := 0 <=? u.
Definition dl (srv : list (Z * fcrl)) (u : Z) : option fcrl := if plain_http u then lookup srv u else None.
Definition dev (u : Z) : list fevent := if plain_http u then [EDownload u] else [].

Fixpoint first_answer (srv : list (Z * fcrl)) (us : list Z) : option fcrl * list fevent :=
  match us with
  | [] => (None, [])
  | u :: r => match dl srv u with
              | Some d => (Some d, dev u)
              | None => let (x, ev) := first_answer srv r in (x, dev u ++ ev)
              end
  end.

Inductive dres := DErr | DNone | DSome (d : fcrl).
Definition fetch_delta (srv : list (Z * fcrl)) (base : fcrl) : dres * list fevent :=
  match f_fresh base with
  | FNone => (DNone, [])
  | FBadOuter => (DErr, [])
  | FPoints ps =>
      match parse_cdp ps with
      | None => (DErr, [])
      | Some [] => (DNone, [])
      | Some us => match first_answer srv us with
                   | (Some d, ev) => (DSome d, ev)
                   | (None, ev) => (DErr, ev)
                   end
      end
  end.

(* HTTPFetcher.fetch + the cache write-back: result, new cache content, events in order *)
Definition fetch_download (cfg : fcfg) (w : fworld) (url : Z) (pre : list fevent) : fres * list (Z * fbundle) * list fevent :=
  let cache := fw_cache w in
  match dl (fw_server w) url with
  | None => (FErr, cache, pre ++ dev url)
  | Some base =>
      match fetch_delta (fw_server w) base with
      | (DErr, ev) => (FErr, cache, pre ++ EDownload url :: ev)
      | (dr, ev) =>
          let b := FBundle base (match dr with DSome d => Some d | _ => None end) in
          let evs := pre ++ EDownload url :: ev in
          if fc_cache cfg then
            if fw_set_fault w then
              (if fc_discard cfg then (FOk b false, cache, evs ++ [ESet url]) else (FErr, cache, evs ++ [ESet url]))
            else (FOk b false, (url, b) :: cache, evs ++ [ESet url])
          else (FOk b false, cache, evs)
      end
  end.

(* HTTPFetcher.Fetch *)
Definition fetch (cfg : fcfg) (w : fworld) (url : Z) : fres * list (Z * fbundle) * list fevent :=
  let cache := fw_cache w in
  if fc_cache cfg then
    if fw_get_fault w then
      (if fc_discard cfg then fetch_download cfg w url [EGet url] else (FErr, cache, [EGet url]))
    else
      match lookup cache url with
      | Some b =>
          if effective (fw_now w) (fb_base b) && match fb_delta b with None => true | Some d => effective (fw_now w) d end
          then (FOk b true, cache, [EGet url])
          else fetch_download cfg w url [EGet url]
      | None => fetch_download cfg w url [EGet url]
      end
  else fetch_download cfg w url [].

(* ---- histories ---- *)
Inductive fop :=
| OFetch (u : Z)
| OPublish (u : Z) (c : fcrl)        (* the server now serves c at u *)
| OUnpublish (u : Z)                 (* downloads of u fail from now on *)
| OCachePut (u : Z) (b : fbundle)    (* somebody else stores b in the shared cache *)
| OFaults (get set : bool).

Fixpoint remove_key {A} (l : list (Z * A)) (k : Z) : list (Z * A) :=
  match l with [] => [] | (k', v) :: r => if k =? k' then remove_key r k else (k', v) :: remove_key r k end.

Definition fstep (cfg : fcfg) (w : fworld) (o : fop) : fworld * option (fres * list fevent) :=
  match o with
  | OFetch u => let '(r, cache', ev) := fetch cfg w u in
                (FWorld cache' (fw_server w) (fw_get_fault w) (fw_set_fault w) (fw_now w), Some (r, ev))
  | OPublish u c => (FWorld (fw_cache w) ((u, c) :: fw_server w) (fw_get_fault w) (fw_set_fault w) (fw_now w), None)
  | OUnpublish u => (FWorld (fw_cache w) (remove_key (fw_server w) u) (fw_get_fault w) (fw_set_fault w) (fw_now w), None)
  | OCachePut u b => (FWorld ((u, b) :: fw_cache w) (fw_server w) (fw_get_fault w) (fw_set_fault w) (fw_now w), None)
  | OFaults g s => (FWorld (fw_cache w) (fw_server w) g s (fw_now w), None)
  end.

Fixpoint frun (cfg : fcfg) (w : fworld) (ops : list fop) : list (option (fres * list fevent)) :=
  match ops with
  | [] => []
  | o :: r => let (w', x) := fstep cfg w o in x :: frun cfg w' r
  end.
Fixpoint ffinal (cfg : fcfg) (w : fworld) (ops : list fop) : fworld :=
  match ops with [] => w | o :: r => ffinal cfg (fst (fstep cfg w o)) r end.
