(* signature/jws/jws.go + envelope.go (Content, Verify), signature/cose/envelope.go (Content, Verify,
   parseProtectedHeaders, validateCritHeaders, parseTime, generateExtendedAttributes) and
   signature/internal/base/envelope.go (validateEnvelopeContent).

   The input is the *decoded view* of an envelope: what the JSON / CBOR / base64 / X.509 libraries
   hand to this repository's code (library decoding is an oracle, see DESIGN.md section 7).  The
   functions below are the repository's own rules on top of that view. *)
From NCG Require Export Model.Cert.

(* a protected-header label: text, or (COSE only) integer *)
Inductive label := LText (id : Z) | LInt (z : Z).
Definition label_eqb (a b : label) : bool :=
  match a, b with LText x, LText y => x =? y | LInt x, LInt y => x =? y | _, _ => false end.
Definition mem_label (x : label) (l : list label) : bool := existsb (label_eqb x) l.

(* text ids of the specification-defined labels (all other text labels have ids >= 100) *)
Definition L_alg := LText 1.      Definition L_cty := LText 2.     Definition L_crit := LText 3.
Definition L_expiry := LText 4.   Definition L_stime := LText 5.   Definition L_scheme := LText 6.
Definition L_astime := LText 7.

(* a time-valued header as decoded *)
Inductive tval :=
| TAbsent
| TTime (t : Z) (tag : Z)   (* a time; t = 0 is the zero time; tag = CBOR tag number it carried (JWS: always 1) *)
| TBad.                     (* COSE: present with a value that does not decode to a time *)

Record hview := HV {
  h_fmt : Z;                  (* 0 JWS, 1 COSE *)
  h_alg : Z;                  (* declared algorithm as this repository decodes it: 1..6 = signature.Algorithm, 0 = none of them *)
  h_alg_lib : Z;              (* the algorithm the signature library verifies with (JWS: the exact "alg" member if it is one of the
                                 six allowed names; COSE: header 1), same numbering; not read by this repository's code *)
  h_cty : option Z;           (* content type (value id); None: COSE header 3 missing or not a text string *)
  h_scheme : Z;               (* 0 notary.x509 | 1 notary.x509.signingAuthority | 2 other string | 3 COSE: absent / not a string *)
  h_st : tval; h_ast : tval; h_exp : tval;
  h_crit_present : bool;      (* COSE: header 2 present *)
  h_crit : list label;
  h_ext : list (label * Z);   (* protected headers that are not specification-defined: (label, value id), each label once *)
  h_payload : Z;              (* 0 = empty / nil *)
  h_sig : Z;                  (* 0 = empty *)
  h_chain : list cert;        (* the x5c / x5chain certificates; [] = absent or not in the expected shape *)
  h_agent : Z; h_ts : Z
}.

Record attr := Attr { a_key : label; a_critical : bool; a_value : Z }.
Record content := Content {
  k_payload : Z; k_cty : Z; k_scheme : Z; k_time : Z; k_expiry : Z;
  k_attrs : list attr; k_alg : Z; k_sig : Z; k_chain : list Z (* raw ids *); k_agent : Z; k_ts : Z }.

Definition tpresent (t : tval) : bool := match t with TAbsent => false | _ => true end.
Definition ttime (t : tval) : Z := match t with TTime z _ => z | _ => 0 end.

(* ---------- JWS: validateCriticalHeaders ---------- *)
(* the loop over crit: must = labels still required; returns None on "marked critical but not present" *)
Fixpoint jws_crit_loop (must : list label) (ext : list (label * Z)) (crit : list label) : option (list label) :=
  match crit with
  | [] => Some must
  | v :: r =>
      if mem_label v must then jws_crit_loop (filter (fun m => negb (label_eqb m v)) must) ext r
      else if existsb (fun kv => label_eqb (fst kv) v) ext then jws_crit_loop must ext r
      else None
  end.

Definition jws_must (h : hview) : list label :=
  [L_scheme] ++
  (match h_exp h with TTime t _ => if t =? 0 then [] else [L_expiry] | _ => [] end) ++
  (if h_scheme h =? 1 then [L_astime] else []).

Definition jws_crit_ok (h : hview) : bool :=
  match h_crit h with
  | [] => false
  | _ => match jws_crit_loop (jws_must h) (h_ext h) (h_crit h) with Some [] => true | _ => false end
  end.

(* validateProtectedHeaders: scheme / time-header pairing *)
Definition jws_pairing_ok (h : hview) : bool :=
  if h_scheme h =? 0 then negb (tpresent (h_ast h))
  else if h_scheme h =? 1 then negb (tpresent (h_st h)) && tpresent (h_ast h)
  else false.

(* ---------- COSE: validateCritHeaders / parseTime ---------- *)
Definition cose_must (h : hview) : list label :=
  [L_scheme] ++ (if h_scheme h =? 1 then [L_astime] else []) ++ (if tpresent (h_exp h) then [L_expiry] else []).
Definition cose_crit_ok (h : hview) : bool :=
  negb (h_scheme h =? 3) && forallb (fun m => mem_label m (h_crit h)) (cose_must h) && h_crit_present h.
(* parseTime during verification: only a tag-1 time is accepted *)
Definition cose_time_ok (t : tval) : bool := match t with TTime _ tag => tag =? 1 | _ => false end.

(* ---------- extended attributes (both formats) ---------- *)
Definition ext_attrs (h : hview) : list attr :=
  map (fun kv => Attr (fst kv) (mem_label (fst kv) (h_crit h)) (snd kv)) (h_ext h).

(* ---------- base.validateEnvelopeContent ---------- *)
Section Env.
Variable sigfrom : cert -> cert -> bool.
Variable selfsig : cert -> bool.

Definition chain_ok (alg : Z) (chain : list cert) : bool :=
  match chain with
  | [] => false
  | leaf :: _ => validate_cs sigfrom selfsig None chain && (alg_Z (key_alg (c_pk leaf)) =? alg)
  end.

Definition base_ok (payload sig alg time expiry : Z) (chain : list cert) : bool :=
  negb (payload =? 0) && negb (sig =? 0) && negb (alg =? 0) && negb (time =? 0) &&
  negb (negb (expiry =? 0) && (expiry <=? time)) && chain_ok alg chain.

(* ---------- Content() ---------- *)
Definition signing_time (h : hview) : Z := if h_scheme h =? 1 then ttime (h_ast h) else ttime (h_st h).

Definition format_ok (h : hview) : bool :=
  if h_fmt h =? 0 then
    jws_pairing_ok h && jws_crit_ok h && negb (h_alg h =? 0) && negb (h_sig h =? 0)
  else
    match h_cty h with None => false | Some _ => true end && negb (h_sig h =? 0) &&
    cose_crit_ok h && negb (h_alg h =? 0) && ((h_scheme h =? 0) || (h_scheme h =? 1)) &&
    cose_time_ok (if h_scheme h =? 1 then h_ast h else h_st h) &&
    (negb (tpresent (h_exp h)) || cose_time_ok (h_exp h)) &&
    negb (match h_chain h with [] => true | _ => false end).

Definition mk_content (h : hview) : content :=
  Content (h_payload h) (match h_cty h with Some c => c | None => 0 end) (h_scheme h) (signing_time h) (ttime (h_exp h))
          (ext_attrs h) (h_alg h) (h_sig h) (map c_raw (h_chain h)) (h_agent h) (h_ts h).

(* decoded = the libraries decoded the envelope, its protected header, the base64 fields and every certificate *)
Definition content_of (decoded : bool) (h : hview) : option content :=
  if decoded && format_ok h &&
     base_ok (h_payload h) (h_sig h) (h_alg h) (signing_time h) (ttime (h_exp h)) (h_chain h)
  then Some (mk_content h) else None.

(* ---------- Verify() ---------- *)
(* lib_verify: the signature library accepted the signature over the protected header and payload
   exactly as carried, under the public key of the first certificate, with the algorithm the library
   itself reads (JWS: the exact "alg" member, restricted to the six allowed names; COSE: the
   algorithm dictated by the leaf key, which must equal header 1) *)
Definition verify_of (decoded lib_verify : bool) (h : hview) : option content :=
  if negb decoded then None
  else match h_chain h with
       | [] => None
       | leaf :: _ =>
           if (h_fmt h =? 1) && negb (key_ok leaf) then None
           else if lib_verify then content_of decoded h else None
       end.
End Env.
