(* internal/algorithm/algorithm.go, signature/algorithm.go, signature/jws/types.go,
   signature/cose/envelope.go (algorithm tables). *)
From NCG Require Export Model.Base.

(* signature.Algorithm: 1..6, 0 = "no algorithm" *)
Inductive alg := PS256 | PS384 | PS512 | ES256 | ES384 | ES512.
Definition alg_eqb (a b : alg) : bool :=
  match a, b with
  | PS256, PS256 | PS384, PS384 | PS512, PS512 | ES256, ES256 | ES384, ES384 | ES512, ES512 => true
  | _, _ => false
  end.
Definition alg_Z (a : option alg) : Z :=
  match a with None => 0 | Some PS256 => 1 | Some PS384 => 2 | Some PS512 => 3
             | Some ES256 => 4 | Some ES384 => 5 | Some ES512 => 6 end.
Definition alg_of_Z (z : Z) : option alg :=
  if z =? 1 then Some PS256 else if z =? 2 then Some PS384 else if z =? 3 then Some PS512
  else if z =? 4 then Some ES256 else if z =? 5 then Some ES384 else if z =? 6 then Some ES512 else None.

(* Algorithm.Hash(): crypto.Hash as its digest size in bits, 0 = crypto.Hash(0) *)
Definition hash_of (a : option alg) : Z :=
  match a with
  | Some PS256 | Some ES256 => 256
  | Some PS384 | Some ES384 => 384
  | Some PS512 | Some ES512 => 512
  | None => 0
  end.

(* KeySpec{Type, Size}: Type 1 = RSA, 2 = EC (any other int is representable in Go) *)
Record keyspec := KS { ks_type : Z; ks_size : Z }.
Definition keyspec_eqb (a b : keyspec) : bool := (ks_type a =? ks_type b) && (ks_size a =? ks_size b).

(* KeySpec.SignatureAlgorithm() *)
Definition sig_alg (k : keyspec) : option alg :=
  if ks_type k =? 2 then
    (if ks_size k =? 256 then Some ES256 else if ks_size k =? 384 then Some ES384
     else if ks_size k =? 521 then Some ES512 else None)
  else if ks_type k =? 1 then
    (if ks_size k =? 2048 then Some PS256 else if ks_size k =? 3072 then Some PS384
     else if ks_size k =? 4096 then Some PS512 else None)
  else None.

(* public key as the code sees it: RSA with the bit length of the modulus (key.N.BitLen();
   key.Size() is that rounded up to whole bytes), ECDSA with Curve.Params().BitSize, anything else *)
Inductive pubkey := PkRSA (modulus_bitlen : Z) | PkEC (bits : Z) | PkEd25519 | PkOther.
Definition rsa_size_bytes (bitlen : Z) : Z := (bitlen + 7) / 8.   (* rsa.PublicKey Size() *)

(* ExtractKeySpec: None = error *)
Definition extract_keyspec (pk : pubkey) : option keyspec :=
  match pk with
  | PkRSA b => let bits := rsa_size_bytes b * 8 in
               if (bits =? 2048) || (bits =? 3072) || (bits =? 4096) then Some (KS 1 bits) else None
  | PkEC bits => if (bits =? 256) || (bits =? 384) || (bits =? 521) then Some (KS 2 bits) else None
  | _ => None
  end.

(* the algorithm dictated by a certificate's key (base.getSignatureAlgorithm) *)
Definition key_alg (pk : pubkey) : option alg :=
  match extract_keyspec pk with Some k => sig_alg k | None => None end.

(* JWS "alg" names.  Only the names a JOSE library may know are enumerated; JOther is any
   other string. *)
Inductive jalg := JPS256 | JPS384 | JPS512 | JES256 | JES384 | JES512
                | JRS256 | JRS384 | JRS512 | JHS256 | JHS384 | JHS512 | JEdDSA | JNone | JES256K | JOther.
Definition jalg_Z (j : jalg) : Z :=
  match j with JPS256 => 1 | JPS384 => 2 | JPS512 => 3 | JES256 => 4 | JES384 => 5 | JES512 => 6
  | JRS256 => 7 | JRS384 => 8 | JRS512 => 9 | JHS256 => 10 | JHS384 => 11 | JHS512 => 12
  | JEdDSA => 13 | JNone => 14 | JES256K => 15 | JOther => 16 end.
Definition jalg_of_Z (z : Z) : jalg :=
  if z =? 1 then JPS256 else if z =? 2 then JPS384 else if z =? 3 then JPS512
  else if z =? 4 then JES256 else if z =? 5 then JES384 else if z =? 6 then JES512
  else if z =? 7 then JRS256 else if z =? 8 then JRS384 else if z =? 9 then JRS512
  else if z =? 10 then JHS256 else if z =? 11 then JHS384 else if z =? 12 then JHS512
  else if z =? 13 then JEdDSA else if z =? 14 then JNone else if z =? 15 then JES256K else JOther.

(* signatureAlgJWSAlgMap and its reverse jwsAlgSignatureAlgMap *)
Definition jws_name (a : alg) : jalg :=
  match a with PS256 => JPS256 | PS384 => JPS384 | PS512 => JPS512
             | ES256 => JES256 | ES384 => JES384 | ES512 => JES512 end.
Definition jws_alg (j : jalg) : option alg :=
  match j with JPS256 => Some PS256 | JPS384 => Some PS384 | JPS512 => Some PS512
             | JES256 => Some ES256 | JES384 => Some ES384 | JES512 => Some ES512 | _ => None end.
(* validMethods *)
Definition jws_valid_method (j : jalg) : bool :=
  match jws_alg j with Some _ => true | None => false end.

(* COSE algorithm identifiers (IANA): coseAlgSignatureAlgMap and getSignatureAlgorithmFromKeySpec *)
Definition cose_id (a : alg) : Z :=
  match a with PS256 => -37 | PS384 => -38 | PS512 => -39 | ES256 => -7 | ES384 => -35 | ES512 => -36 end.
Definition cose_alg (id : Z) : option alg :=
  if id =? -37 then Some PS256 else if id =? -38 then Some PS384 else if id =? -39 then Some PS512
  else if id =? -7 then Some ES256 else if id =? -35 then Some ES384 else if id =? -36 then Some ES512 else None.
(* getSignatureAlgorithmFromKeySpec: None = UnsupportedSigningKeyError *)
Definition cose_alg_of_keyspec (k : keyspec) : option Z :=
  match sig_alg k with Some a => Some (cose_id a) | None => None end.
(* hashFromCOSEAlgorithm *)
Definition cose_hash (id : Z) : Z := hash_of (cose_alg id).
