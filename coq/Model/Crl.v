(* revocation/internal/crl/crl.go: CertCheckStatus, validate, validateCRL, checkRevocation,
   parseEntryExtensions.  Library calls are oracle results carried by the abstract CRL. *)
From NCG Require Export Model.Cert.

(* ---- entries ---- *)
Inductive eext :=
| InvOk (t : Z)          (* invalidity date, parsed cleanly *)
| InvMalformed           (* invalidity date, asn1 error *)
| InvTrailing            (* invalidity date with trailing data *)
| EOther (critical : bool).
Record entry := Entry { e_serial : Z; e_reason : Z; e_rtime : Z; e_exts : list eext }.

(* parseEntryExtensions: Some inv (0 = none), None = error *)
Fixpoint parse_exts (l : list eext) (inv : Z) : option Z :=
  match l with
  | [] => Some inv
  | InvOk t :: r => parse_exts r t
  | InvMalformed :: _ | InvTrailing :: _ => None
  | EOther c :: r => if c then None else parse_exts r inv
  end.

Definition is_temp (e : entry) : bool := (e_reason e =? 6) || (e_reason e =? 8).  (* certificateHold, removeFromCRL *)

Inductive eres := EOk | ERevoked | EErr.

(* checkRevocation over the base entries followed by the delta entries; st = 0 is the zero time *)
Fixpoint scan (s st : Z) (latest : option entry) (l : list entry) : eres :=
  match l with
  | [] => match latest with
          | Some e => if e_reason e =? 6 then ERevoked else EOk
          | None => EOk
          end
  | e :: r =>
    if e_serial e =? s then
      match parse_exts (e_exts e) 0 with
      | None => EErr
      | Some inv =>
        if negb (st =? 0) && negb (inv =? 0) && (st <? inv) then scan s st latest r
        else if is_temp e then
          scan s st (match latest with
                     | None => Some e
                     | Some l0 => if e_rtime l0 <? e_rtime e then Some e else Some l0
                     end) r
        else ERevoked
      end
    else scan s st latest r
  end.

(* ---- lists ---- *)
Inductive lext :=
| LIDP (critical : bool)                        (* issuing distribution point *)
| LDeltaInd (critical : bool) (v : option Z)    (* delta CRL indicator; None = ReadASN1Integer fails *)
| LFreshest (critical : bool)
| LOther (critical : bool).
Record crl := Crl {
  l_sig_ok : bool;            (* crl.CheckSignatureFrom(issuer) == nil *)
  l_next : Z;                 (* NextUpdate, 0 = zero time *)
  l_exts : list lext;
  l_number : option Z;        (* Number, None = nil *)
  l_entries : list entry }.
Record bundle := Bundle { b_base : crl; b_delta : option crl }.

Definition lext_bad (x : lext) : bool :=
  match x with LIDP _ => false | LDeltaInd _ _ => false | LFreshest c => c | LOther c => c end.

(* validateCRL *)
Definition validate_crl (now : Z) (c : crl) : bool :=
  l_sig_ok c && negb (l_next c =? 0) && negb (l_next c <? now) && negb (existsb lext_bad (l_exts c)).

Fixpoint find_indicator (l : list lext) : option (option Z) :=
  match l with
  | [] => None
  | LDeltaInd _ v :: _ => Some v
  | _ :: r => find_indicator r
  end.

(* validate(bundle, issuer) *)
Definition validate_bundle (now : Z) (b : bundle) : bool :=
  validate_crl now (b_base b) &&
  match b_delta b with
  | None => true
  | Some d =>
      validate_crl now d &&
      match l_number d, l_number (b_base b) with
      | Some nd, Some nb =>
          (nb <? nd) &&
          match find_indicator (l_exts d) with
          | Some (Some ind) => ind <=? nb
          | _ => false
          end
      | _, _ => false      (* a CRL without a CRL number cannot be ordered: rejected *)
      end
  end.

Definition bundle_entries (b : bundle) : list entry :=
  l_entries (b_base b) ++ match b_delta b with Some d => l_entries d | None => [] end.

(* ---- per-certificate check ---- *)
Inductive fetch_outcome := FetchErr | Fetched (b : bundle).

Record sres := SRes { sr_result : rres; sr_url : Z }.   (* ServerResult: Result, Server (0 = "") *)
Record cres := CRes { cr_result : rres; cr_servers : list sres; cr_method : rmethod }.

Definition sres_eqb (a b : sres) : bool := rres_eqb (sr_result a) (sr_result b) && (sr_url a =? sr_url b).
Definition cres_eqb (a b : cres) : bool :=
  rres_eqb (cr_result a) (cr_result b) && list_eqb sres_eqb (cr_servers a) (cr_servers b) && rmethod_eqb (cr_method a) (cr_method b).

Section CrlCheck.
Variable fetch : Z -> fetch_outcome.   (* opts.Fetcher.Fetch(ctx, url) *)
Variables now st serial : Z.
Variable freshest : bool.              (* the certificate carries a freshest-CRL extension *)

(* one iteration of the distribution-point loop: None = the loop breaks with an error *)
Definition point_check (u : Z) : option eres :=
  match fetch u with
  | FetchErr => None
  | Fetched b =>
      if freshest && match b_delta b with None => true | Some _ => false end then None
      else if negb (validate_bundle now b) then None
      else match scan serial st None (bundle_entries b) with
           | EErr => None
           | r => Some r
           end
  end.

(* the loop; acc = OK server results so far (reversed); also returns the URLs fetched, in order *)
Fixpoint crl_loop (urls : list Z) (acc : list sres) (log : list Z) : cres * list Z :=
  match urls with
  | [] => (CRes ROK (rev acc) MCRL, rev log)
  | u :: r =>
      match point_check u with
      | None => (CRes RUnknown [SRes RUnknown u] MCRL, rev (u :: log))
      | Some ERevoked => (CRes RRevoked [SRes RRevoked u] MCRL, rev (u :: log))
      | Some _ => crl_loop r (SRes ROK u :: acc) (u :: log)
      end
  end.

(* crl.CertCheckStatus for a certificate with distribution points urls *)
Definition crl_check (urls : list Z) : cres * list Z :=
  match urls with
  | [] => (CRes RNonRevokable [SRes RNonRevokable 0] MCRL, [])
  | _ => crl_loop urls [] []
  end.
End CrlCheck.
