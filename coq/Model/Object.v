(* signature/internal/base/envelope.go (Sign / Verify / Content on the wrapper object) together
   with the point at which the format-level envelopes (jws/envelope.go, cose/envelope.go) replace
   their decoded message.  The object is the pair (Raw, inner message). *)
From NCG Require Export Model.Base.

(* a decoded message held by the inner envelope: which content it carries and whether its
   signature verifies (a parsed, tampered envelope decodes but does not verify) *)
Record msg := Msg { m_content : Z; m_sigvalid : bool }.

Record obj := Obj { o_raw : option Z;      (* Raw: None = empty, Some id = those bytes *)
                    o_inner : option msg }.

Inductive op :=
| SignOk (r : Z)          (* valid request r, signer succeeds, chain valid at the signing time *)
| SignFailEarly (r : Z)   (* rejected by the wrapper's request validation: the signer is never invoked *)
| SignFailInner (r : Z)   (* the format-level Sign returns an error (signer error, bad payload, timestamp failure) *)
| SignFailLate (r : Z)    (* the format-level Sign succeeds, then the chain is invalid at the signing time *)
| Verify
| Content.

Inductive out :=
| OBytes (r : Z)          (* Sign returned the envelope bytes of request r *)
| OErr                    (* Sign returned an error and no bytes *)
| ONoSig                  (* SignatureNotFoundError *)
| OIntegrity              (* Verify: signature does not verify *)
| OContent (c : Z)        (* Verify / Content returned content c *)
| OOther.                 (* any other error or shape; never produced by the model *)

Definition new_obj : obj := Obj None None.
Definition parsed (c : Z) (valid : bool) : obj := Obj (Some c) (Some (Msg c valid)).

Definition step (s : obj) (o : op) : obj * out :=
  match o with
  | SignOk r => (Obj (Some r) (Some (Msg r true)), OBytes r)
  | SignFailEarly _ => (s, OErr)
  | SignFailInner _ => (s, OErr)
  | SignFailLate r =>
      (* the inner envelope already holds the new message; the wrapper drops the raw bytes so
         that the failed request cannot be observed *)
      (Obj None (Some (Msg r true)), OErr)
  | Verify =>
      (s, match o_raw s with
          | None => ONoSig
          | Some _ => match o_inner s with
                      | None => ONoSig
                      | Some m => if m_sigvalid m then OContent (m_content m) else OIntegrity
                      end
          end)
  | Content =>
      (s, match o_raw s with
          | None => ONoSig
          | Some _ => match o_inner s with
                      | None => ONoSig
                      | Some m => OContent (m_content m)
                      end
          end)
  end.

Fixpoint run (s : obj) (ops : list op) : list out :=
  match ops with
  | [] => []
  | o :: r => let (s', x) := step s o in x :: run s' r
  end.

Fixpoint final (s : obj) (ops : list op) : obj :=
  match ops with [] => s | o :: r => final (fst (step s o)) r end.
