(* Shared vocabulary of the models: result enums of the revocation packages and the
   generic driver used by the correspondence runs.  No proofs in Model/*. *)
From Coq Require Export List ZArith Bool.
Export ListNotations.
Open Scope Z_scope.

(* revocation/result: Result *)
Inductive rres := RUnknown | ROK | RNonRevokable | RRevoked.
(* revocation/result: RevocationMethod *)
Inductive rmethod := MUnknown | MOCSP | MCRL | MFallback.

Definition rres_eqb (a b : rres) : bool :=
  match a, b with
  | RUnknown, RUnknown | ROK, ROK | RNonRevokable, RNonRevokable | RRevoked, RRevoked => true
  | _, _ => false
  end.
Definition rmethod_eqb (a b : rmethod) : bool :=
  match a, b with
  | MUnknown, MUnknown | MOCSP, MOCSP | MCRL, MCRL | MFallback, MFallback => true
  | _, _ => false
  end.

(* wire encoding used by the harness *)
Definition rres_of_Z (z : Z) : rres :=
  if z =? 1 then ROK else if z =? 2 then RNonRevokable else if z =? 3 then RRevoked else RUnknown.
Definition rmethod_of_Z (z : Z) : rmethod :=
  if z =? 1 then MOCSP else if z =? 2 then MCRL else if z =? 3 then MFallback else MUnknown.

(* Correspondence driver.  A per-property [check_case] maps a case (abstract model
   input + projected implementation output) to (id, code, class):
     code 0: model and implementation agree and the implementation output meets the spec
     code 1: model and implementation disagree, implementation output still meets the spec
     code 2: the implementation output violates the declarative spec (class: which clause) *)
Definition verdict := (Z * Z * Z)%type.
Definition v_code (v : verdict) : Z := snd (fst v).
Definition collect {A} (f : A -> verdict) (l : list A) : Z * list verdict :=
  (Z.of_nat (length l), filter (fun v => negb (v_code v =? 0)) (map f l)).

Fixpoint list_eqb {A} (eqb : A -> A -> bool) (l1 l2 : list A) : bool :=
  match l1, l2 with
  | [], [] => true
  | a :: r1, b :: r2 => eqb a b && list_eqb eqb r1 r2
  | _, _ => false
  end.

Definition option_eqb {A} (eqb : A -> A -> bool) (a b : option A) : bool :=
  match a, b with
  | None, None => true
  | Some x, Some y => eqb x y
  | _, _ => false
  end.
