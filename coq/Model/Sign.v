(* signature/internal/base/envelope.go Sign + validateSignRequest, signature/jws (Sign,
   getSignedAttributes, getSigningMethod, sign), signature/cose (Sign, getSigner,
   generateProtectedHeaders) — the decision whether a sign request yields an envelope, and the
   decoded view of the envelope it yields.  The signer, the JSON / CBOR encoders and go-cose's
   header validation are oracles carried by the abstract request. *)
From NCG Require Export Model.Header.

(* Go dynamic type and value of an extended attribute key *)
Inductive gokey :=
| GKText (l : Z)                 (* string; l = label id *)
| GKInt (gotype : Z) (z : Z)     (* an integer of some Go integer type (0 int, 1 int64, 2 uint64, 3 int8, ...) *)
| GKOther.                       (* anything else: float, bool, nil, byte slice, map, struct *)

Record rattr := RAttr {
  ra_key : gokey; ra_crit : bool;
  ra_val : Z;          (* value id as the implementation returns it after the envelope is decoded again *)
  ra_encodable : bool; (* the JSON / CBOR encoder accepts the value (and the decoder the key) *)
  ra_lossy : bool      (* JWS: the value contains a number that decoding into Go's float64 does not preserve (finding F10) *)
}.

Record signer := Signer {
  s_local : bool;                     (* implements LocalSigner (built-in signing) / only Signer (external signing) *)
  s_ks : option keyspec;              (* KeySpec(): None = error *)
  s_chain : option (list cert);       (* CertificateChain() / the certificates returned by Sign(): None = error or nil *)
  s_key_usable : bool                 (* local: the private key is a crypto.Signer of the type and size the algorithm of the key spec needs *)
}.

Record sreq := SReq {
  q_fmt : Z;
  q_payload : Z;        (* content id, 0 = empty *)
  q_pkind : Z;          (* JWS: 1 JSON object | 2 null | 3 other JSON value | 4 not JSON *)
  q_cty : Z; q_cty_ok : bool;   (* content type id; COSE: go-cose accepts its form (type/subtype, no padding) *)
  q_time : Z; q_expiry : Z;     (* ns; 0 = zero time *)
  q_scheme : Z;         (* 0 notary.x509 | 1 signingAuthority | 2 other | 3 empty *)
  q_signer : option signer;
  q_attrs : list rattr;
  q_agent : Z;
  q_sig : Z             (* id of the signature bytes the signer produces (non-zero) *)
}.

Inductive sout := SOk (h : hview) | SErr | SPanic.

Definition trunc_s (t : Z) : Z := t - t mod 1000000000.

(* label of an attribute key once encoded *)
Definition norm_key (k : gokey) : option label :=
  match k with GKText l => Some (LText l) | GKInt _ z => Some (LInt z) | GKOther => None end.
Definition is_spec_label (l : label) : bool :=
  match l with LText i => (1 <=? i) && (i <=? 7) | LInt z => (1 <=? z) && (z <=? 3) end.

Fixpoint nodup_labels (l : list label) : bool :=
  match l with [] => true | x :: r => negb (mem_label x r) && nodup_labels r end.

Fixpoint all_some {A} (l : list (option A)) : option (list A) :=
  match l with
  | [] => Some []
  | None :: _ => None
  | Some x :: r => match all_some r with Some t => Some (x :: t) | None => None end
  end.

(* the attribute gate of the two formats *)
Definition attrs_ok (fmt : Z) (attrs : list rattr) : bool :=
  forallb ra_encodable attrs &&
  match all_some (map (fun a => norm_key (ra_key a)) attrs) with
  | None => false
  | Some ls =>
      (if fmt =? 0 then forallb (fun l => match l with LText _ => true | LInt _ => false end) ls else true) &&
      nodup_labels ls &&
      negb (existsb (fun l => if fmt =? 0 then is_spec_label l
                              else match l with LText i => (4 <=? i) && (i <=? 7) | LInt z => (1 <=? z) && (z <=? 3) end) ls)
  end.

Section Sign.
Variable sigfrom : cert -> cert -> bool.
Variable selfsig : cert -> bool.

(* base.validateSignRequest after truncation *)
Definition request_ok (q : sreq) : bool :=
  let st := trunc_s (q_time q) in let ex := trunc_s (q_expiry q) in
  negb (q_payload q =? 0) && negb (st =? 0) && negb (negb (ex =? 0) && (ex <=? st)) &&
  match q_signer q with Some s => match s_ks s with Some _ => true | None => false end | None => false end &&
  negb (q_scheme q =? 3).

(* the format-level Sign up to and including the signature *)
Definition format_sign_ok (q : sreq) (s : signer) (k : keyspec) : bool :=
  match sig_alg k with None => false | Some _ => true end &&
  ((q_scheme q =? 0) || (q_scheme q =? 1)) &&
  attrs_ok (q_fmt q) (q_attrs q) &&
  (if q_fmt q =? 0 then q_pkind q =? 1 else q_cty_ok q) &&
  (if s_local s then s_key_usable s else true) &&
  match s_chain s with Some _ => true | None => false end.

(* the decoded view of the envelope the format-level Sign builds *)
Definition built_view (q : sreq) (a : alg) (chain : list cert) : hview :=
  let st := trunc_s (q_time q) in let ex := trunc_s (q_expiry q) in
  let labels := match all_some (map (fun x => norm_key (ra_key x)) (q_attrs q)) with Some ls => ls | None => [] end in
  let crit_attrs := map fst (filter (fun p => ra_crit (snd p)) (combine labels (q_attrs q))) in
  HV (q_fmt q) (alg_Z (Some a)) (alg_Z (Some a)) (Some (q_cty q)) (q_scheme q)
     (if q_scheme q =? 1 then TAbsent else TTime st 1) (if q_scheme q =? 1 then TTime st 1 else TAbsent)
     (if ex =? 0 then TAbsent else TTime ex 1)
     true
     ([L_scheme] ++ (if q_scheme q =? 1 then [L_astime] else []) ++ (if ex =? 0 then [] else [L_expiry]) ++ crit_attrs)
     (combine labels (map ra_val (q_attrs q)))
     (q_payload q) (q_sig q) chain (q_agent q) 0.

Definition sign (q : sreq) : sout :=
  if negb (request_ok q) then SErr else
  match q_signer q with
  | None => SErr
  | Some s =>
    match s_ks s with
    | None => SErr
    | Some k =>
      if negb (format_sign_ok q s k) then SErr else
      match sig_alg k, s_chain s with
      | Some a, Some chain =>
          let h := built_view q a chain in
          (* the wrapper reads the new envelope back and validates the chain at the signing time *)
          match content_of sigfrom selfsig true h with
          | None => SErr
          | Some _ =>
              match chain with
              | [] => SErr
              | leaf :: _ =>
                  if validate_cs sigfrom selfsig (Some (trunc_s (q_time q))) chain && (alg_Z (key_alg (c_pk leaf)) =? alg_Z (Some a))
                  then SOk h else SErr
              end
          end
      | _, _ => SErr
      end
    end
  end.
End Sign.
