(* revocation/revocation.go: ValidateContext; revocation/ocsp/ocsp.go: CheckStatus, as
   sequential functions of the world (the concurrency is the subject of Model/Sched.v). *)
From NCG Require Export Model.Ocsp.

Record world := World {
  w_ocsp : Z -> url_outcome;
  w_fetch : Z -> fetch_outcome;
  w_now : Z }.

Definition nonrev : cres := CRes RNonRevokable [SRes RNonRevokable 0] MUnknown.

(* the per-certificate switch of ValidateContext; returns the result and the contact log
   (OCSP URLs contacted, then CRL URLs fetched, in the order of the exchanges) *)
Definition check_cert (w : world) (st : Z) (c : cert) : cres * list Z :=
  match c_ocsp c with
  | _ :: _ =>
      let (o, olog) := ocsp_check (w_ocsp w) (w_now w) st (c_ocsp c) in
      match cr_result o, c_crl c with
      | RUnknown, _ :: _ =>
          let (r, clog) := crl_check (w_fetch w) (w_now w) st (c_serial c) (c_freshest c) (c_crl c) in
          (CRes (cr_result r) (cr_servers o ++ cr_servers r) MFallback, olog ++ clog)
      | _, _ => (o, olog)
      end
  | [] =>
      match c_crl c with
      | _ :: _ => let (r, clog) := crl_check (w_fetch w) (w_now w) st (c_serial c) (c_freshest c) (c_crl c) in (r, clog)
      | [] => (nonrev, [])
      end
  end.

Fixpoint check_positions (w : world) (st : Z) (l : list cert) : list (cres * list Z) :=
  match l with
  | [] => []
  | [_] => [(nonrev, [])]            (* the root *)
  | c :: r => check_cert w st c :: check_positions w st r
  end.

Section Validate.
Variable sigfrom : cert -> cert -> bool.
Variable selfsig : cert -> bool.

(* None = InvalidChainError and no results *)
Definition validate_ctx (purpose : Z) (w : world) (st : Z) (chain : list cert) : option (list (cres * list Z)) :=
  if validate_chain sigfrom selfsig purpose chain then Some (check_positions w st chain) else None.

(* revocation/ocsp.CheckStatus: OCSP only, every non-root certificate *)
Fixpoint ocsp_positions (w : world) (st : Z) (l : list cert) : list (cres * list Z) :=
  match l with
  | [] => []
  | [_] => [(CRes RNonRevokable [SRes RNonRevokable 0] MUnknown, [])]
  | c :: r => ocsp_check (w_ocsp w) (w_now w) st (c_ocsp c) :: ocsp_positions w st r
  end.
Definition ocsp_check_status (purpose : Z) (w : world) (st : Z) (chain : list cert) : option (list (cres * list Z)) :=
  if validate_chain sigfrom selfsig purpose chain then Some (ocsp_positions w st chain) else None.
End Validate.
