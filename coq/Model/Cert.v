(* x509/codesigning_cert_validations.go, x509/timestamp_cert_validations.go, x509/helper.go,
   revocation/internal/x509util/validate.go.
   A certificate is the record of the fields of crypto/x509.Certificate that the code reads.
   Signature checks are oracles. Times are Z (nanoseconds since the Unix epoch). *)
From NCG Require Export Model.Algo.

Record cert := Cert {
  c_idx : nat;          (* position tag used by matrix oracles in the correspondence runs *)
  c_raw : Z;            (* identity of Raw *)
  c_subj : Z;           (* identity of RawSubject *)
  c_iss : Z;            (* identity of RawIssuer *)
  c_serial : Z;
  c_nb : Z; c_na : Z;   (* NotBefore, NotAfter *)
  c_bcvalid : bool; c_isca : bool; c_maxpath : Z; c_maxpathzero : bool;
  c_ku : Z;             (* KeyUsage bit mask, Go's bit numbering *)
  c_kuext : Z;          (* first key-usage extension in Extensions: 0 absent, 1 non-critical, 2 critical *)
  c_eku : list Z;       (* ExtKeyUsage values (Go enum: 0 any, 1 server, 2 client, 3 code, 4 email, 8 timestamping, 9 OCSP) *)
  c_unknown_eku : Z;    (* len(UnknownExtKeyUsage) *)
  c_ekuext : Z;         (* first EKU extension in Extensions: 0 absent, 1 non-critical, 2 critical *)
  c_pk : pubkey;
  c_ocsp : list Z;      (* OCSPServer URL ids *)
  c_crl : list Z;       (* CRLDistributionPoints URL ids *)
  c_freshest : bool     (* a freshest-CRL extension is present *)
}.

Definition ku_bit (c : cert) (b : Z) : bool := Z.testbit (c_ku c) b.

Section Validate.
Variable sigfrom : cert -> cert -> bool.  (* c.CheckSignatureFrom(p) == nil *)
Variable selfsig : cert -> bool.          (* c.CheckSignature(c.SignatureAlgorithm, c.RawTBSCertificate, c.Signature) == nil *)

Definition names_eq (c p : cert) : bool := c_subj p =? c_iss c.   (* bytes.Equal(p.RawSubject, c.RawIssuer) *)
(* isIssuedBy / isSelfSigned collapsed to "no error and true" *)
Definition issued_by (c p : cert) : bool := sigfrom c p && names_eq c p.
Definition self_signed (c : cert) : bool := issued_by c c.

(* validateSigningTime *)
Definition time_ok (st : option Z) (c : cert) : bool :=
  match st with None => true | Some t => negb ((t <? c_nb c) || (c_na c <? t)) end.

(* validateLeafBasicConstraints *)
Definition leaf_bc_ok (c : cert) : bool := negb (c_bcvalid c && c_isca c).
(* validateCABasicConstraints *)
Definition ca_bc_ok (c : cert) (expected : Z) : bool :=
  c_bcvalid c && c_isca c &&
  negb (((0 <? c_maxpath c) || ((c_maxpath c =? 0) && c_maxpathzero c)) && (c_maxpath c <? expected)).
(* validateLeafKeyUsage *)
Definition leaf_ku_ok (c : cert) : bool :=
  ku_bit c 0 && negb (ku_bit c 2) && negb (ku_bit c 3) && negb (ku_bit c 4) && negb (ku_bit c 5) &&
  negb (ku_bit c 6) && negb (ku_bit c 7) && negb (ku_bit c 8).
(* validateSignatureAlgorithm *)
Definition key_ok (c : cert) : bool := match extract_keyspec (c_pk c) with Some _ => true | None => false end.

(* --- code signing --- *)
Definition cs_ku_present (c : cert) : bool := c_kuext c =? 2.
Definition cs_excluded (e : Z) : bool := (e =? 1) || (e =? 2) || (e =? 4) || (e =? 8) || (e =? 9).
Definition cs_eku_ok (c : cert) : bool := negb (existsb cs_excluded (c_eku c)).
Definition cs_leaf_ok (c : cert) : bool := leaf_bc_ok c && cs_ku_present c && leaf_ku_ok c && cs_eku_ok c && key_ok c.
Definition cs_ca_ok (c : cert) (expected : Z) : bool := ca_bc_ok c expected && cs_ku_present c && ku_bit c 5.

(* --- timestamping --- *)
Definition ts_ku_present (c : cert) : bool := negb (c_kuext c =? 0).
Definition ts_eku_ok (c : cert) : bool :=
  match c_eku c with [e] => (e =? 8) && (c_unknown_eku c =? 0) && negb (c_ekuext c =? 1) | _ => false end.
Definition ts_leaf_ok (c : cert) : bool := leaf_bc_ok c && ts_ku_present c && leaf_ku_ok c && ts_eku_ok c && key_ok c.
Definition ts_ca_ok (c : cert) (expected : Z) : bool := ca_bc_ok c expected && ts_ku_present c && ku_bit c 5.

(* the multi-certificate loop shared by both validators; i = index of the head *)
Section Walk.
Variable t_ok leaf_ok : cert -> bool.
Variable ca_ok : cert -> Z -> bool.

Fixpoint walk (i : nat) (l : list cert) : bool :=
  match l with
  | [] => true
  | c :: rest =>
      t_ok c &&
      match rest with
      | [] => self_signed c
      | p :: _ => negb (self_signed c) && issued_by c p
      end &&
      (if Nat.eqb i 0 then leaf_ok c else ca_ok c (Z.of_nat i - 1)) &&
      walk (S i) rest
  end.

Definition validate_gen (l : list cert) : bool :=
  match l with
  | [] => false
  | [c] => selfsig c && names_eq c c && t_ok c && leaf_ok c
  | _ => walk 0 l
  end.
End Walk.

(* ValidateCodeSigningCertChain(chain, signingTime) == nil *)
Definition validate_cs (st : option Z) (l : list cert) : bool := validate_gen (time_ok st) cs_leaf_ok cs_ca_ok l.
(* ValidateTimestampingCertChain(chain) == nil *)
Definition validate_ts (l : list cert) : bool := validate_gen (fun _ => true) ts_leaf_ok ts_ca_ok l.

(* x509util.ValidateChain: purpose 0 = CodeSigning, 1 = Timestamping, anything else is rejected *)
Definition validate_chain (purpose : Z) (l : list cert) : bool :=
  if purpose =? 0 then validate_cs None l else if purpose =? 1 then validate_ts l else false.
End Validate.

(* matrix oracles for the correspondence runs: sf[i][j] = chain[i].CheckSignatureFrom(chain[j]) *)
Definition mat_sigfrom (sf : list (list bool)) (c p : cert) : bool := nth (c_idx p) (nth (c_idx c) sf []) false.
Definition vec_selfsig (ss : list bool) (c : cert) : bool := nth (c_idx c) ss false.
