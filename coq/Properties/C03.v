(* C03 - Code-signing chain validation accepts exactly the conforming ordered chains.
   Statements only; proofs in Proofs/Cert.v.  sigfrom / selfsig are arbitrary oracles for
   crypto/x509's CheckSignatureFrom / CheckSignature. *)
From NCG Require Import Model.Cert Proofs.Cert.

Theorem C03_exact : forall sigfrom selfsig st chain,
  validate_cs sigfrom selfsig st chain = true <-> ConformingCS sigfrom selfsig st chain.
Proof. exact validate_cs_exact. Qed.
Print Assumptions C03_exact.

Theorem C03_time_inclusive : forall c, (c_nb c <= c_na c)%Z ->
  time_ok (Some (c_nb c)) c = true /\ time_ok (Some (c_na c)) c = true /\
  time_ok (Some (c_nb c - 1)%Z) c = false /\ time_ok (Some (c_na c + 1)%Z) c = false /\ time_ok None c = true.
Proof. exact time_inclusive. Qed.
Print Assumptions C03_time_inclusive.

Theorem C03_time_every_cert : forall sigfrom selfsig st chain c,
  validate_cs sigfrom selfsig (Some st) chain = true -> In c chain -> (c_nb c <= st <= c_na c)%Z.
Proof. exact validate_cs_time. Qed.
Print Assumptions C03_time_every_cert.

Theorem C03_routed_from_revocation : forall sigfrom selfsig purpose chain,
  validate_chain sigfrom selfsig purpose chain = true ->
  (purpose = 0%Z /\ ConformingCS sigfrom selfsig None chain) \/ (purpose = 1%Z /\ validate_ts sigfrom selfsig chain = true).
Proof. exact validate_chain_routes. Qed.
Print Assumptions C03_routed_from_revocation.

Theorem C03_empty_rejected : forall sigfrom selfsig st purpose,
  validate_cs sigfrom selfsig st [] = false /\ validate_ts sigfrom selfsig [] = false /\
  validate_chain sigfrom selfsig purpose [] = false.
Proof. exact empty_chain_rejected. Qed.
Print Assumptions C03_empty_rejected.
