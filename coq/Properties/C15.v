(* C15 - Timestamped signing needs a verified, matching, unrevoked TSA token.
   Statements only; proofs in Proofs/Timestamp.v.  ts_gate is timestamp.Timestamp, aggregate is
   revocationResult, sign_ts the format-level Sign with an optional timestamper (Model/Timestamp.v);
   the authority, tspclient-go and the revocation validator are oracle results (tsaw). *)
From NCG Require Import Model.Timestamp Proofs.Timestamp.

Theorem C15_aggregate : forall rs n,
  aggregate rs n = AOk <-> rs <> [] /\ length rs = n /\ Forall (fun r => r = ROK \/ r = RNonRevokable) rs.
Proof. exact aggregate_ok_iff. Qed.
Print Assumptions C15_aggregate.

Theorem C15_revoked_priority : forall rs n, rs <> [] -> length rs = n -> In RRevoked rs -> aggregate rs n = ARevoked.
Proof. exact aggregate_revoked_priority. Qed.
Print Assumptions C15_revoked_priority.

Theorem C15_unknown_aborts : forall rs n, rs <> [] -> length rs = n -> ~ In RRevoked rs -> In RUnknown rs -> aggregate rs n = AUnknown.
Proof. exact aggregate_unknown. Qed.
Print Assumptions C15_unknown_aborts.

Theorem C15_gate_sound : forall tsigfrom tselfsig w tok, ts_gate tsigfrom tselfsig w = Some tok ->
  t_answer w = true /\ tok = t_token w /\
  exists chain, t_chain w = Some chain /\ validate_ts tsigfrom tselfsig chain = true /\
    match t_validator w with
    | VNone => True
    | VErr => False
    | VResults rs => rs <> [] /\ length rs = length chain /\ Forall (fun r => r = ROK \/ r = RNonRevokable) rs
    end.
Proof. exact gate_sound. Qed.
Print Assumptions C15_gate_sound.

Theorem C15_gate_fails : forall tsigfrom tselfsig w,
  (t_answer w = false \/ t_chain w = None \/ (exists chain, t_chain w = Some chain /\ validate_ts tsigfrom tselfsig chain = false) \/
   t_validator w = VErr \/
   (exists rs chain, t_validator w = VResults rs /\ t_chain w = Some chain /\ (In RRevoked rs \/ In RUnknown rs \/ rs = [] \/ length rs <> length chain))) ->
  ts_gate tsigfrom tselfsig w = None.
Proof. exact gate_fails. Qed.
Print Assumptions C15_gate_fails.

Theorem C15_sign_sound : forall sigfrom selfsig tsigfrom tselfsig q w h, q_scheme q = 0%Z ->
  sign_ts sigfrom selfsig tsigfrom tselfsig q (Some w) = SOk h ->
  ts_contacted q (Some w) = true /\ ts_gate tsigfrom tselfsig w = Some (t_token w) /\ h_ts h = t_token w /\
  exists h0, sign sigfrom selfsig q = SOk h0 /\ h_payload h = h_payload h0 /\ h_sig h = h_sig h0 /\ h_chain h = h_chain h0.
Proof. exact sign_ts_sound. Qed.
Print Assumptions C15_sign_sound.

Theorem C15_fail_no_envelope : forall sigfrom selfsig tsigfrom tselfsig q w,
  ts_contacted q (Some w) = true -> ts_gate tsigfrom tselfsig w = None ->
  sign_ts sigfrom selfsig tsigfrom tselfsig q (Some w) = SErr.
Proof. exact sign_ts_fail_no_envelope. Qed.
Print Assumptions C15_fail_no_envelope.

Theorem C15_not_contacted : forall sigfrom selfsig tsigfrom tselfsig q ts, (q_scheme q <> 0%Z \/ ts = None) ->
  ts_contacted q ts = false /\ sign_ts sigfrom selfsig tsigfrom tselfsig q ts = sign sigfrom selfsig q.
Proof. exact not_contacted. Qed.
Print Assumptions C15_not_contacted.

Theorem C15_no_token_without_ts : forall sigfrom selfsig q h, sign sigfrom selfsig q = SOk h -> h_ts h = 0%Z.
Proof. exact no_token_without_ts. Qed.
Print Assumptions C15_no_token_without_ts.

From Coq Require Import Permutation.
Theorem C15_aggregate_order_independent : forall rs rs' n, Permutation rs rs' -> aggregate rs n = aggregate rs' n.
Proof. exact aggregate_order_independent. Qed.
Print Assumptions C15_aggregate_order_independent.
