(* C14 - Timestamping chain validation accepts exactly the conforming TSA chains.
   Statements only; proofs in Proofs/Cert.v. WF is what crypto/x509 guarantees of a parsed
   certificate (criticality code in {0,1,2}; a non-empty ExtKeyUsage comes from a present extension). *)
From NCG Require Import Model.Cert Proofs.Cert.

Theorem C14_exact : forall sigfrom selfsig chain, Forall WF chain ->
  (validate_ts sigfrom selfsig chain = true <-> ConformingTS sigfrom selfsig chain).
Proof. exact validate_ts_exact. Qed.
Print Assumptions C14_exact.

(* "the same ordering, issuance, self-signed-root and CA requirements as a code-signing chain" *)
Theorem C14_shared_walk : forall sigfrom selfsig chain,
  (forall c, In c chain -> cs_leaf_ok c = ts_leaf_ok c) ->
  (forall c d, In c chain -> cs_ca_ok c d = ts_ca_ok c d) ->
  validate_cs sigfrom selfsig None chain = validate_ts sigfrom selfsig chain.
Proof. exact shared_walk. Qed.
Print Assumptions C14_shared_walk.

(* "The same chain is what the revocation validator demands when configured for timestamping" *)
Theorem C14_revocation_demands_it : forall sigfrom selfsig chain,
  validate_chain sigfrom selfsig 1 chain = validate_ts sigfrom selfsig chain.
Proof. reflexivity. Qed.
Print Assumptions C14_revocation_demands_it.
