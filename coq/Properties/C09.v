(* C09 - Untrusted bytes, certificates and server replies never crash or hang the caller.  PARTIAL.
   What the proof technique carries: every model of this development is a total Gallina function (no
   fuel, structural recursion over the finite slices the Go loops range over), the one model with an
   explicit panic outcome never produces it, and the fan-out cannot get stuck or run forever once
   every exchange has been answered.  Panics inside third-party parsers, nil dereferences in code paths
   outside the models and real hangs are runtime facts: they are covered by the source-site inventory
   and the mutation stream of the correspondence (tests, labelled as such in the evidence). *)
From NCG Require Import Model.Sign Model.Sched Proofs.Sign Proofs.Sched Proofs.Header Proofs.Revocation Model.Revocation.

Theorem C09_sign_never_panics : forall sigfrom selfsig q, sign sigfrom selfsig q <> SPanic.
Proof. exact sign_never_panics. Qed.
Print Assumptions C09_sign_never_panics.

(* never blocks once the transport has answered: no reachable state of the fan-out is stuck ... *)
Theorem C09_fanout_progress : forall R V n kind check nonrev tr s,
  run R V n kind check nonrev (init R V) tr = Some s -> fin s = None ->
  exists a s', step R V n kind check nonrev s a = Some s'.
Proof. exact progress. Qed.
Print Assumptions C09_fanout_progress.

(* ... and every schedule ends after at most 2n+3 steps *)
Theorem C09_fanout_bounded : forall R V n kind check nonrev tr s,
  run R V n kind check nonrev (init R V) tr = Some s -> (length tr + measure R V n s <= 2 * n + 3)%nat.
Proof. exact schedule_bounded. Qed.
Print Assumptions C09_fanout_bounded.

(* a panic in a background goroutine is re-raised on the caller, never lost *)
Theorem C09_panic_reaches_caller : forall R V n kind check nonrev tr s x,
  run R V n kind check nonrev (init R V) tr = Some s -> fin s = Some x ->
  (exists i v, (i < n)%nat /\ kind i = true /\ check i = Pan v) ->
  exists v i, x = inr v /\ (i < n)%nat /\ kind i = true /\ check i = Pan v.
Proof. exact panic_routed. Qed.
Print Assumptions C09_panic_reaches_caller.

(* revocation checking of any chain over any world yields a value: a result per certificate or the
   invalid-chain error (totality stated as an equation with the decision procedure) *)
Theorem C09_revocation_total : forall sigfrom selfsig purpose w st chain,
  match validate_ctx sigfrom selfsig purpose w st chain with
  | None => validate_chain sigfrom selfsig purpose chain = false
  | Some rs => length rs = length chain
  end.
Proof. exact revocation_total. Qed.
Print Assumptions C09_revocation_total.
