(* C13 - Every non-specification signed header is surfaced with its true criticality.
   Statements only; proofs in Proofs/Header.v.  h_ext h = the protected headers that are not
   defined by the envelope specification, as decoded by the JSON / CBOR library (each label once). *)
From NCG Require Import Model.Header Proofs.Header.

Theorem C13_exact : forall sigfrom selfsig decoded h c,
  content_of sigfrom selfsig decoded h = Some c ->
  k_attrs c = map (fun kv => Attr (fst kv) (mem_label (fst kv) (h_crit h)) (snd kv)) (h_ext h) /\
  map a_key (k_attrs c) = ext_keys h /\
  (forall a, In a (k_attrs c) -> (a_critical a = true <-> In (a_key a) (h_crit h))).
Proof. exact attrs_exact. Qed.
Print Assumptions C13_exact.

Theorem C13_verify_same_attrs : forall sigfrom selfsig decoded lv h c,
  verify_of sigfrom selfsig decoded lv h = Some c -> content_of sigfrom selfsig decoded h = Some c /\ lv = true.
Proof. exact verify_implies_content. Qed.
Print Assumptions C13_verify_same_attrs.

(* JWS: a critical label that names no present header makes the envelope invalid *)
Theorem C13_phantom_crit_invalid : forall sigfrom selfsig decoded h v, h_fmt h = 0%Z ->
  In v (h_crit h) -> ~ SpecPresent h v -> ~ In v (ext_keys h) ->
  content_of sigfrom selfsig decoded h = None.
Proof. exact phantom_crit_invalid. Qed.
Print Assumptions C13_phantom_crit_invalid.

(* looking up an attribute by key returns that attribute, or fails when absent *)
Theorem C13_lookup : forall k l,
  match lookup_attr k l with
  | Some a => In a l /\ a_key a = k
  | None => forall a, In a l -> a_key a <> k
  end.
Proof. exact lookup_spec. Qed.
Print Assumptions C13_lookup.
