(* C06 - Revocation checking fails closed under every network, server and cache fault.
   Statements only; proofs in Proofs/Revocation.v.  A world assigns to every URL what contacting
   it yields; every transport / server / cache fault is an outcome that is not an authentic
   answer (UBadURL, UErr, FetchErr, or a response / bundle failing Authentic, Current, BundleGood).
   The theorems hold for every world, i.e. every assignment of faults to any number of URLs. *)
From NCG Require Import Model.Revocation Proofs.Ocsp Proofs.CrlCheck Proofs.Revocation Run.RevSpec Proofs.ReflectRev Proofs.SpecAcceptsModel.

Theorem C06_fail_closed : forall w st c, c_ocsp c <> [] \/ c_crl c <> [] ->
  let r := cr_result (fst (check_cert w st c)) in
  r <> RNonRevokable /\ (r = ROK -> GoodEvidence w st c) /\ (r = RRevoked -> RevokedEvidence w st c).
Proof. exact fail_closed. Qed.
Print Assumptions C06_fail_closed.

Theorem C06_fail_closed_standalone : forall w st c, c_ocsp c <> [] ->
  let r := cr_result (fst (ocsp_of w st c)) in
  r <> RNonRevokable /\
  (r = ROK -> exists u, In u (c_ocsp c) /\ server_check (w_ocsp w) (w_now w) st u = COk) /\
  (r = RRevoked -> exists u, In u (c_ocsp c) /\ server_check (w_ocsp w) (w_now w) st u = CRevoked).
Proof. exact fail_closed_ocsp. Qed.
Print Assumptions C06_fail_closed_standalone.

(* faults on one certificate never change the result of another *)
Theorem C06_isolation : forall w w' st c,
  (forall u, In u (c_ocsp c) -> w_ocsp w u = w_ocsp w' u) ->
  (forall u, In u (c_crl c) -> w_fetch w u = w_fetch w' u) ->
  w_now w = w_now w' ->
  check_cert w st c = check_cert w' st c.
Proof. exact isolation. Qed.
Print Assumptions C06_isolation.

(* a fault is never evidence: an erroring responder / failed fetch cannot be the COk / clear witness *)
Theorem C06_fault_not_evidence : forall w st u,
  (w_ocsp w u = UBadURL \/ w_ocsp w u = UErr) -> server_check (w_ocsp w) (w_now w) st u = CError.
Proof. exact fault_not_evidence. Qed.
Print Assumptions C06_fault_not_evidence.

Theorem C06_fetch_fault_not_clear : forall w st s fr u,
  w_fetch w u = FetchErr -> ~ PointClear (w_fetch w) (w_now w) st s fr u.
Proof. exact fetch_fault_not_clear. Qed.
Print Assumptions C06_fetch_fault_not_clear.

(* the evidence tests that the correspondence run applies to the verdicts the IMPLEMENTATION returned
   (Run/C06.v, classes 2 and 3) are the declarative GoodEvidence / RevokedEvidence above *)
Theorem C06_checked_good_evidence : forall w st c, good_evidence_b w st true c = true <-> GoodEvidence w st c.
Proof. exact good_evidence_b_iff. Qed.
Print Assumptions C06_checked_good_evidence.

Theorem C06_checked_revoked_evidence : forall w st c, revoked_evidence_b w st true c = true <-> RevokedEvidence w st c.
Proof. exact revoked_evidence_b_iff. Qed.
Print Assumptions C06_checked_revoked_evidence.

(* ... and they accept every verdict of the model *)
Theorem C06_spec_side_accepts_model : forall w st c, c_ocsp c <> [] \/ c_crl c <> [] ->
  (cr_result (fst (check_cert w st c)) = ROK -> good_evidence_b w st true c = true) /\
  (cr_result (fst (check_cert w st c)) = RRevoked -> revoked_evidence_b w st true c = true).
Proof. exact model_verdict_has_evidence. Qed.
Print Assumptions C06_spec_side_accepts_model.

(* isolation for the whole result slice; the root's URLs are irrelevant *)
Theorem C06_isolation_chain : forall w w' st chain,
  (forall c u, In c (removelast chain) -> In u (c_ocsp c) -> w_ocsp w u = w_ocsp w' u) ->
  (forall c u, In c (removelast chain) -> In u (c_crl c) -> w_fetch w u = w_fetch w' u) ->
  w_now w = w_now w' ->
  check_positions w st chain = check_positions w' st chain.
Proof. exact isolation_chain. Qed.
Print Assumptions C06_isolation_chain.
