(* C02 - Only the six approved algorithms, each bound to its key type and size.
   Statements only; proofs in Proofs/Algo.v and Proofs/Header.v.  sig_alg / hash_of / extract_keyspec /
   jws_* / cose_* (Model/Algo.v) are the repository's tables; key sizes are arbitrary integers. *)
From NCG Require Import Model.Algo Model.Header Proofs.Algo Proofs.Header.

Theorem C02_table_exact : forall k a,
  sig_alg k = Some a <-> row_of a = (ks_type k, ks_size k, a, hash_of (Some a), jws_name a, cose_id a).
Proof. exact table_exact. Qed.
Print Assumptions C02_table_exact.

Theorem C02_table_rows : forall a, In (row_of a) six.
Proof. exact row_in_six. Qed.
Print Assumptions C02_table_rows.

Theorem C02_table_none : forall k,
  sig_alg k = None <->
  forall a, (ks_type k, ks_size k) <> (fst (fst (fst (fst (fst (row_of a))))), snd (fst (fst (fst (fst (row_of a)))))).
Proof. exact table_none. Qed.
Print Assumptions C02_table_none.

Theorem C02_hash_exact : forall a, hash_of (Some a) = snd (fst (fst (row_of a))) /\ (hash_of None = 0%Z).
Proof. exact hash_exact. Qed.
Print Assumptions C02_hash_exact.

Theorem C02_jws_names_bijective :
  (forall a, jws_alg (jws_name a) = Some a) /\ (forall j a, jws_alg j = Some a -> j = jws_name a) /\
  (forall j, jws_valid_method j = true <-> exists a, j = jws_name a).
Proof. exact jws_names_bijective. Qed.
Print Assumptions C02_jws_names_bijective.

Theorem C02_cose_ids_bijective :
  (forall a, cose_alg (cose_id a) = Some a) /\ (forall z a, cose_alg z = Some a -> z = cose_id a) /\
  (forall a, cose_hash (cose_id a) = hash_of (Some a)).
Proof. exact cose_ids_bijective. Qed.
Print Assumptions C02_cose_ids_bijective.

Theorem C02_key_spec_exact : forall pk k,
  extract_keyspec pk = Some k <->
  (exists b, pk = PkRSA b /\ k = KS 1 (rsa_size_bytes b * 8) /\ (rsa_size_bytes b = 256 \/ rsa_size_bytes b = 384 \/ rsa_size_bytes b = 512))%Z \/
  (exists bits, pk = PkEC bits /\ k = KS 2 bits /\ (bits = 256 \/ bits = 384 \/ bits = 521))%Z.
Proof. exact extract_exact. Qed.
Print Assumptions C02_key_spec_exact.

Theorem C02_key_alg_total : forall pk k, extract_keyspec pk = Some k -> exists a, sig_alg k = Some a /\ key_alg pk = Some a.
Proof. exact key_alg_total. Qed.
Print Assumptions C02_key_alg_total.

(* envelopes: content extraction / verification succeeds only with a declared algorithm that is one
   of the six and is the one dictated by the leaf certificate's key *)
Theorem C02_verify_diagonal : forall sigfrom selfsig decoded h c,
  (h_fmt h = 0 \/ h_fmt h = 1)%Z ->
  content_of sigfrom selfsig decoded h = Some c ->
  exists leaf rest a, h_chain h = leaf :: rest /\ key_alg (c_pk leaf) = Some a /\ k_alg c = alg_Z (Some a) /\ h_alg h = alg_Z (Some a).
Proof. exact declared_alg_is_key_alg. Qed.
Print Assumptions C02_verify_diagonal.
