(* C01 - Verified envelope content was signed by the leaf certificate's key.
   Statements only; proofs in Proofs/Header.v.  The cryptographic fact "the signature verifies over
   the protected header and payload exactly as carried, under the public key of the first
   certificate" is the oracle lib_verify (computed independently by the harness with the standard
   library's crypto); the theorems say that the repository's Verify() succeeds only under it, and
   that what it returns is the decoding (mk_content) of exactly that protected header and payload. *)
From NCG Require Import Model.Header Proofs.Header.

Theorem C01_sound : forall sigfrom selfsig decoded lv h c,
  (h_fmt h = 0 \/ h_fmt h = 1)%Z ->
  verify_of sigfrom selfsig decoded lv h = Some c ->
  lv = true /\ decoded = true /\ c = mk_content h /\ ContentOK sigfrom selfsig h c.
Proof. exact verify_sound. Qed.
Print Assumptions C01_sound.

(* without a signature that verifies under the leaf key nothing is ever returned *)
Theorem C01_no_signature_no_content : forall sigfrom selfsig decoded h,
  verify_of sigfrom selfsig decoded false h = None.
Proof. exact no_signature_no_content. Qed.
Print Assumptions C01_no_signature_no_content.

(* only the unsigned parts (signing agent, timestamp token) may vary without changing the verdict
   or the signed content *)
Theorem C01_unsigned_parts_irrelevant : forall sigfrom selfsig decoded lv h agent ts,
  verify_of sigfrom selfsig decoded lv (with_unsigned h agent ts) =
  match verify_of sigfrom selfsig decoded lv h with
  | Some c => Some (Content (k_payload c) (k_cty c) (k_scheme c) (k_time c) (k_expiry c) (k_attrs c) (k_alg c) (k_sig c) (k_chain c) agent ts)
  | None => None
  end.
Proof. exact unsigned_parts_irrelevant. Qed.
Print Assumptions C01_unsigned_parts_irrelevant.

(* the algorithm under which the signature was checked is the one dictated by the leaf key *)
Theorem C01_leaf_key_algorithm : forall sigfrom selfsig decoded lv h c,
  (h_fmt h = 0 \/ h_fmt h = 1)%Z ->
  verify_of sigfrom selfsig decoded lv h = Some c ->
  exists leaf rest a, h_chain h = leaf :: rest /\ key_alg (c_pk leaf) = Some a /\ k_alg c = alg_Z (Some a).
Proof. exact leaf_key_algorithm. Qed.
Print Assumptions C01_leaf_key_algorithm.
