(* C12 - Revocation results are complete, positional and internally consistent.
   Statements only; proofs in Proofs/Revocation.v. *)
From NCG Require Import Model.Revocation Proofs.Ocsp Proofs.CrlCheck Proofs.Revocation Run.RevSpec Proofs.ReflectRev Proofs.SpecAcceptsModel Run.C12.

(* exactly one result per certificate, in chain order, slot i describing certificate i; the root
   slot is NonRevokable; an empty or non-conforming chain gives the invalid-chain error and no results *)
Theorem C12_slice : forall sigfrom selfsig purpose w st chain,
  match validate_ctx sigfrom selfsig purpose w st chain with
  | None => validate_chain sigfrom selfsig purpose chain = false
  | Some rs =>
      validate_chain sigfrom selfsig purpose chain = true /\ chain <> [] /\
      length rs = length chain /\
      forall i c, nth_error chain i = Some c ->
        nth_error rs i = Some (if Nat.eqb (S i) (length chain) then (nonrev, []) else check_cert w st c)
  end.
Proof. exact validate_ctx_spec. Qed.
Print Assumptions C12_slice.

Theorem C12_invalid_chain : forall sigfrom selfsig purpose w st,
  validate_ctx sigfrom selfsig purpose w st [] = None /\ ocsp_check_status sigfrom selfsig purpose w st [] = None.
Proof. exact invalid_empty. Qed.
Print Assumptions C12_invalid_chain.

(* each result's server results name only that certificate's URLs *)
Theorem C12_positional : forall w st c s, In s (cr_servers (fst (check_cert w st c))) ->
  sr_url s = 0%Z \/ In (sr_url s) (c_ocsp c) \/ In (sr_url s) (c_crl c).
Proof. exact check_cert_positional. Qed.
Print Assumptions C12_positional.

(* the verdict agrees with the server results as documented *)
Theorem C12_consistent : forall w st c, Consistent c (fst (check_cert w st c)).
Proof. exact check_cert_consistent. Qed.
Print Assumptions C12_consistent.

Theorem C12_ok_never_with_revoked : forall w st c, cr_result (fst (check_cert w st c)) = ROK ->
  forall s, In s (cr_servers (fst (check_cert w st c))) -> sr_result s <> RRevoked.
Proof. exact ok_no_revoked_entry. Qed.
Print Assumptions C12_ok_never_with_revoked.

(* the consistency test that the correspondence run applies to every result the IMPLEMENTATION returned
   (Run/C12.v, classes 5) is the declarative Consistent above, and the standalone OCSP variant is its
   OCSP-only form with the "no responder" result spelled out *)
Theorem C12_checked_consistency_is_Consistent : forall c r, consistent_b c r = true <-> Consistent c r.
Proof. exact consistent_b_iff. Qed.
Print Assumptions C12_checked_consistency_is_Consistent.

Theorem C12_checked_standalone_consistency : forall c r, consistent_ocsp_b c r = true <->
  (c_ocsp c = [] /\ r = CRes RNonRevokable [SRes RNonRevokable 0] MOCSP) \/
  (c_ocsp c <> [] /\ cr_method r = MOCSP /\ OcspEntries (c_ocsp c) (cr_result r) (cr_servers r)).
Proof. exact consistent_ocsp_b_iff. Qed.
Print Assumptions C12_checked_standalone_consistency.

(* ... and it accepts every result of the model *)
Theorem C12_spec_side_accepts_model : forall w st c, consistent_b c (fst (check_cert w st c)) = true.
Proof. exact model_result_consistent. Qed.
Print Assumptions C12_spec_side_accepts_model.

Theorem C12_spec_side_clause8_accepts_model : forall w st c, lone_unknown_not_decisive w st c (fst (check_cert w st c)) = false.
Proof. exact model_never_lone_nondecisive_unknown. Qed.
Print Assumptions C12_spec_side_clause8_accepts_model.
