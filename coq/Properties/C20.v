(* C20 - An envelope object reflects its last successful signing or its parsed bytes.
   Statements only; proofs in Proofs/Object.v.  step/run (Model/Object.v) model the wrapper object
   (Raw, inner message) under Sign / Verify / Content; obs is what a caller can observe; ref_step /
   ref_run the reference machine of the property (after a failed signing: previous state or no
   signature). *)
From NCG Require Import Model.Object Proofs.Object.

Theorem C20_refines : forall ops s, ref_run (obs s) ops (run s ops) (obs (final s ops)).
Proof. exact refines. Qed.
Print Assumptions C20_refines.

Theorem C20_pure : forall s o, (o = Verify \/ o = Content) ->
  fst (step s o) = s /\ snd (step (fst (step s o)) o) = snd (step s o).
Proof. exact pure. Qed.
Print Assumptions C20_pure.

Theorem C20_fresh_no_signature : snd (step new_obj Verify) = ONoSig /\ snd (step new_obj Content) = ONoSig.
Proof. exact fresh_no_signature. Qed.
Print Assumptions C20_fresh_no_signature.

Theorem C20_after_sign : forall s r,
  let s' := fst (step s (SignOk r)) in
  snd (step s (SignOk r)) = OBytes r /\ snd (step s' Verify) = OContent r /\ snd (step s' Content) = OContent r /\
  s' = parsed r true.
Proof. exact after_sign. Qed.
Print Assumptions C20_after_sign.

Theorem C20_failed_sign_not_observable : forall s o r,
  (o = SignFailEarly r \/ o = SignFailInner r \/ o = SignFailLate r) ->
  snd (step s o) = OErr /\ (obs (fst (step s o)) = obs s \/ obs (fst (step s o)) = None).
Proof. exact failed_sign_not_observable. Qed.
Print Assumptions C20_failed_sign_not_observable.

(* over whole histories of any length: content c is returned only if the object started out
   showing c or a SUCCESSFUL signing of c occurred *)
Theorem C20_outputs_only_if_signed : forall ops s c,
  In (OContent c) (run s ops) -> (exists v, obs s = Some (c, v)) \/ In (SignOk c) ops.
Proof. exact outputs_only_if_signed. Qed.
Print Assumptions C20_outputs_only_if_signed.

Theorem C20_shown_only_if_signed : forall ops s c v,
  obs (final s ops) = Some (c, v) -> obs s = Some (c, v) \/ (In (SignOk c) ops /\ v = true).
Proof. exact shown_only_if_signed. Qed.
Print Assumptions C20_shown_only_if_signed.

(* the executable acceptance test applied to the IMPLEMENTATION's traces (Run/C20.v ref_accepts) accepts
   exactly the runs of the reference machine *)
From NCG Require Import Run.C20 Proofs.Reflect.
Theorem C20_checker_sound : forall ops outs poss,
  ref_accepts poss ops outs = 0%Z -> poss <> [] -> exists a c, In a poss /\ ref_run a ops outs c.
Proof. exact ref_accepts_sound. Qed.
Print Assumptions C20_checker_sound.

Theorem C20_checker_complete : forall ops outs a c poss,
  In a poss -> ref_run a ops outs c -> ref_accepts poss ops outs = 0%Z.
Proof. exact ref_accepts_complete. Qed.
Print Assumptions C20_checker_complete.
