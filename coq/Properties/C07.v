(* C07 - Content returned from an envelope obeys the Notary signed-attribute rules.
   Statements only; proofs in Proofs/Header.v.  content_of / verify_of (Model/Header.v) are the
   repository's Content() / Verify() on the decoded view of an envelope (library decoding, signature
   verification and X.509 signature checks are oracles: decoded, lib_verify, sigfrom, selfsig).
   ContentOK is the property's list of signed-attribute rules, Conformant "meets the envelope
   specification" (both defined at the top of the C07 sections of Proofs/Header.v). *)
From NCG Require Import Model.Header Proofs.Header Proofs.SpecAcceptsModel.

Theorem C07_sound : forall sigfrom selfsig decoded h c,
  (h_fmt h = 0 \/ h_fmt h = 1)%Z ->
  content_of sigfrom selfsig decoded h = Some c -> decoded = true /\ ContentOK sigfrom selfsig h c.
Proof. exact content_sound. Qed.
Print Assumptions C07_sound.

Theorem C07_verify_implies_content : forall sigfrom selfsig decoded lv h c,
  verify_of sigfrom selfsig decoded lv h = Some c -> content_of sigfrom selfsig decoded h = Some c /\ lv = true.
Proof. exact verify_implies_content. Qed.
Print Assumptions C07_verify_implies_content.

Theorem C07_complete_content : forall sigfrom selfsig h, Conformant sigfrom selfsig h ->
  content_of sigfrom selfsig true h = Some (mk_content h).
Proof. exact content_complete. Qed.
Print Assumptions C07_complete_content.

Theorem C07_complete_verify : forall sigfrom selfsig h, Conformant sigfrom selfsig h ->
  verify_of sigfrom selfsig true true h = Some (mk_content h).
Proof. exact verify_complete. Qed.
Print Assumptions C07_complete_verify.

(* the JWS crit loop: exact characterisation under no-repetition, and soundness in general *)
Theorem C07_crit_loop_exact : forall ext crit must,
  NoDup crit ->
  (forall v, In v crit -> In v must \/ existsb (fun kv => label_eqb (fst kv) v) ext = true) ->
  jws_crit_loop must ext crit = Some (filter (fun m => negb (mem_label m crit)) must).
Proof. exact crit_loop_char. Qed.
Print Assumptions C07_crit_loop_exact.

(* the boolean evaluated by the correspondence on every content the IMPLEMENTATION returns is exactly
   ContentOK (so a code-2 verdict is a violation of the predicate of C07_sound, and nothing else is) *)
From NCG Require Import Run.Env Proofs.Reflect.
Theorem C07_checker_sound : forall sf ss h c, (h_fmt h = 0 \/ h_fmt h = 1)%Z ->
  content_ok_b sf ss h c = true -> ContentOK sf ss h c.
Proof. exact content_ok_b_sound. Qed.
Print Assumptions C07_checker_sound.

Theorem C07_checker_complete : forall sf ss h c, (h_fmt h = 0 \/ h_fmt h = 1)%Z ->
  ContentOK sf ss h c -> content_ok_b sf ss h c = true.
Proof. exact content_ok_b_complete. Qed.
Print Assumptions C07_checker_complete.

(* the content test of the runs (Run/C07.v clauses 1-3, Run/C01.v clause 1) accepts whatever the model returns *)
Theorem C07_spec_side_accepts_model : forall sf ss decoded lv h c, (h_fmt h = 0 \/ h_fmt h = 1)%Z ->
  verify_of sf ss decoded lv h = Some c ->
  content_of sf ss decoded h = Some c /\ lv = true /\ content_ok_b sf ss h c = true /\ decoded = true.
Proof. exact model_verify_passes_spec. Qed.
Print Assumptions C07_spec_side_accepts_model.
