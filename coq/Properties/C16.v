(* C16 - Invalid sign requests never produce an envelope.
   Statements only; proofs in Proofs/Sign.v.  sign (Model/Sign.v) is the model of Envelope.Sign of
   both formats on an abstract request (signer, encoders and go-cose's header validation are oracles
   carried by the request).  ValidReq / AttrsOK are the clauses of the property. *)
From NCG Require Import Model.Sign Proofs.Header Proofs.Sign Proofs.SignComplete.

Theorem C16_gate : forall sigfrom selfsig q h, sign sigfrom selfsig q = SOk h ->
  ValidReq sigfrom selfsig q /\
  exists s k a chain, q_signer q = Some s /\ s_ks s = Some k /\ sig_alg k = Some a /\ s_chain s = Some chain /\
                      h = built_view q a chain /\ content_of sigfrom selfsig true h = Some (mk_content h).
Proof. exact sign_gate. Qed.
Print Assumptions C16_gate.

Theorem C16_no_panic : forall sigfrom selfsig q, sign sigfrom selfsig q <> SPanic.
Proof. exact sign_never_panics. Qed.
Print Assumptions C16_no_panic.

(* every single defect named by the property makes Sign return an error (and, SErr carrying no
   bytes, no envelope) *)
Theorem C16_rejects : forall sigfrom selfsig q,
  (q_payload q = 0 \/ (q_fmt q = 0 /\ q_pkind q <> 1) \/ trunc_s (q_time q) = 0 \/
   (trunc_s (q_expiry q) <> 0 /\ trunc_s (q_expiry q) <= trunc_s (q_time q)) \/
   (q_scheme q <> 0 /\ q_scheme q <> 1) \/ q_signer q = None \/
   (exists s, q_signer q = Some s /\ (s_ks s = None \/ s_chain s = None \/ s_chain s = Some [] \/
                                      (exists k, s_ks s = Some k /\ sig_alg k = None))) \/
   ~ AttrsOK (q_fmt q) (q_attrs q))%Z ->
  sign sigfrom selfsig q = SErr.
Proof. exact sign_rejects. Qed.
Print Assumptions C16_rejects.

Theorem C16_attrs_gate : forall fmt attrs, attrs_ok fmt attrs = true -> AttrsOK fmt attrs.
Proof. exact attrs_ok_spec. Qed.
Print Assumptions C16_attrs_gate.

(* the boolean applied by the correspondence to every request for which the IMPLEMENTATION produced an
   envelope is implied by ValidReq, and the model's own successes always pass it *)
From NCG Require Import Run.SignCase Proofs.Reflect.
Theorem C16_checker_complete : forall sf ss q, (q_fmt q = 0 \/ q_fmt q = 1)%Z ->
  ValidReq sf ss q -> valid_req_b sf ss q = true.
Proof. exact valid_req_b_complete. Qed.
Print Assumptions C16_checker_complete.

Theorem C16_model_success_passes_checker : forall sf ss q h, (q_fmt q = 0 \/ q_fmt q = 1)%Z ->
  sign sf ss q = SOk h -> valid_req_b sf ss q = true.
Proof. exact sign_ok_valid_req_b. Qed.
Print Assumptions C16_model_success_passes_checker.

(* the gate is exact: Sign produces an envelope for a request if and only if the request is valid
   (and the signer returned a non-empty signature) *)
Theorem C16_exact : forall sigfrom selfsig q, (q_fmt q = 0 \/ q_fmt q = 1)%Z -> q_sig q <> 0%Z ->
  ((exists h, sign sigfrom selfsig q = SOk h) <-> ValidReq sigfrom selfsig q).
Proof. exact sign_exact. Qed.
Print Assumptions C16_exact.
