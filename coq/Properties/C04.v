From NCG Require Import Model.Revocation.
Theorem C04_placeholder : True. Proof. exact I. Qed.
Print Assumptions C04_placeholder.
