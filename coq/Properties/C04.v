(* C04 - OCSP yields OK only on an authentic, current Good answer by an authorised signer.
   Statements only; proofs in Proofs/Ocsp.v.  [outcome] is what happens when a responder URL is
   contacted (an arbitrary function: every assignment of behaviours to any number of URLs),
   [now] the clock, [st] the signing time (0 = none).  Authentic / Current / SaysGood /
   SaysRevoked are the declarative readings of the property text (Proofs/Ocsp.v, top). *)
From NCG Require Import Model.Ocsp Proofs.Ocsp.
From NCG Require Import Model.Revocation Proofs.SpecAcceptsModel.
From NCG Require Run.C04.

Theorem C04_ok_sound : forall outcome now st, 0 < now -> forall urls,
  cr_result (fst (ocsp_check outcome now st urls)) = ROK ->
  exists u r l1 l2, urls = l1 ++ u :: l2 /\ outcome u = UResp r /\ Authentic r /\ Current now r /\ SaysGood st r /\
    (forall v, In v l1 -> server_check outcome now st v = CError).
Proof. exact ok_sound. Qed.
Print Assumptions C04_ok_sound.

Theorem C04_revoked_sound : forall outcome now st, 0 < now -> forall urls,
  cr_result (fst (ocsp_check outcome now st urls)) = RRevoked ->
  exists u r l1 l2, urls = l1 ++ u :: l2 /\ outcome u = UResp r /\ Authentic r /\ Current now r /\ SaysRevoked st r /\
    (forall v, In v l1 -> server_check outcome now st v = CError).
Proof. exact revoked_sound. Qed.
Print Assumptions C04_revoked_sound.

(* the whole result: the first decisive responder decides, otherwise one Unknown entry per responder *)
Theorem C04_exact : forall outcome now st urls, urls <> [] ->
  fst (ocsp_check outcome now st urls) =
  match find (dec outcome now st) urls with
  | Some u => let r := sclass_res (server_check outcome now st u) in CRes r [SRes r u] MOCSP
  | None => CRes RUnknown (map (SRes RUnknown) urls) MOCSP
  end.
Proof. exact ocsp_check_exact. Qed.
Print Assumptions C04_exact.

(* a response saying Revoked (authentic, current, not excused by the invalidity date) at the first
   decisive responder yields Revoked, and only that does *)
Theorem C04_revoked_iff : forall outcome now st urls, urls <> [] ->
  (cr_result (fst (ocsp_check outcome now st urls)) = RRevoked <->
   exists u, find (dec outcome now st) urls = Some u /\ server_check outcome now st u = CRevoked).
Proof. exact revoked_iff. Qed.
Print Assumptions C04_revoked_iff.

Theorem C04_ok_iff : forall outcome now st urls, urls <> [] ->
  (cr_result (fst (ocsp_check outcome now st urls)) = ROK <->
   exists u, find (dec outcome now st) urls = Some u /\ server_check outcome now st u = COk).
Proof. exact ok_iff. Qed.
Print Assumptions C04_ok_iff.

Theorem C04_server_ok_iff : forall outcome now st, 0 < now -> forall u,
  server_check outcome now st u = COk <->
  exists r, outcome u = UResp r /\ Authentic r /\ Current now r /\ SaysGood st r.
Proof. exact server_check_ok. Qed.
Print Assumptions C04_server_ok_iff.

Theorem C04_server_revoked_iff : forall outcome now st, 0 < now -> forall u,
  server_check outcome now st u = CRevoked <->
  exists r, outcome u = UResp r /\ Authentic r /\ Current now r /\ SaysRevoked st r.
Proof. exact server_check_revoked. Qed.
Print Assumptions C04_server_revoked_iff.

(* unsigned / signed by anyone else (incl. the certificate being checked or a sibling without the
   OCSP-signing usage) / other serial / expired / no next-update / Unknown status / Revoked that
   counts: that responder's answer is never OK *)
Theorem C04_never_ok : forall outcome now st, 0 < now -> forall u,
  (outcome u = UBadURL \/ outcome u = UErr \/
   exists r, outcome u = UResp r /\
     (o_sig_valid r = false \/ o_serial_match r = false \/
      (exists a b, o_signer r = ByEmbedded false a b) \/
      (exists a, o_signer r = ByEmbedded a false false) \/
      o_next r < now \/
      o_status r = SUnknownStatus \/
      (o_status r = SRevoked /\ (st = 0 \/ o_inv r = InvAbsent \/ o_inv r = InvUnusable \/ exists t, o_inv r = InvDate t /\ t <= st)))) ->
  server_check outcome now st u <> COk.
Proof. exact never_ok. Qed.
Print Assumptions C04_never_ok.

Theorem C04_all_fail : forall outcome now st urls, urls <> [] ->
  (forall u, In u urls -> dec outcome now st u = false) ->
  fst (ocsp_check outcome now st urls) = CRes RUnknown (map (SRes RUnknown) urls) MOCSP.
Proof. exact all_fail. Qed.
Print Assumptions C04_all_fail.

(* responders are contacted in order, up to and including the first decisive one *)
Theorem C04_contact_log : forall outcome now st urls,
  snd (ocsp_check outcome now st urls) = filter (contacts outcome) (upto outcome now st urls).
Proof. exact ocsp_check_log. Qed.
Print Assumptions C04_contact_log.

(* the clauses that the correspondence run applies to the leaf result of the IMPLEMENTATION (Run/C04.v) accept the
   result of the model in every world *)
Theorem C04_spec_side_accepts_model : forall w st urls, urls <> [] ->
  Run.C04.c04_spec w st urls (cr_result (fst (ocsp_check (w_ocsp w) (w_now w) st urls))) = 0%Z.
Proof. exact model_passes_c04_spec. Qed.
Print Assumptions C04_spec_side_accepts_model.

(* time only invalidates a response *)
Theorem C04_server_check_antitone : forall outcome now now' st u, now <= now' ->
  server_check outcome now' st u <> CError ->
  server_check outcome now st u = server_check outcome now' st u.
Proof. exact server_check_antitone. Qed.
Print Assumptions C04_server_check_antitone.

Theorem C04_server_error_persists : forall outcome now now' st u, now <= now' ->
  server_check outcome now st u = CError -> server_check outcome now' st u = CError.
Proof. exact server_error_persists. Qed.
Print Assumptions C04_server_error_persists.
