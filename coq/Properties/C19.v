(* C19 - Trust is established only by an exact certificate match, leaf-most first.
   Statements only; proofs are in Proofs/Trust.v. *)
From NCG Require Import Model.Trust Proofs.Trust.

Theorem C19_iff : forall chain trust j,
  verify_authenticity (Some chain) trust = Trusted j <-> exists i, first_match chain trust i j.
Proof. exact verify_authenticity_iff. Qed.
Print Assumptions C19_iff.

Theorem C19_some_iff : forall chain trust,
  (exists j, verify_authenticity (Some chain) trust = Trusted j) <->
  (exists c, In c chain /\ in_trust c trust).
Proof. exact verify_authenticity_some_iff. Qed.
Print Assumptions C19_some_iff.

Theorem C19_only_raw : forall chain chain' trust trust',
  map t_raw chain = map t_raw chain' -> map t_raw trust = map t_raw trust' ->
  verify_authenticity (Some chain) trust = verify_authenticity (Some chain') trust'.
Proof. exact verify_authenticity_only_raw. Qed.
Print Assumptions C19_only_raw.

Theorem C19_arg_errors : forall signer trust,
  (trust = [] -> verify_authenticity signer trust = ArgErrTrust) /\
  (trust <> [] -> signer = None -> verify_authenticity signer trust = ArgErrSigner) /\
  (verify_authenticity signer trust = AuthErr -> trust <> [] /\ exists chain, signer = Some chain /\
       forall c, In c chain -> ~ in_trust c trust).
Proof. exact arg_errors. Qed.
Print Assumptions C19_arg_errors.

Theorem C19_ast_iff : forall scheme time,
  (exists t, authentic_signing_time scheme time = Some t) <-> (scheme = 1 /\ time <> 0)%Z.
Proof. exact ast_iff. Qed.
Print Assumptions C19_ast_iff.

Theorem C19_ast_value : forall scheme time t, authentic_signing_time scheme time = Some t -> t = time.
Proof. exact ast_value. Qed.
Print Assumptions C19_ast_value.

(* enlarging the trust store never turns a trusted chain into an untrusted one *)
Theorem C19_trust_monotone : forall chain trust trust',
  (forall t, In t trust -> In t trust') ->
  (exists j, verify_authenticity (Some chain) trust = Trusted j) ->
  (exists j, verify_authenticity (Some chain) trust' = Trusted j).
Proof. exact trust_monotone. Qed.
Print Assumptions C19_trust_monotone.
