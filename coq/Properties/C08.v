(* C08 - Sign then verify returns exactly what was asked to be signed.
   Statements only; proofs in Proofs/Sign.v.  expected_content q a chain lists the request field by
   field (payload, content type, scheme, times truncated to whole seconds, every attribute with its
   label, criticality and value, algorithm of the signer's key, signature, chain in order, agent).
   lib_verify = true: the signer's signature verifies under the leaf key (cryptographic assumption
   on an honest signer; checked on every generated case by the independent oracle). *)
From NCG Require Import Model.Sign Proofs.Header Proofs.Sign Proofs.SignComplete.

Theorem C08_roundtrip : forall sigfrom selfsig q h, sign sigfrom selfsig q = SOk h ->
  exists s k a chain, q_signer q = Some s /\ s_ks s = Some k /\ sig_alg k = Some a /\ s_chain s = Some chain /\
    verify_of sigfrom selfsig true true h = Some (expected_content q a chain) /\
    content_of sigfrom selfsig true h = Some (expected_content q a chain).
Proof. exact sign_roundtrip. Qed.
Print Assumptions C08_roundtrip.

Theorem C08_built_content : forall q a chain,
  AttrsOK (q_fmt q) (q_attrs q) -> (q_scheme q = 0 \/ q_scheme q = 1)%Z ->
  mk_content (built_view q a chain) = expected_content q a chain.
Proof. exact built_content. Qed.
Print Assumptions C08_built_content.

(* criticality is preserved attribute by attribute for any number of attributes *)
Theorem C08_criticality_preserved : forall (ps : list (label * rattr)),
  NoDup (map fst ps) ->
  forall l a, In (l, a) ps -> mem_label l (map fst (filter (fun p => ra_crit (snd p)) ps)) = ra_crit a.
Proof. exact crit_flag_preserved. Qed.
Print Assumptions C08_criticality_preserved.

(* "For every valid sign request ... the produced envelope parses and verifies": every valid request
   whose signer returns a non-empty signature IS signed (the envelope built for it meets the envelope
   specification, so the wrapper's read-back accepts it), and C08_roundtrip then gives its content *)
Theorem C08_valid_request_is_signed : forall sigfrom selfsig q, (q_fmt q = 0 \/ q_fmt q = 1)%Z ->
  ValidReq sigfrom selfsig q -> q_sig q <> 0%Z -> exists h, sign sigfrom selfsig q = SOk h.
Proof. exact sign_complete. Qed.
Print Assumptions C08_valid_request_is_signed.

Theorem C08_signs_exactly_the_valid_requests : forall sigfrom selfsig q, (q_fmt q = 0 \/ q_fmt q = 1)%Z -> q_sig q <> 0%Z ->
  ((exists h, sign sigfrom selfsig q = SOk h) <-> ValidReq sigfrom selfsig q).
Proof. exact sign_exact. Qed.
Print Assumptions C08_signs_exactly_the_valid_requests.

(* the envelope built for a valid request meets the envelope specification of C07 *)
Theorem C08_built_envelope_conformant : forall sigfrom selfsig q s k a leaf rest,
  (q_fmt q = 0 \/ q_fmt q = 1)%Z -> ValidReq sigfrom selfsig q -> q_sig q <> 0%Z ->
  q_signer q = Some s -> s_ks s = Some k -> sig_alg k = Some a -> s_chain s = Some (leaf :: rest) ->
  Conformant sigfrom selfsig (built_view q a (leaf :: rest)).
Proof. exact built_conformant. Qed.
Print Assumptions C08_built_envelope_conformant.
