From NCG Require Import Model.Revocation.
Theorem C05_placeholder : True. Proof. exact I. Qed.
Print Assumptions C05_placeholder.
