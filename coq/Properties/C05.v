(* C05 - CRL yields OK only if every distribution point gave an authentic, current CRL.
   Statements only; proofs in Proofs/CrlCheck.v.  [fetch] is what the fetcher returns per URL
   (arbitrary function), [freshest] = the certificate carries a freshest-CRL pointer.
   PointGood / PointClear / PointRevokes / PointFails / BundleGood / CrlGood / DeltaGood are the
   declarative readings of the property text (Proofs/CrlCheck.v, top). *)
From NCG Require Import Model.Crl Proofs.Crl Proofs.CrlCheck.
From NCG Require Import Model.Revocation Proofs.SpecAcceptsModel.
From NCG Require Run.C05.

Theorem C05_ok_iff : forall fetch now st serial freshest urls, urls <> [] ->
  (cr_result (fst (crl_check fetch now st serial freshest urls)) = ROK <->
   forall u, In u urls -> PointClear fetch now st serial freshest u).
Proof. exact ok_iff. Qed.
Print Assumptions C05_ok_iff.

(* what "authentic, current, delta consistent" means is exactly what the validation computes *)
Theorem C05_bundle_good_iff : forall now b, validate_bundle now b = true <-> BundleGood now b.
Proof. exact bundle_good_iff. Qed.
Print Assumptions C05_bundle_good_iff.

(* any point failing (or listing the certificate): Unknown, or Revoked when that first
   non-clear point lists the certificate (every earlier point was clear) *)
Theorem C05_not_ok_cases : forall fetch now st serial freshest urls, urls <> [] ->
  (exists u, In u urls /\ ~ PointClear fetch now st serial freshest u) ->
  exists l1 u l2, urls = l1 ++ u :: l2 /\ (forall v, In v l1 -> PointClear fetch now st serial freshest v) /\
    ((PointRevokes fetch now st serial freshest u /\
      fst (crl_check fetch now st serial freshest urls) = CRes RRevoked [SRes RRevoked u] MCRL) \/
     (PointFails fetch now st serial freshest u /\
      fst (crl_check fetch now st serial freshest urls) = CRes RUnknown [SRes RUnknown u] MCRL)).
Proof. exact not_ok_cases. Qed.
Print Assumptions C05_not_ok_cases.

Theorem C05_exact : forall fetch now st serial freshest urls, urls <> [] ->
  fst (crl_check fetch now st serial freshest urls) =
  match find (fun u => negb (clear_b fetch now st serial freshest u)) urls with
  | None => CRes ROK (map (SRes ROK) urls) MCRL
  | Some u => CRes (stop_result fetch now st serial freshest u) [SRes (stop_result fetch now st serial freshest u) u] MCRL
  end.
Proof. exact crl_check_exact. Qed.
Print Assumptions C05_exact.

Theorem C05_point_iff : forall fetch now st serial freshest u r,
  point_check fetch now st serial freshest u = Some r <->
  exists b, PointGood fetch now st serial freshest u b /\ scan serial st None (bundle_entries b) = r.
Proof. exact point_check_some. Qed.
Print Assumptions C05_point_iff.

Theorem C05_delta_boundaries : forall now base d nb,
  CrlGood now base -> CrlGood now d -> l_number base = Some nb ->
  (forall nd, l_number d = Some nd -> nd <= nb -> validate_bundle now (Bundle base (Some d)) = false) /\
  (forall nd ind, l_number d = Some nd -> nb < nd -> find_indicator (l_exts d) = Some (Some ind) ->
     (validate_bundle now (Bundle base (Some d)) = true <-> ind <= nb)) /\
  (find_indicator (l_exts d) = None \/ find_indicator (l_exts d) = Some None \/ l_number d = None ->
     validate_bundle now (Bundle base (Some d)) = false).
Proof. exact delta_boundaries. Qed.
Print Assumptions C05_delta_boundaries.

Theorem C05_shape : forall fetch now st serial freshest urls, urls <> [] ->
  let c := fst (crl_check fetch now st serial freshest urls) in
  cr_method c = MCRL /\ CrlEntries urls (cr_result c) (cr_servers c).
Proof. exact shape. Qed.
Print Assumptions C05_shape.

(* every point up to the first non-clear one is fetched, in order, and nothing after it *)
Theorem C05_fetch_log : forall fetch now st serial freshest urls,
  exists rest, urls = snd (crl_check fetch now st serial freshest urls) ++ rest /\
    (cr_result (fst (crl_check fetch now st serial freshest urls)) = ROK -> rest = []).
Proof. exact log_prefix. Qed.
Print Assumptions C05_fetch_log.

(* the clauses that the correspondence run applies to the leaf result of the IMPLEMENTATION (Run/C05.v) accept the
   result of the model in every world *)
Theorem C05_spec_side_accepts_model : forall w st leaf, c_crl leaf <> [] ->
  Run.C05.c05_spec w st leaf (cr_result (fst (crl_check (w_fetch w) (w_now w) st (c_serial leaf) (c_freshest leaf) (c_crl leaf)))) = 0%Z.
Proof. exact model_passes_c05_spec. Qed.
Print Assumptions C05_spec_side_accepts_model.

(* time only invalidates: no bundle refused now is accepted later *)
Theorem C05_expired_stays_refused : forall now now' b, now <= now' ->
  validate_bundle now b = false -> validate_bundle now' b = false.
Proof. exact expired_stays_refused. Qed.
Print Assumptions C05_expired_stays_refused.
