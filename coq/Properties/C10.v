(* C10 - CRL entries: permanent, hold/remove, invalidity date and delta are honoured.
   Statements only; proofs in Proofs/Crl.v.  scan s st None (base ++ delta) is the model of
   checkRevocation; st = 0 is "no signing time". *)
From NCG Require Import Model.Crl Proofs.Crl.
From Coq Require Import Permutation.

Theorem C10_scan_is_spec : forall s st l, scan s st None l = entries_spec s st l.
Proof. exact scan_is_spec. Qed.
Print Assumptions C10_scan_is_spec.

Theorem C10_unlisted_ok : forall s st l, (forall e, In e l -> e_serial e <> s) -> scan s st None l = EOk.
Proof. exact unlisted_ok. Qed.
Print Assumptions C10_unlisted_ok.

Theorem C10_other_serials_irrelevant : forall s st l l',
  matching s l = matching s l' -> scan s st None l = scan s st None l'.
Proof. exact other_serials_irrelevant2. Qed.
Print Assumptions C10_other_serials_irrelevant.

Theorem C10_ok_exact : forall s st l,
  scan s st None l = EOk <->
  (forall e, In e (matching s l) -> bad e = false /\ (counts st e = true -> permanent e = false)) /\
  (forall e, fold_left pick (filter (tempc st) (matching s l)) None = Some e -> e_reason e <> 6).
Proof. exact ok_exact. Qed.
Print Assumptions C10_ok_exact.

Theorem C10_permanent_revoked : forall s st l,
  (forall e, In e l -> e_serial e = s -> bad e = false) ->
  (exists e, In e l /\ e_serial e = s /\ counts st e = true /\ permanent e = true) ->
  scan s st None l = ERevoked.
Proof. exact permanent_revoked. Qed.
Print Assumptions C10_permanent_revoked.

Theorem C10_hold_remove : forall s st l,
  (forall e, In e (matching s l) -> stopper st e = false) ->
  match fold_left pick (filter (tempc st) (matching s l)) None with
  | None => scan s st None l = EOk /\ filter (tempc st) (matching s l) = []
  | Some e => In e (matching s l) /\ tempc st e = true /\
              (forall x, In x (matching s l) -> tempc st x = true -> e_rtime x <= e_rtime e) /\
              (scan s st None l = ERevoked <-> e_reason e = 6) /\ (scan s st None l = EOk <-> e_reason e <> 6)
  end.
Proof. exact hold_remove. Qed.
Print Assumptions C10_hold_remove.

Theorem C10_bad_never_ok : forall s st l,
  (exists e, In e l /\ e_serial e = s /\ bad e = true) -> scan s st None l <> EOk.
Proof. exact bad_never_ok. Qed.
Print Assumptions C10_bad_never_ok.

Theorem C10_invalidity_boundary : forall e inv,
  parse_exts (e_exts e) 0 = Some inv -> inv <> 0 ->
  counts inv e = true /\ counts (inv + 1) e = true /\ counts 0 e = true /\
  (inv - 1 <> 0 -> counts (inv - 1) e = false).
Proof. exact invalidity_boundary. Qed.
Print Assumptions C10_invalidity_boundary.

Theorem C10_order_independent : forall s st l l',
  Permutation l l' ->
  (forall e, In e (matching s l) -> bad e = false) ->
  NoDup (map e_rtime (filter (tempc st) (matching s l))) ->
  scan s st None l = scan s st None l'.
Proof. exact order_independent. Qed.
Print Assumptions C10_order_independent.

(* base entries followed by delta entries (bundle_entries) *)
Theorem C10_delta_silent : forall s st base delta,
  (forall e, In e delta -> e_serial e <> s) ->
  scan s st None (base ++ delta) = scan s st None base.
Proof. exact delta_silent. Qed.
Print Assumptions C10_delta_silent.

Theorem C10_delta_permanent_revokes : forall s st base delta,
  (forall e, In e (base ++ delta) -> e_serial e = s -> bad e = false) ->
  (exists e, In e delta /\ e_serial e = s /\ counts st e = true /\ permanent e = true) ->
  scan s st None (base ++ delta) = ERevoked.
Proof. exact delta_permanent_revokes. Qed.
Print Assumptions C10_delta_permanent_revokes.

Theorem C10_split_bad_never_ok : forall s st base delta,
  (exists e, (In e base \/ In e delta) /\ e_serial e = s /\ bad e = true) ->
  scan s st None (base ++ delta) <> EOk.
Proof. exact split_bad_never_ok. Qed.
Print Assumptions C10_split_bad_never_ok.
