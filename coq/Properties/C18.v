(* C18 - The CRL fetcher never serves stale data and never hides a failed download.
   Statements only; proofs in Proofs/Fetcher.v.  fetch cfg w url (Model/Fetcher.v) is HTTPFetcher.Fetch
   in a world w = (cache content, server content, cache get / set faults, clock); the one-call theorems
   hold for EVERY world, hence for every world reached by any history (C18_history_* make that explicit
   over operation lists of any length). *)
From NCG Require Import Model.Fetcher Proofs.Fetcher Run.C18 Proofs.SpecAcceptsModel.

Theorem C18_fetch_sound : forall cfg w url r cache' ev,
  fetch cfg w url = (r, cache', ev) ->
  match r with
  | FOk b true => fc_cache cfg = true /\ fw_get_fault w = false /\ lookup (fw_cache w) url = Some b /\
                  BundleEffective (fw_now w) b /\ cache' = fw_cache w /\ ev = [EGet url]
  | FOk b false => Downloaded w url b /\ In (EDownload url) ev /\
                   (fc_cache cfg = true -> In (ESet url) ev /\ (fw_set_fault w = false -> cache' = (url, b) :: fw_cache w) /\
                                           (fw_set_fault w = true -> fc_discard cfg = true /\ cache' = fw_cache w) /\
                                           (fw_get_fault w = true -> fc_discard cfg = true)) /\
                   (fc_cache cfg = false -> cache' = fw_cache w)
  | FErr => cache' = fw_cache w
  end.
Proof. exact fetch_sound. Qed.
Print Assumptions C18_fetch_sound.

Theorem C18_never_stale : forall cfg w url b cache' ev,
  fetch cfg w url = (FOk b true, cache', ev) -> BundleEffective (fw_now w) b /\ lookup (fw_cache w) url = Some b.
Proof. exact never_stale. Qed.
Print Assumptions C18_never_stale.

(* the delta CRL: present exactly when the base advertises a location, taken from the first
   advertised location that answers; an advertised delta that cannot be obtained or parsed is an error.
   dl srv u = what a download of u yields: the server's answer for an http URL, nothing (and no
   request: dev u = []) for a URL of any other scheme *)
Theorem C18_delta_exact : forall srv base,
  match fetch_delta srv base with
  | (DNone, ev) => advertised base = Some [] /\ ev = []
  | (DErr, ev) => advertised base = None \/
                  exists us, advertised base = Some us /\ us <> [] /\ (forall v, In v us -> dl srv v = None) /\ ev = flat_map dev us
  | (DSome d, ev) => exists l1 u l2, advertised base = Some (l1 ++ u :: l2) /\ (forall v, In v l1 -> dl srv v = None) /\
                                     dl srv u = Some d /\ ev = flat_map dev (l1 ++ [u])
  end.
Proof. exact fetch_delta_exact. Qed.
Print Assumptions C18_delta_exact.

(* the freshest-CRL extension: URIs of all points in order, reading of a point stops at its first
   non-URI name, a name relative to the issuer or malformed DER is a parse error *)
Theorem C18_parse_cdp_exact : forall ps,
  parse_cdp ps = if existsb dp_bad ps then None else Some (flat_map dp_uris ps).
Proof. exact parse_cdp_exact. Qed.
Print Assumptions C18_parse_cdp_exact.

Theorem C18_take_uris_stops : forall l r, take_uris (map GUri l ++ GOther :: r) = l.
Proof. exact take_uris_stops. Qed.
Print Assumptions C18_take_uris_stops.

Theorem C18_get_fault_is_error : forall cfg w url,
  fc_cache cfg = true -> fw_get_fault w = true -> fc_discard cfg = false ->
  fetch cfg w url = (FErr, fw_cache w, [EGet url]).
Proof. exact get_fault_is_error. Qed.
Print Assumptions C18_get_fault_is_error.

Theorem C18_set_fault_is_error : forall cfg w url r cache' ev,
  fc_cache cfg = true -> fw_set_fault w = true -> fc_discard cfg = false ->
  fetch cfg w url = (r, cache', ev) -> match r with FOk _ false => False | _ => True end.
Proof. exact set_fault_is_error. Qed.
Print Assumptions C18_set_fault_is_error.

Theorem C18_miss_is_not_error : forall cfg w url base,
  fw_get_fault w = false -> (fw_set_fault w = false \/ fc_discard cfg = true \/ fc_cache cfg = false) ->
  lookup (fw_cache w) url = None -> dl (fw_server w) url = Some base ->
  (forall ev, fetch_delta (fw_server w) base <> (DErr, ev)) ->
  exists b cache' ev, fetch cfg w url = (FOk b false, cache', ev) /\ fb_base b = base.
Proof. exact miss_is_not_error. Qed.
Print Assumptions C18_miss_is_not_error.

Theorem C18_history_never_stale : forall cfg ops w,
  Forall (fun x => match x with
                   | Some (FOk b true, _) => BundleEffective (fw_now w) b
                   | _ => True end) (frun cfg w ops).
Proof. exact history_never_stale. Qed.
Print Assumptions C18_history_never_stale.

Theorem C18_history_cache_origin : forall cfg ops w0 u b,
  In (u, b) (fw_cache (ffinal cfg w0 ops)) -> Origin cfg w0 ops u b.
Proof. exact cache_origin. Qed.
Print Assumptions C18_history_cache_origin.

(* "freshly downloaded over plain HTTP": every request of a Fetch is for an http URL; the base and
   the delta of a downloaded bundle were both served from http URLs; a URL of another scheme is an
   error without any request, whatever is published there *)
Theorem C18_plain_http_only : forall cfg w url r cache' ev,
  fetch cfg w url = (r, cache', ev) -> forall u, In (EDownload u) ev -> plain_http u = true.
Proof. exact plain_http_only. Qed.
Print Assumptions C18_plain_http_only.

Theorem C18_downloaded_over_http : forall w url b, Downloaded w url b ->
  plain_http url = true /\ lookup (fw_server w) url = Some (fb_base b) /\
  match fb_delta b with
  | None => True
  | Some d => exists u, plain_http u = true /\ lookup (fw_server w) u = Some d
  end.
Proof. exact downloaded_over_http. Qed.
Print Assumptions C18_downloaded_over_http.

Theorem C18_non_http_is_error : forall cfg w url pre, plain_http url = false ->
  fetch_download cfg w url pre = (FErr, fw_cache w, pre).
Proof. exact non_http_is_error. Qed.
Print Assumptions C18_non_http_is_error.

(* the boolean spec that the correspondence run applies to every Fetch of the IMPLEMENTATION (Run/C18.v,
   fetch_spec) accepts every Fetch of the model, in every world: a spec violation reported by the run
   always comes with a difference between implementation and model *)
Theorem C18_spec_side_accepts_model : forall cfg w u, let '(r, _, ev) := fetch cfg w u in fetch_spec cfg w u r ev = 0%Z.
Proof. exact model_fetch_passes_spec. Qed.
Print Assumptions C18_spec_side_accepts_model.
