(* C17 - Revocation checking is schedule-independent, race-free and leaves nothing behind.
   Statements only; proofs in Proofs/Sched.v.  step / run (Model/Sched.v) are the small-step
   interleaving semantics of the per-certificate fan-out (n non-root positions, [kind i] = a goroutine is
   started for position i, [check i] = the sequential per-certificate result or the panic value raised
   there); a schedule is ANY list of step labels that the semantics admits. *)
From NCG Require Import Model.Sched Proofs.Sched.

(* every schedule that reaches the end returns the results of the sequential model, position by
   position, when nothing panics *)
Theorem C17_schedule_independent : forall R V n kind check nonrev tr s x,
  run R V n kind check nonrev (init R V) tr = Some s -> fin s = Some x ->
  (forall i, i < n -> kind i = true -> exists r, check i = Res r) ->
  x = inl (map (expected R V n kind check nonrev) (seq 0 (S n))).
Proof. exact schedule_independent. Qed.
Print Assumptions C17_schedule_independent.

Theorem C17_confluence : forall R V n kind check nonrev tr1 tr2 s1 s2 x1 x2,
  run R V n kind check nonrev (init R V) tr1 = Some s1 -> run R V n kind check nonrev (init R V) tr2 = Some s2 ->
  fin s1 = Some x1 -> fin s2 = Some x2 ->
  (forall i, i < n -> kind i = true -> exists r, check i = Res r) -> x1 = x2.
Proof. exact confluence. Qed.
Print Assumptions C17_confluence.

(* a panic inside a per-certificate check resurfaces on the caller with one of the raised values, and no
   results are returned *)
Theorem C17_panic_routed : forall R V n kind check nonrev tr s x,
  run R V n kind check nonrev (init R V) tr = Some s -> fin s = Some x ->
  (exists i v, i < n /\ kind i = true /\ check i = Pan v) ->
  exists v i, x = inr v /\ i < n /\ kind i = true /\ check i = Pan v.
Proof. exact panic_routed. Qed.
Print Assumptions C17_panic_routed.

(* the send into the panic channel can never block: its capacity is never reached while a goroutine runs *)
Theorem C17_send_never_blocks : forall R V n kind check nonrev tr s i,
  run R V n kind check nonrev (init R V) tr = Some s -> In i (running s) -> length (chan s) < S n.
Proof. exact send_never_blocks. Qed.
Print Assumptions C17_send_never_blocks.

(* the call returns only after every goroutine it started has finished *)
Theorem C17_all_done : forall R V n kind check nonrev tr s,
  run R V n kind check nonrev (init R V) tr = Some s -> fin s <> None -> running s = [] /\ wg s = 0.
Proof. exact all_done. Qed.
Print Assumptions C17_all_done.

(* no reachable unfinished state is stuck (every exchange being answered), and every schedule has at most 2n+3 steps *)
Theorem C17_progress : forall R V n kind check nonrev tr s,
  run R V n kind check nonrev (init R V) tr = Some s -> fin s = None ->
  exists a s', step R V n kind check nonrev s a = Some s'.
Proof. exact progress. Qed.
Print Assumptions C17_progress.

Theorem C17_schedule_bounded : forall R V n kind check nonrev tr s,
  run R V n kind check nonrev (init R V) tr = Some s -> length tr + measure R V n s <= 2 * n + 3.
Proof. exact schedule_bounded. Qed.
Print Assumptions C17_schedule_bounded.

(* data-race freedom of the model: a goroutine step and any other step enabled in the same reachable
   state never write the same result slot *)
Theorem C17_disjoint_footprints : forall R V n kind check nonrev tr s i b s1 s2 x y,
  run R V n kind check nonrev (init R V) tr = Some s ->
  step R V n kind check nonrev s (Finish i) = Some s1 -> step R V n kind check nonrev s b = Some s2 -> b <> Finish i ->
  writes_slot R V n kind check s (Finish i) = Some x -> writes_slot R V n kind check s b = Some y -> x <> y.
Proof. exact disjoint_footprints. Qed.
Print Assumptions C17_disjoint_footprints.
