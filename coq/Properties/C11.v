(* C11 - OCSP is preferred; CRL is consulted exactly when OCSP is absent or inconclusive.
   Statements only; proofs in Proofs/Revocation.v.  check_cert is the per-certificate switch of
   ValidateContext; it returns the result and the contact log (URLs exchanged with, in order). *)
From NCG Require Import Model.Revocation Proofs.Ocsp Proofs.CrlCheck Proofs.Revocation.

Theorem C11_table : forall w st c,
  check_cert w st c =
  match c_ocsp c, c_crl c with
  | [], [] => (nonrev, [])
  | [], _ :: _ => crl_of w st c
  | _ :: _, [] => ocsp_of w st c
  | _ :: _, _ :: _ =>
      match cr_result (fst (ocsp_of w st c)) with
      | RUnknown => (CRes (cr_result (fst (crl_of w st c)))
                          (cr_servers (fst (ocsp_of w st c)) ++ cr_servers (fst (crl_of w st c))) MFallback,
                     snd (ocsp_of w st c) ++ snd (crl_of w st c))
      | _ => ocsp_of w st c
      end
  end.
Proof. exact check_cert_table. Qed.
Print Assumptions C11_table.

(* a Good or Revoked OCSP answer is final: never softened by CRLs, and no CRL is fetched
   (the contact log is OCSP's own log) *)
Theorem C11_final_ocsp : forall w st c, c_ocsp c <> [] ->
  cr_result (fst (ocsp_of w st c)) <> RUnknown -> check_cert w st c = ocsp_of w st c.
Proof. exact ocsp_final. Qed.
Print Assumptions C11_final_ocsp.

Theorem C11_fallback_shape : forall w st c, c_ocsp c <> [] -> c_crl c <> [] ->
  cr_result (fst (ocsp_of w st c)) = RUnknown ->
  check_cert w st c =
  (CRes (cr_result (fst (crl_of w st c))) (cr_servers (fst (ocsp_of w st c)) ++ cr_servers (fst (crl_of w st c))) MFallback,
   snd (ocsp_of w st c) ++ snd (crl_of w st c)).
Proof. exact fallback_shape. Qed.
Print Assumptions C11_fallback_shape.

(* responders are asked first; distribution points only without responders or after an Unknown *)
Theorem C11_ocsp_first : forall w st c,
  exists lo lc, snd (check_cert w st c) = lo ++ lc /\ incl lo (c_ocsp c) /\ incl lc (c_crl c) /\
    (lc <> [] -> c_ocsp c = [] \/ cr_result (fst (ocsp_of w st c)) = RUnknown).
Proof. exact log_order. Qed.
Print Assumptions C11_ocsp_first.

(* the standalone OCSP entry point never consults CRLs *)
Theorem C11_standalone_no_crl : forall sigfrom selfsig purpose w w' st chain,
  w_ocsp w = w_ocsp w' -> w_now w = w_now w' ->
  ocsp_check_status sigfrom selfsig purpose w st chain = ocsp_check_status sigfrom selfsig purpose w' st chain.
Proof. exact standalone_no_crl. Qed.
Print Assumptions C11_standalone_no_crl.

Theorem C11_standalone_positions : forall sigfrom selfsig purpose w st chain,
  match ocsp_check_status sigfrom selfsig purpose w st chain with
  | None => validate_chain sigfrom selfsig purpose chain = false
  | Some rs =>
      validate_chain sigfrom selfsig purpose chain = true /\ chain <> [] /\
      length rs = length chain /\
      forall i c, nth_error chain i = Some c ->
        nth_error rs i = Some (if Nat.eqb (S i) (length chain) then (nonrev, [])
                               else ocsp_check (w_ocsp w) (w_now w) st (c_ocsp c))
  end.
Proof. exact ocsp_check_status_spec. Qed.
Print Assumptions C11_standalone_positions.
