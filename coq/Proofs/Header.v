(* C07, C13 (and the envelope halves of C01, C02): the repository's own rules on a decoded
   envelope view. *)
From NCG Require Import Model.Header Proofs.Cert.
From Coq Require Import Lia.

Lemma label_eqb_eq a b : label_eqb a b = true <-> a = b.
Proof.
  destruct a, b; cbn; try (split; [discriminate|intros H; discriminate]).
  - rewrite Z.eqb_eq. split; [intros ->; reflexivity|intros H; inversion H; reflexivity].
  - rewrite Z.eqb_eq. split; [intros ->; reflexivity|intros H; inversion H; reflexivity].
Qed.
Lemma label_eqb_refl a : label_eqb a a = true.
Proof. apply label_eqb_eq. reflexivity. Qed.
Lemma label_eqb_neq a b : label_eqb a b = false <-> a <> b.
Proof. rewrite <- label_eqb_eq. destruct (label_eqb a b); split; congruence. Qed.
Lemma mem_label_in x l : mem_label x l = true <-> In x l.
Proof.
  unfold mem_label. rewrite existsb_exists. split.
  - intros [y [Hy E]]. apply label_eqb_eq in E. subst. exact Hy.
  - intros H. exists x. split; [exact H|apply label_eqb_refl].
Qed.

Definition ext_keys (h : hview) : list label := map fst (h_ext h).
Lemma ext_has h v : existsb (fun kv => label_eqb (fst kv) v) (h_ext h) = true <-> In v (ext_keys h).
Proof.
  unfold ext_keys. rewrite existsb_exists, in_map_iff. split.
  - intros [kv [Hin E]]. apply label_eqb_eq in E. exists kv. auto.
  - intros [kv [E Hin]]. exists kv. split; [exact Hin|]. apply label_eqb_eq. exact E.
Qed.

(* ---------- the JWS crit loop ---------- *)
Lemma mem_label_cons m v r : mem_label m (v :: r) = label_eqb m v || mem_label m r.
Proof. reflexivity. Qed.

Lemma filter_step_in v r : forall must,
  filter (fun m => negb (mem_label m r)) (filter (fun m => negb (label_eqb m v)) must) =
  filter (fun m => negb (mem_label m (v :: r))) must.
Proof.
  induction must as [|m t IH]; [reflexivity|]. cbn [filter]. rewrite mem_label_cons.
  destruct (label_eqb m v); cbn [negb orb]; [exact IH|].
  cbn [filter]. destruct (mem_label m r); cbn [negb]; [exact IH|f_equal; exact IH].
Qed.

Lemma filter_step_out v r : forall must, mem_label v must = false ->
  filter (fun m => negb (mem_label m r)) must = filter (fun m => negb (mem_label m (v :: r))) must.
Proof.
  induction must as [|m t IH]; intros Mv; [reflexivity|]. cbn [filter]. rewrite mem_label_cons.
  rewrite mem_label_cons in Mv. apply orb_false_iff in Mv. destruct Mv as [E Mt].
  assert (E' : label_eqb m v = false). { apply label_eqb_neq. apply label_eqb_neq in E. congruence. }
  rewrite E'. cbn [orb]. rewrite (IH Mt). reflexivity.
Qed.

Lemma filter_true {A} (l : list A) : l = filter (fun _ => true) l.
Proof. induction l as [|a t IH]; [reflexivity|]. cbn. f_equal. exact IH. Qed.

Lemma crit_loop_char ext : forall crit must,
  NoDup crit ->
  (forall v, In v crit -> In v must \/ existsb (fun kv => label_eqb (fst kv) v) ext = true) ->
  jws_crit_loop must ext crit = Some (filter (fun m => negb (mem_label m crit)) must).
Proof.
  induction crit as [|v r IH]; intros must Hnd Hall; cbn [jws_crit_loop].
  - f_equal. apply filter_true.
  - inversion Hnd as [|? ? Hnotin Hnd']; subst.
    destruct (mem_label v must) eqn:Mv.
    + rewrite IH; [|exact Hnd'|].
      * f_equal. apply filter_step_in.
      * intros w Hw. destruct (Hall w (or_intror Hw)) as [H|H]; [left|right; exact H].
        apply filter_In. split; [exact H|]. apply negb_true_iff, label_eqb_neq. intros ->. contradiction.
    + assert (Hext : existsb (fun kv => label_eqb (fst kv) v) ext = true).
      { destruct (Hall v (or_introl eq_refl)) as [H|H]; [|exact H]. apply mem_label_in in H. congruence. }
      rewrite Hext. rewrite IH; [|exact Hnd'|].
      * f_equal. apply filter_step_out. exact Mv.
      * intros w Hw. destruct (Hall w (or_intror Hw)) as [H|H]; [left; exact H|right; exact H].
Qed.

(* soundness of the loop: on success every crit entry is a required label or an extended attribute,
   and every required label was listed *)
Lemma crit_loop_sound ext : forall crit must,
  jws_crit_loop must ext crit = Some [] ->
  (forall m, In m must -> In m crit) /\
  (forall v, In v crit -> existsb (fun kv => label_eqb (fst kv) v) ext = true \/ True).
Proof.
  intros crit must H. split; [|auto]. revert must H.
  induction crit as [|v r IH]; intros must H m Hm; cbn [jws_crit_loop] in H.
  - inversion H; subst. contradiction.
  - destruct (mem_label v must) eqn:Mv.
    + destruct (label_eqb m v) eqn:E; [apply label_eqb_eq in E; left; congruence|].
      right. apply (IH _ H). apply filter_In. split; [exact Hm|]. rewrite E. reflexivity.
    + destruct (existsb _ ext); [|discriminate]. right. exact (IH _ H m Hm).
Qed.

Lemma crit_loop_entries ext : forall crit must0 must,
  (forall m, In m must -> In m must0) ->
  jws_crit_loop must ext crit <> None ->
  forall v, In v crit -> In v must0 \/ existsb (fun kv => label_eqb (fst kv) v) ext = true.
Proof.
  induction crit as [|v r IH]; intros must0 must Hsub H w Hw; [contradiction|].
  cbn [jws_crit_loop] in H. destruct (mem_label v must) eqn:Mv.
  - destruct Hw as [<-|Hw]; [left; apply Hsub; apply mem_label_in; exact Mv|].
    apply (IH must0 _ (fun m Hm => Hsub m (proj1 (proj1 (filter_In _ _ _) Hm))) H w Hw).
  - destruct (existsb (fun kv => label_eqb (fst kv) v) ext) eqn:E; [|contradiction].
    destruct Hw as [<-|Hw]; [right; exact E|]. apply (IH must0 must Hsub H w Hw).
Qed.

Section S.
Variable sigfrom : cert -> cert -> bool.
Variable selfsig : cert -> bool.

(* ============ C07: soundness of Content ============ *)
(* a specification-defined label that the view shows as present *)
Definition SpecPresent (h : hview) (v : label) : Prop :=
  (v = L_scheme /\ (h_scheme h = 0 \/ h_scheme h = 1 \/ h_scheme h = 2)) \/
  (v = L_expiry /\ tpresent (h_exp h) = true) \/
  (v = L_astime /\ tpresent (h_ast h) = true) \/
  (v = L_stime /\ tpresent (h_st h) = true).

Definition ChainOK (alg : Z) (chain : list cert) : Prop :=
  exists leaf rest, chain = leaf :: rest /\ validate_cs sigfrom selfsig None chain = true /\
                    alg_Z (key_alg (c_pk leaf)) = alg.

Definition ContentOK (h : hview) (c : content) : Prop :=
  k_payload c <> 0 /\ k_sig c <> 0 /\ k_payload c = h_payload h /\ k_sig c = h_sig h /\
  (k_scheme c = 0 \/ k_scheme c = 1) /\ k_scheme c = h_scheme h /\
  (* the signing time is that of the header belonging to the scheme, which is present *)
  (exists tag, (if k_scheme c =? 1 then h_ast h else h_st h) = TTime (k_time c) tag /\ (h_fmt h = 1 -> tag = 1)) /\
  k_time c <> 0 /\
  (* expiry absent, or strictly later than the signing time *)
  (k_expiry c = 0 \/ k_time c < k_expiry c) /\ k_expiry c = ttime (h_exp h) /\
  (h_fmt h = 1 -> tpresent (h_exp h) = true -> exists t, h_exp h = TTime t 1) /\
  (* required headers marked critical *)
  In L_scheme (h_crit h) /\ (k_expiry c <> 0 -> In L_expiry (h_crit h)) /\ (k_scheme c = 1 -> In L_astime (h_crit h)) /\
  (* JWS: every critical label names a present header (COSE: enforced by the CBOR library at parse time) *)
  (h_fmt h = 0 -> forall v, In v (h_crit h) -> SpecPresent h v \/ In v (ext_keys h)) /\
  (* JWS: the other scheme's time header is absent *)
  (h_fmt h = 0 -> (if k_scheme c =? 1 then h_st h else h_ast h) = TAbsent) /\
  (* chain passes code-signing validation and the declared algorithm is the one dictated by the leaf key *)
  k_alg c = h_alg h /\ k_alg c <> 0 /\ ChainOK (k_alg c) (h_chain h) /\ k_chain c = map c_raw (h_chain h) /\
  (* extended attributes: exactly the non-specification protected headers, critical iff listed *)
  k_attrs c = ext_attrs h /\ k_agent c = h_agent h /\ k_ts c = h_ts h /\
  (* the content type is the one carried in the protected header (COSE: header 3 must be a present text string) *)
  k_cty c = match h_cty h with Some x => x | None => 0 end /\ (h_fmt h = 1 -> h_cty h <> None).

Lemma base_ok_spec payload sg alg time expiry chain :
  base_ok sigfrom selfsig payload sg alg time expiry chain = true ->
  payload <> 0 /\ sg <> 0 /\ alg <> 0 /\ time <> 0 /\ (expiry = 0 \/ time < expiry) /\ ChainOK alg chain.
Proof.
  unfold base_ok. rewrite !andb_true_iff, !negb_true_iff, !Z.eqb_neq.
  intros [[[[[P S] A] T] E] C]. repeat split; auto.
  - apply andb_false_iff in E. destruct E as [E|E].
    + apply negb_false_iff, Z.eqb_eq in E. left; exact E.
    + apply Z.leb_gt in E. right; exact E.
  - unfold chain_ok in C. destruct chain as [|leaf rest]; [discriminate|].
    apply andb_true_iff in C. destruct C as [V K]. apply Z.eqb_eq in K. exists leaf, rest. auto.
Qed.

Lemma tpresent_absent t : tpresent t = false -> t = TAbsent.
Proof. destruct t; cbn; congruence. Qed.

Theorem content_sound decoded h c :
  (h_fmt h = 0 \/ h_fmt h = 1) ->
  content_of sigfrom selfsig decoded h = Some c -> decoded = true /\ ContentOK h c.
Proof.
  intros Hf H. unfold content_of in H.
  destruct decoded; [|discriminate]. cbn [andb] in H.
  destruct (format_ok h) eqn:F; [|discriminate]. cbn [andb] in H.
  destruct (base_ok _ _ _ _ _ _ _ _) eqn:B; [|discriminate]. inversion H; subst c; clear H.
  split; [reflexivity|].
  apply base_ok_spec in B. destruct B as [P [S [A [T [E C]]]]].
  unfold ContentOK, mk_content. cbn [k_payload k_sig k_scheme k_time k_expiry k_alg k_chain k_attrs k_agent k_ts k_cty].
  unfold format_ok in F.
  destruct Hf as [Hf|Hf]; rewrite Hf in F; cbn [Z.eqb] in F.
  - (* JWS *)
    change (0 =? 0) with true in F. cbn iota in F.
    apply andb_true_iff in F. destruct F as [F Fs]. apply andb_true_iff in F. destruct F as [F Fa].
    apply andb_true_iff in F. destruct F as [Fp Fc].
    assert (Hpair : (h_scheme h = 0 /\ h_ast h = TAbsent) \/ (h_scheme h = 1 /\ h_st h = TAbsent /\ tpresent (h_ast h) = true)).
    { unfold jws_pairing_ok in Fp. destruct (h_scheme h =? 0) eqn:E0.
      - left. split; [apply Z.eqb_eq; exact E0|]. apply tpresent_absent, negb_true_iff. exact Fp.
      - destruct (h_scheme h =? 1) eqn:E1; [|discriminate]. right. apply andb_true_iff in Fp. destruct Fp as [Fp1 Fp2].
        split; [apply Z.eqb_eq; exact E1|]. split; [apply tpresent_absent, negb_true_iff; exact Fp1|exact Fp2]. }
    clear Fp. unfold jws_crit_ok in Fc.
    destruct (h_crit h) as [|c0 cr] eqn:Ecrit; [discriminate|]. rewrite <- Ecrit in *.
    destruct (jws_crit_loop (jws_must h) (h_ext h) (h_crit h)) as [[|x y]|] eqn:L; try discriminate.
    pose proof (crit_loop_sound _ _ _ L) as [Hmust _].
    assert (Hent : forall v, In v (h_crit h) -> In v (jws_must h) \/ existsb (fun kv => label_eqb (fst kv) v) (h_ext h) = true).
    { apply (crit_loop_entries (h_ext h) (h_crit h) (jws_must h) (jws_must h)); [auto|congruence]. }
    unfold signing_time in *.
    assert (Hsch : h_scheme h = 0 \/ h_scheme h = 1) by (destruct Hpair as [[H0 _]|[H1 _]]; auto).
    split; [exact P|]. split; [exact S|]. split; [reflexivity|]. split; [reflexivity|]. split; [exact Hsch|]. split; [reflexivity|].
    assert (Htime : exists tag, (if h_scheme h =? 1 then h_ast h else h_st h) = TTime (if h_scheme h =? 1 then ttime (h_ast h) else ttime (h_st h)) tag).
    { destruct (h_scheme h =? 1); [destruct (h_ast h) as [|t tag|]|destruct (h_st h) as [|t tag|]]; cbn in T; try (exfalso; apply T; reflexivity); exists tag; reflexivity. }
    split. { destruct Htime as [tag Ht]. exists tag. split; [exact Ht|intros; congruence]. }
    split; [exact T|].
    split; [exact E|]. split; [reflexivity|]. split; [intros; congruence|].
    split. { apply Hmust. unfold jws_must. left. reflexivity. }
    split. { intros Hx. apply Hmust. unfold jws_must. apply in_or_app. right. apply in_or_app. left.
             destruct (h_exp h) as [|t tag|]; cbn [ttime] in Hx; try congruence.
             destruct (t =? 0) eqn:Et; [apply Z.eqb_eq in Et; congruence|left; reflexivity]. }
    split. { intros H1. apply Hmust. unfold jws_must. apply in_or_app. right. apply in_or_app. right. rewrite H1. left. reflexivity. }
    split. { intros _ v Hv. destruct (Hent v Hv) as [Hm|He]; [left|right; apply ext_has; exact He].
             unfold jws_must in Hm. apply in_app_or in Hm. destruct Hm as [[<-|[]]|Hm].
             - left. split; [reflexivity|]. destruct Hsch; auto.
             - apply in_app_or in Hm. destruct Hm as [Hm|Hm].
               + right. left. destruct (h_exp h) as [|t tag|]; try contradiction. destruct (t =? 0); [contradiction|].
                 destruct Hm as [<-|[]]. split; reflexivity.
               + right. right. left. destruct (h_scheme h =? 1) eqn:E1; [|contradiction]. destruct Hm as [<-|[]].
                 split; [reflexivity|]. apply Z.eqb_eq in E1. destruct Hpair as [[H0 _]|[_ [_ Hp]]]; [lia|exact Hp]. }
    split. { intros _. destruct Hpair as [[H0 Ha]|[H1 [Hst _]]].
             - rewrite H0. exact Ha.
             - rewrite H1. exact Hst. }
    split; [reflexivity|]. split; [exact A|]. split; [exact C|]. repeat split; try reflexivity. intros X; congruence.
  - (* COSE *)
    change (1 =? 0) with false in F. cbn iota in F.
    rewrite !andb_true_iff in F. destruct F as [[[[[[[Fcty Fsig] Fcrit] Falg] Fsch] Ftime] Fexp] Fchain].
    assert (Hsch : h_scheme h = 0 \/ h_scheme h = 1).
    { apply orb_true_iff in Fsch. destruct Fsch as [X|X]; apply Z.eqb_eq in X; auto. }
    unfold cose_crit_ok in Fcrit. apply andb_true_iff in Fcrit. destruct Fcrit as [Fcrit _].
    apply andb_true_iff in Fcrit. destruct Fcrit as [_ Fmust].
    assert (Hmust : forall m, In m (cose_must h) -> In m (h_crit h)).
    { intros m Hm. apply mem_label_in. rewrite forallb_forall in Fmust. apply Fmust. exact Hm. }
    unfold signing_time in *.
    split; [exact P|]. split; [exact S|]. split; [reflexivity|]. split; [reflexivity|]. split; [exact Hsch|]. split; [reflexivity|].
    split.
    { destruct (h_scheme h =? 1); [destruct (h_ast h) as [|t tag|]|destruct (h_st h) as [|t tag|]]; cbn in Ftime; try discriminate;
      exists tag; (split; [reflexivity|intros _; apply Z.eqb_eq; exact Ftime]). }
    split; [exact T|].
    split; [exact E|]. split; [reflexivity|].
    split.
    { intros _ Hp. rewrite Hp in Fexp. cbn [negb orb] in Fexp. destruct (h_exp h) as [|t tag|]; cbn in Fexp; try discriminate.
      apply Z.eqb_eq in Fexp. subst tag. exists t. reflexivity. }
    split. { apply Hmust. unfold cose_must. left. reflexivity. }
    split. { intros Hx. apply Hmust. unfold cose_must. apply in_or_app. right. apply in_or_app. right.
             destruct (h_exp h) as [|t tag|]; cbn [ttime tpresent] in *; try congruence. left. reflexivity. }
    split. { intros H1. apply Hmust. unfold cose_must. apply in_or_app. right. apply in_or_app. left. rewrite H1. left. reflexivity. }
    split; [intros; congruence|]. split; [intros; congruence|].
    split; [reflexivity|]. split; [exact A|]. split; [exact C|]. repeat split; try reflexivity.
    intros _ X. rewrite X in Fcty. discriminate.
Qed.

(* a successful verification implies that content extraction succeeds with the identical result *)
Theorem verify_implies_content decoded lv h c :
  verify_of sigfrom selfsig decoded lv h = Some c -> content_of sigfrom selfsig decoded h = Some c /\ lv = true.
Proof.
  unfold verify_of. destruct decoded; cbn [negb]; [|discriminate].
  destruct (h_chain h) as [|leaf rest]; [discriminate|].
  destruct ((h_fmt h =? 1) && negb (key_ok leaf)); [discriminate|].
  destruct lv; [auto|discriminate].
Qed.

(* ============ C07: completeness ============ *)
(* an envelope view that meets the envelope specification *)
Definition Conformant (h : hview) : Prop :=
  (h_fmt h = 0 \/ h_fmt h = 1) /\
  h_payload h <> 0 /\ h_sig h <> 0 /\ h_cty h <> None /\
  (h_scheme h = 0 \/ h_scheme h = 1) /\
  (exists t, (if h_scheme h =? 1 then h_ast h else h_st h) = TTime t 1 /\ t <> 0 /\
             (h_exp h = TAbsent \/ exists e, h_exp h = TTime e 1 /\ e <> 0 /\ t < e)) /\
  (h_fmt h = 0 -> (if h_scheme h =? 1 then h_st h else h_ast h) = TAbsent) /\
  (* crit: present, without repetition, lists every required label, and otherwise only extended attributes *)
  h_crit_present h = true /\ NoDup (h_crit h) /\
  In L_scheme (h_crit h) /\ (h_scheme h = 1 -> In L_astime (h_crit h)) /\ (tpresent (h_exp h) = true -> In L_expiry (h_crit h)) /\
  (forall v, In v (h_crit h) ->
     v = L_scheme \/ (v = L_astime /\ h_scheme h = 1) \/ (v = L_expiry /\ tpresent (h_exp h) = true) \/ In v (ext_keys h)) /\
  h_alg h <> 0 /\ ChainOK (h_alg h) (h_chain h).

Theorem content_complete h : Conformant h ->
  content_of sigfrom selfsig true h = Some (mk_content h).
Proof.
  intros HC. unfold Conformant in HC.
  destruct HC as (Hf & P & S & Ct & Hs & (t & Ht & Tn & Hexp) & Hother & Cp & Nd & Cs & Ca & Ce & Call & A & (leaf & rest & Ec & V & K)).
  unfold content_of. cbn [andb].
  assert (B : base_ok sigfrom selfsig (h_payload h) (h_sig h) (h_alg h) (signing_time h) (ttime (h_exp h)) (h_chain h) = true).
  { assert (St : signing_time h = t) by (unfold signing_time; destruct (h_scheme h =? 1); rewrite Ht; reflexivity).
    unfold base_ok. rewrite St.
    rewrite !andb_true_iff, !negb_true_iff, !Z.eqb_neq. repeat split; auto.
    - apply andb_false_iff. destruct Hexp as [->|[e [-> [_ He]]]]; cbn [ttime]; [left; reflexivity|right; apply Z.leb_gt; exact He].
    - unfold chain_ok. rewrite Ec. rewrite <- Ec, V. rewrite K. rewrite Z.eqb_refl. reflexivity. }
  rewrite B.
  assert (F : format_ok h = true).
  { unfold format_ok. destruct Hf as [Hf|Hf].
    - assert (Ef : (h_fmt h =? 0) = true) by (apply Z.eqb_eq; exact Hf). rewrite Ef.
      rewrite !andb_true_iff, !negb_true_iff, !Z.eqb_neq. repeat split; auto.
      + unfold jws_pairing_ok. specialize (Hother Hf).
        destruct Hs as [Hs|Hs].
        * assert (E0 : (h_scheme h =? 0) = true) by (apply Z.eqb_eq; exact Hs).
          assert (E1 : (h_scheme h =? 1) = false) by (apply Z.eqb_neq; lia).
          rewrite E1 in Hother. rewrite E0, Hother. reflexivity.
        * assert (E0 : (h_scheme h =? 0) = false) by (apply Z.eqb_neq; lia).
          assert (E1 : (h_scheme h =? 1) = true) by (apply Z.eqb_eq; exact Hs).
          rewrite E1 in Hother, Ht. rewrite E0, E1, Hother, Ht. reflexivity.
      + unfold jws_crit_ok. destruct (h_crit h) as [|c0 cr] eqn:Ecrit; [contradiction|]. rewrite <- Ecrit in *.
        assert (Hmust_sub : forall m, In m (jws_must h) -> In m (h_crit h)).
        { intros m Hm. unfold jws_must in Hm. apply in_app_or in Hm. destruct Hm as [[<-|[]]|Hm]; [exact Cs|].
          apply in_app_or in Hm. destruct Hm as [Hm|Hm].
          - destruct (h_exp h) as [|x tag|] eqn:Ex; try contradiction. destruct (x =? 0); [contradiction|]. destruct Hm as [<-|[]]. apply Ce. reflexivity.
          - destruct (h_scheme h =? 1) eqn:E1; [|contradiction]. destruct Hm as [<-|[]]. apply Ca. apply Z.eqb_eq. exact E1. }
        rewrite crit_loop_char; [| exact Nd |].
        * assert (Em : filter (fun m => negb (mem_label m (h_crit h))) (jws_must h) = []).
          { revert Hmust_sub. generalize (jws_must h). intros l Hmust_sub.
            induction l as [|m tl IHt]; [reflexivity|]. cbn [filter].
            assert (Hm : mem_label m (h_crit h) = true) by (apply mem_label_in; apply Hmust_sub; left; reflexivity).
            rewrite Hm. cbn [negb]. apply IHt. intros x Hx. apply Hmust_sub. right. exact Hx. }
          rewrite Em. reflexivity.
        * intros v Hv. destruct (Call v Hv) as [->|[[-> H1]|[[-> Hp]|He]]].
          -- left. unfold jws_must. left. reflexivity.
          -- left. unfold jws_must. apply in_or_app. right. apply in_or_app. right. rewrite H1. left. reflexivity.
          -- destruct (h_exp h) as [|x tag|] eqn:Ex; cbn in Hp; try discriminate.
             ++ destruct (x =? 0) eqn:Ez.
                ** (* a zero-time expiry header listed in crit: not required, and not an extended attribute *)
                   destruct Hexp as [Hx|[e [Hx [Hne He]]]]; [discriminate|]. inversion Hx; subst. apply Z.eqb_eq in Ez. lia.
                ** left. unfold jws_must. apply in_or_app. right. apply in_or_app. left. rewrite Ex, Ez. left. reflexivity.
             ++ destruct Hexp as [Hx|[e [Hx He]]]; discriminate.
          -- right. apply ext_has. exact He.
    - assert (Ef : (h_fmt h =? 0) = false) by (apply Z.eqb_neq; lia). rewrite Ef.
      rewrite !andb_true_iff. repeat split.
      + destruct (h_cty h); [reflexivity|contradiction].
      + apply negb_true_iff, Z.eqb_neq. exact S.
      + unfold cose_crit_ok. rewrite !andb_true_iff. split; [split|exact Cp].
        * apply negb_true_iff, Z.eqb_neq. destruct Hs; lia.
        * apply forallb_forall. intros m Hm. apply mem_label_in. unfold cose_must in Hm.
          apply in_app_or in Hm. destruct Hm as [[<-|[]]|Hm]; [exact Cs|].
          apply in_app_or in Hm. destruct Hm as [Hm|Hm].
          -- destruct (h_scheme h =? 1) eqn:E1; [|contradiction]. destruct Hm as [<-|[]]. apply Ca. apply Z.eqb_eq. exact E1.
          -- destruct (tpresent (h_exp h)) eqn:Ep; [|contradiction]. destruct Hm as [<-|[]]. apply Ce. reflexivity.
      + apply negb_true_iff, Z.eqb_neq. exact A.
      + apply orb_true_iff. destruct Hs as [Hs|Hs]; rewrite Hs; auto.
      + rewrite Ht. reflexivity.
      + destruct Hexp as [->|[e [-> _]]]; reflexivity.
      + rewrite Ec. reflexivity. }
  rewrite F. reflexivity.
Qed.

Theorem verify_complete h : Conformant h ->
  verify_of sigfrom selfsig true true h = Some (mk_content h).
Proof.
  intros HC. pose proof (content_complete h HC) as Hc.
  destruct HC as (_ & _ & _ & _ & _ & _ & _ & _ & _ & _ & _ & _ & _ & A & (leaf & rest & Ec & V & K)).
  unfold verify_of. cbn [negb]. rewrite Ec.
  assert (Kk : key_ok leaf = true).
  { unfold key_ok. unfold key_alg in K. destruct (extract_keyspec (c_pk leaf)); [reflexivity|]. cbn in K. congruence. }
  rewrite Kk. rewrite andb_false_r. exact Hc.
Qed.

(* ============ C13 ============ *)
Theorem attrs_exact decoded h c : content_of sigfrom selfsig decoded h = Some c ->
  k_attrs c = map (fun kv => Attr (fst kv) (mem_label (fst kv) (h_crit h)) (snd kv)) (h_ext h) /\
  map a_key (k_attrs c) = ext_keys h /\
  (forall a, In a (k_attrs c) -> (a_critical a = true <-> In (a_key a) (h_crit h))).
Proof.
  intros H. unfold content_of in H. destruct (_ && _ && _); [|discriminate]. inversion H; subst c; clear H.
  cbn [k_attrs mk_content]. unfold ext_attrs, ext_keys. split; [reflexivity|]. split.
  - rewrite map_map. reflexivity.
  - intros a Ha. apply in_map_iff in Ha. destruct Ha as [kv [<- _]]. cbn. apply mem_label_in.
Qed.

(* JWS: a critical label that names no present header makes the envelope invalid *)
Theorem phantom_crit_invalid decoded h v : h_fmt h = 0 ->
  In v (h_crit h) -> ~ SpecPresent h v -> ~ In v (ext_keys h) ->
  content_of sigfrom selfsig decoded h = None.
Proof.
  intros Hf Hv Hns Hne. destruct (content_of sigfrom selfsig decoded h) as [c|] eqn:E; [|reflexivity].
  apply content_sound in E; [|left; exact Hf]. destruct E as [_ HC]. unfold ContentOK in HC.
  decompose [and] HC. match goal with H : h_fmt h = 0 -> forall v, In v (h_crit h) -> _ |- _ => destruct (H Hf v Hv) end; contradiction.
Qed.
End S.

(* lookup helper: SignerInfo.ExtendedAttribute *)
Fixpoint lookup_attr (k : label) (l : list attr) : option attr :=
  match l with [] => None | a :: r => if label_eqb (a_key a) k then Some a else lookup_attr k r end.

Theorem lookup_spec k l :
  match lookup_attr k l with
  | Some a => In a l /\ a_key a = k
  | None => forall a, In a l -> a_key a <> k
  end.
Proof.
  induction l as [|a r IH]; cbn [lookup_attr]; [intros a []|].
  destruct (label_eqb (a_key a) k) eqn:E.
  - apply label_eqb_eq in E. split; [left; reflexivity|exact E].
  - destruct (lookup_attr k r) as [b|].
    + destruct IH as [Hin Hk]. split; [right; exact Hin|exact Hk].
    + intros b [<-|Hb]; [apply label_eqb_neq; exact E|apply IH; exact Hb].
Qed.

(* ============ C02 / C01 on the envelope side ============ *)
Section Diag.
Variable sigfrom : cert -> cert -> bool.
Variable selfsig : cert -> bool.

(* a successful content extraction (hence verification) implies that the declared algorithm is one
   of the six and is the one dictated by the key of the first certificate of the chain *)
Theorem declared_alg_is_key_alg decoded h c :
  (h_fmt h = 0 \/ h_fmt h = 1) ->
  content_of sigfrom selfsig decoded h = Some c ->
  exists leaf rest a, h_chain h = leaf :: rest /\ key_alg (c_pk leaf) = Some a /\ k_alg c = alg_Z (Some a) /\ h_alg h = alg_Z (Some a).
Proof.
  intros Hf H. apply content_sound in H; [|exact Hf]. destruct H as [_ HC]. unfold ContentOK in HC. decompose [and] HC. clear HC.
  match goal with H : ChainOK _ _ _ _ |- _ => destruct H as [leaf [rest [Ec [V K]]]] end.
  match goal with H : k_alg c = h_alg h |- _ => rename H into Ealg end.
  match goal with H : k_alg c <> 0 |- _ => rename H into Hnz end.
  exists leaf, rest. destruct (key_alg (c_pk leaf)) as [a|] eqn:Ka.
  - exists a. split; [exact Ec|]. split; [reflexivity|]. split; [symmetry; exact K|]. etransitivity; [symmetry; exact Ealg|symmetry; exact K].
  - cbn in K. congruence.
Qed.

(* verification succeeds only if the signature library accepted the signature over the protected
   header and payload as carried, under the key of the first certificate (lib_verify), and the
   content returned is the decoding of that same view *)
Theorem verify_sound decoded lv h c :
  (h_fmt h = 0 \/ h_fmt h = 1) ->
  verify_of sigfrom selfsig decoded lv h = Some c ->
  lv = true /\ decoded = true /\ c = mk_content h /\ ContentOK sigfrom selfsig h c.
Proof.
  intros Hf H. apply verify_implies_content in H. destruct H as [H ->]. split; [reflexivity|].
  pose proof (content_sound sigfrom selfsig decoded h c Hf H) as [D OK]. split; [exact D|]. split; [|exact OK].
  unfold content_of in H. destruct (_ && _ && _); [|discriminate]. inversion H. reflexivity.
Qed.

(* non-interference: views that agree on everything signed (protected header, payload) and on the
   chain yield the same signed content, whatever the unsigned parts are *)
Definition with_unsigned (h : hview) (agent ts : Z) : hview :=
  HV (h_fmt h) (h_alg h) (h_alg_lib h) (h_cty h) (h_scheme h) (h_st h) (h_ast h) (h_exp h) (h_crit_present h) (h_crit h)
     (h_ext h) (h_payload h) (h_sig h) (h_chain h) agent ts.

Lemma content_with_unsigned decoded h agent ts :
  content_of sigfrom selfsig decoded (with_unsigned h agent ts) =
  match content_of sigfrom selfsig decoded h with
  | Some c => Some (Content (k_payload c) (k_cty c) (k_scheme c) (k_time c) (k_expiry c) (k_attrs c) (k_alg c) (k_sig c) (k_chain c) agent ts)
  | None => None
  end.
Proof.
  unfold content_of.
  change (format_ok (with_unsigned h agent ts)) with (format_ok h).
  change (base_ok sigfrom selfsig (h_payload (with_unsigned h agent ts)) (h_sig (with_unsigned h agent ts)) (h_alg (with_unsigned h agent ts))
            (signing_time (with_unsigned h agent ts)) (ttime (h_exp (with_unsigned h agent ts))) (h_chain (with_unsigned h agent ts)))
    with (base_ok sigfrom selfsig (h_payload h) (h_sig h) (h_alg h) (signing_time h) (ttime (h_exp h)) (h_chain h)).
  destruct (decoded && format_ok h && base_ok _ _ _ _ _ _ _ _); reflexivity.
Qed.

Theorem unsigned_parts_irrelevant decoded lv h agent ts :
  verify_of sigfrom selfsig decoded lv (with_unsigned h agent ts) =
  match verify_of sigfrom selfsig decoded lv h with
  | Some c => Some (Content (k_payload c) (k_cty c) (k_scheme c) (k_time c) (k_expiry c) (k_attrs c) (k_alg c) (k_sig c) (k_chain c) agent ts)
  | None => None
  end.
Proof.
  unfold verify_of. change (h_chain (with_unsigned h agent ts)) with (h_chain h). change (h_fmt (with_unsigned h agent ts)) with (h_fmt h).
  destruct decoded; cbn [negb]; [|reflexivity].
  destruct (h_chain h) as [|leaf rest] eqn:Ec; [reflexivity|].
  destruct ((h_fmt h =? 1) && negb (key_ok leaf)); [reflexivity|].
  destruct lv; [|reflexivity]. apply content_with_unsigned.
Qed.
Theorem no_signature_no_content decoded h : verify_of sigfrom selfsig decoded false h = None.
Proof.
  destruct (verify_of sigfrom selfsig decoded false h) eqn:E; [|reflexivity].
  apply verify_implies_content in E. destruct E; discriminate.
Qed.

Theorem leaf_key_algorithm decoded lv h c :
  (h_fmt h = 0 \/ h_fmt h = 1) ->
  verify_of sigfrom selfsig decoded lv h = Some c ->
  exists leaf rest a, h_chain h = leaf :: rest /\ key_alg (c_pk leaf) = Some a /\ k_alg c = alg_Z (Some a).
Proof.
  intros Hf H. apply verify_implies_content in H. destruct H as [H _].
  destruct (declared_alg_is_key_alg decoded h c Hf H) as [leaf [rest [a [E [K [A _]]]]]]. exists leaf, rest, a. auto.
Qed.
End Diag.
