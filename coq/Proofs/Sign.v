(* C16 (invalid sign requests never produce an envelope) and C08 (sign then verify returns what was
   asked to be signed) on the model of Sign. *)
From NCG Require Import Model.Sign Proofs.Header.
From Coq Require Import Lia.

Lemma nodup_labels_NoDup l : nodup_labels l = true <-> NoDup l.
Proof.
  induction l as [|x r IH]; cbn [nodup_labels]; [split; [constructor|reflexivity]|].
  rewrite andb_true_iff, negb_true_iff, IH. split.
  - intros [H1 H2]. constructor; [|exact H2]. intros Hin. apply mem_label_in in Hin. congruence.
  - intros H. inversion H; subst. split; [|assumption].
    destruct (mem_label x r) eqn:E; [|reflexivity]. apply mem_label_in in E. contradiction.
Qed.

Lemma all_some_length {A} : forall (l : list (option A)) r, all_some l = Some r -> length r = length l.
Proof.
  induction l as [|x t IH]; intros r H; cbn in H; [inversion H; reflexivity|].
  destruct x; [|discriminate]. destruct (all_some t) eqn:E; [|discriminate]. inversion H; subst. cbn. f_equal. apply IH. reflexivity.
Qed.

Lemma map_fst_combine {A B} : forall (l : list A) (m : list B), length l = length m -> map fst (combine l m) = l.
Proof.
  induction l as [|a t IH]; intros m H; [reflexivity|]. destruct m as [|b u]; [discriminate|]. cbn. f_equal. apply IH. cbn in H. lia.
Qed.

(* criticality survives: with distinct labels, a label is among the labels of the attributes flagged
   critical exactly when its own attribute is flagged *)
Lemma crit_flag_preserved : forall (ps : list (label * rattr)),
  NoDup (map fst ps) ->
  forall l a, In (l, a) ps -> mem_label l (map fst (filter (fun p => ra_crit (snd p)) ps)) = ra_crit a.
Proof.
  induction ps as [|p0 r IH]; intros Hnd l a Hin; [contradiction|].
  cbn [map] in Hnd. inversion Hnd as [|? ? Hnot Hnd']; subst.
  assert (Hsub : forall x, In x (map fst (filter (fun p => ra_crit (snd p)) r)) -> In x (map fst r)).
  { intros x Hx. apply in_map_iff in Hx. destruct Hx as [p [<- Hp]]. apply filter_In in Hp. apply in_map. tauto. }
  destruct Hin as [->|Hin].
  - cbn [filter snd fst]. destruct (ra_crit a) eqn:C; cbn [map fst].
    + rewrite mem_label_cons, label_eqb_refl. reflexivity.
    + destruct (mem_label l (map fst (filter _ r))) eqn:M; [|reflexivity]. apply mem_label_in in M. exfalso. apply Hnot. apply Hsub. exact M.
  - assert (Hne : l <> fst p0). { intros ->. apply Hnot. change (fst p0) with (fst (fst p0, a)). apply (in_map fst) in Hin. exact Hin. }
    cbn [filter]. destruct (ra_crit (snd p0)); cbn [map].
    + rewrite mem_label_cons. assert (E : label_eqb l (fst p0) = false) by (apply label_eqb_neq; exact Hne). rewrite E. cbn [orb]. apply IH; assumption.
    + apply IH; assumption.
Qed.

Lemma mem_label_app l a b : mem_label l (a ++ b) = mem_label l a || mem_label l b.
Proof. unfold mem_label. apply existsb_app. Qed.

Section S.
Variable sigfrom : cert -> cert -> bool.
Variable selfsig : cert -> bool.

(* ============ C16 ============ *)
(* the attribute clause of the property: keys distinct, representable in the format, not colliding
   with a specification-defined header *)
Definition AttrsOK (fmt : Z) (attrs : list rattr) : Prop :=
  exists ls, all_some (map (fun a => norm_key (ra_key a)) attrs) = Some ls /\ NoDup ls /\
    (forall l, In l ls -> (if fmt =? 0 then is_spec_label l else match l with LText i => (4 <=? i) && (i <=? 7) | LInt z => (1 <=? z) && (z <=? 3) end) = false) /\
    (fmt = 0 -> forall l, In l ls -> exists i, l = LText i) /\
    (forall a, In a attrs -> ra_encodable a = true).

Definition ValidReq (q : sreq) : Prop :=
  let st := trunc_s (q_time q) in let ex := trunc_s (q_expiry q) in
  q_payload q <> 0 /\ (q_fmt q = 0 -> q_pkind q = 1) /\ (q_fmt q <> 0 -> q_cty_ok q = true) /\
  st <> 0 /\ (ex = 0 \/ st < ex) /\ (q_scheme q = 0 \/ q_scheme q = 1) /\
  (exists s k a leaf rest,
     q_signer q = Some s /\ s_ks s = Some k /\ sig_alg k = Some a /\ s_chain s = Some (leaf :: rest) /\
     validate_cs sigfrom selfsig (Some st) (leaf :: rest) = true /\ key_alg (c_pk leaf) = Some a /\
     (s_local s = true -> s_key_usable s = true)) /\
  AttrsOK (q_fmt q) (q_attrs q).

Lemma attrs_ok_spec fmt attrs : attrs_ok fmt attrs = true -> AttrsOK fmt attrs.
Proof.
  unfold attrs_ok, AttrsOK. rewrite andb_true_iff. intros [He H].
  destruct (all_some _) as [ls|] eqn:E; [|discriminate]. exists ls. split; [reflexivity|].
  rewrite !andb_true_iff in H. destruct H as [[Ht Hn] Hs]. split; [apply nodup_labels_NoDup; exact Hn|].
  split.
  - intros l Hl. apply negb_true_iff in Hs.
    set (f := fun l0 : label => if fmt =? 0 then is_spec_label l0 else match l0 with LText i => (4 <=? i) && (i <=? 7) | LInt z => (1 <=? z) && (z <=? 3) end) in *.
    change (f l = false). destruct (f l) eqn:X; [|reflexivity].
    exfalso. assert (existsb f ls = true) by (apply existsb_exists; exists l; split; [exact Hl|exact X]). congruence.
  - split.
    + intros F l Hl. rewrite F in Ht. change (0 =? 0) with true in Ht. cbn iota in Ht. rewrite forallb_forall in Ht.
      specialize (Ht l Hl). destruct l as [i|z]; [exists i; reflexivity|discriminate].
    + rewrite forallb_forall in He. exact He.
Qed.

Theorem sign_gate q h : sign sigfrom selfsig q = SOk h ->
  ValidReq q /\
  exists s k a chain, q_signer q = Some s /\ s_ks s = Some k /\ sig_alg k = Some a /\ s_chain s = Some chain /\
                      h = built_view q a chain /\ content_of sigfrom selfsig true h = Some (mk_content h).
Proof.
  unfold sign. destruct (request_ok q) eqn:R; cbn [negb]; [|discriminate].
  destruct (q_signer q) as [s|] eqn:Es; [|discriminate].
  destruct (s_ks s) as [k|] eqn:Ek; [|discriminate].
  destruct (format_sign_ok q s k) eqn:F; cbn [negb]; [|discriminate].
  destruct (sig_alg k) as [a|] eqn:Ea; [|discriminate].
  destruct (s_chain s) as [chain|] eqn:Ec; [|discriminate].
  destruct (content_of sigfrom selfsig true (built_view q a chain)) as [c|] eqn:C; [|discriminate].
  destruct chain as [|leaf rest]; [discriminate|].
  destruct (validate_cs _ _ _ _ && _) eqn:V; [|discriminate]. intros H. inversion H; subst h; clear H.
  apply andb_true_iff in V. destruct V as [V K]. apply Z.eqb_eq in K.
  unfold request_ok in R. rewrite Es, Ek in R. rewrite !andb_true_iff, !negb_true_iff in R.
  destruct R as [[[[P T] X] _] S].
  unfold format_sign_ok in F. rewrite Ea, Ec in F. rewrite !andb_true_iff in F. destruct F as [[[[[_ Fs] Fa] Fp] Fl] _].
  split.
  - unfold ValidReq. cbn zeta.
    split; [apply Z.eqb_neq; exact P|].
    split. { intros F0. rewrite F0 in Fp. change (0 =? 0) with true in Fp. cbn iota in Fp. apply Z.eqb_eq. exact Fp. }
    split. { intros F0. assert (E : (q_fmt q =? 0) = false) by (apply Z.eqb_neq; exact F0). rewrite E in Fp. exact Fp. }
    split; [apply Z.eqb_neq; exact T|].
    split. { apply andb_false_iff in X. destruct X as [X|X]; [left; apply negb_false_iff, Z.eqb_eq in X; exact X|right; apply Z.leb_gt; exact X]. }
    split. { apply orb_true_iff in Fs. destruct Fs as [Y|Y]; apply Z.eqb_eq in Y; auto. }
    split.
    + exists s, k, a, leaf, rest. repeat split; auto.
      * destruct (key_alg (c_pk leaf)) as [b|] eqn:Kb; [|destruct a; discriminate].
        f_equal. destruct a, b; cbn in K; try discriminate; reflexivity.
      * intros L. rewrite L in Fl. exact Fl.
    + apply attrs_ok_spec. exact Fa.
  - exists s, k, a, (leaf :: rest). repeat split; auto.
    unfold content_of in C |- *. destruct (_ && _ && _); [reflexivity|discriminate].
Qed.

Lemma sign_ok_gates q h : sign sigfrom selfsig q = SOk h ->
  request_ok q = true /\ exists s k, q_signer q = Some s /\ s_ks s = Some k /\ format_sign_ok q s k = true.
Proof.
  unfold sign. destruct (request_ok q) eqn:R; cbn [negb]; [|discriminate].
  destruct (q_signer q) as [s|] eqn:Es; [|discriminate].
  destruct (s_ks s) as [k|] eqn:Ek; [|discriminate].
  destruct (format_sign_ok q s k) eqn:F; cbn [negb]; [|discriminate].
  intros _. split; [reflexivity|]. exists s, k. auto.
Qed.

Theorem sign_never_panics q : sign sigfrom selfsig q <> SPanic.
Proof.
  unfold sign. destruct (negb (request_ok q)); [discriminate|].
  destruct (q_signer q) as [s|]; [|discriminate]. destruct (s_ks s) as [k|]; [|discriminate].
  destruct (negb (format_sign_ok q s k)); [discriminate|].
  destruct (sig_alg k); [|discriminate]. destruct (s_chain s) as [chain|]; [|discriminate].
  destruct (content_of _ _ _ _); [|discriminate]. destruct chain; [discriminate|].
  destruct (_ && _); discriminate.
Qed.

(* each single defect of the property's list makes Sign fail *)
Theorem sign_rejects q :
  (q_payload q = 0 \/ (q_fmt q = 0 /\ q_pkind q <> 1) \/ trunc_s (q_time q) = 0 \/
   (trunc_s (q_expiry q) <> 0 /\ trunc_s (q_expiry q) <= trunc_s (q_time q)) \/
   (q_scheme q <> 0 /\ q_scheme q <> 1) \/ q_signer q = None \/
   (exists s, q_signer q = Some s /\ (s_ks s = None \/ s_chain s = None \/ s_chain s = Some [] \/
                                      (exists k, s_ks s = Some k /\ sig_alg k = None))) \/
   ~ AttrsOK (q_fmt q) (q_attrs q)) ->
  sign sigfrom selfsig q = SErr.
Proof.
  intros H. destruct (sign sigfrom selfsig q) as [h| |] eqn:E; [|reflexivity|exfalso; exact (sign_never_panics q E)].
  exfalso. apply sign_gate in E. destruct E as [V [s [k [a [chain [Es [Ek [Ea [Ec _]]]]]]]]].
  unfold ValidReq in V. cbn zeta in V.
  destruct V as [P [Pk [_ [T [X [S [[s' [k' [a' [leaf [rest [Es' [Ek' [Ea' [Ec' _]]]]]]]]] A]]]]]]].
  rewrite Es in Es'. inversion Es'; subst s'.
  destruct H as [H|[[F H]|[H|[[H1 H2]|[[H1 H2]|[H|[[s0 [E0 H]]|H]]]]]]].
  - congruence.
  - apply H. apply Pk. exact F.
  - congruence.
  - lia.
  - lia.
  - congruence.
  - rewrite Es in E0. inversion E0; subst s0. destruct H as [H|[H|[H|[k0 [H1 H2]]]]]; congruence.
  - contradiction.
Qed.

(* ============ C08 ============ *)
(* the content a valid request must come back as *)
Definition expected_content (q : sreq) (a : alg) (chain : list cert) : content :=
  let labels := match all_some (map (fun x => norm_key (ra_key x)) (q_attrs q)) with Some ls => ls | None => [] end in
  Content (q_payload q) (q_cty q) (q_scheme q) (trunc_s (q_time q)) (trunc_s (q_expiry q))
          (map (fun p => Attr (fst p) (ra_crit (snd p)) (ra_val (snd p))) (combine labels (q_attrs q)))
          (alg_Z (Some a)) (q_sig q) (map c_raw chain) (q_agent q) 0.

Lemma built_content q a chain :
  AttrsOK (q_fmt q) (q_attrs q) -> (q_scheme q = 0 \/ q_scheme q = 1) ->
  mk_content (built_view q a chain) = expected_content q a chain.
Proof.
  intros [ls [El [Hnd [Hspec _]]]] Hs.
  unfold mk_content, expected_content, built_view. rewrite El. cbn [h_payload h_cty h_scheme h_exp h_alg h_sig h_chain h_agent h_ts].
  f_equal.
  - unfold signing_time. cbn [h_scheme h_ast h_st]. destruct (q_scheme q =? 1); reflexivity.
  - cbn. destruct (trunc_s (q_expiry q) =? 0) eqn:E; cbn; [apply Z.eqb_eq in E; congruence|reflexivity].
  - unfold ext_attrs. cbn [h_ext h_crit].
    assert (Hlen : length ls = length (q_attrs q)).
    { apply all_some_length in El. rewrite map_length in El. exact El. }
    set (ps := combine ls (q_attrs q)).
    assert (Hfst : map fst ps = ls) by (apply map_fst_combine; exact Hlen).
    (* rewrite the view's ext list as a map over ps *)
    assert (Hext : combine ls (map ra_val (q_attrs q)) = map (fun p => (fst p, ra_val (snd p))) ps).
    { subst ps. clear - Hlen. revert Hlen. generalize (q_attrs q). induction ls as [|l t IH]; intros [|a r] H; try reflexivity; try discriminate.
      cbn. f_equal. apply IH. cbn in H. lia. }
    rewrite Hext, map_map. apply map_ext_in. intros [l x] Hin. cbn [fst snd]. f_equal.
    assert (Hl : In l ls) by (rewrite <- Hfst; apply (in_map fst) in Hin; exact Hin).
    specialize (Hspec l Hl).
    rewrite !mem_label_app.
    assert (N1 : mem_label l [L_scheme] = false).
    { unfold mem_label. cbn. rewrite orb_false_r. apply label_eqb_neq. intros ->. destruct (q_fmt q =? 0); cbn in Hspec; discriminate. }
    assert (N2 : mem_label l (if q_scheme q =? 1 then [L_astime] else []) = false).
    { destruct (q_scheme q =? 1); [|reflexivity]. unfold mem_label. cbn. rewrite orb_false_r. apply label_eqb_neq. intros ->. destruct (q_fmt q =? 0); cbn in Hspec; discriminate. }
    assert (N3 : mem_label l (if trunc_s (q_expiry q) =? 0 then [] else [L_expiry]) = false).
    { destruct (trunc_s (q_expiry q) =? 0); [reflexivity|]. unfold mem_label. cbn. rewrite orb_false_r. apply label_eqb_neq. intros ->. destruct (q_fmt q =? 0); cbn in Hspec; discriminate. }
    rewrite N1, N2, N3. cbn [orb].
    apply (crit_flag_preserved ps); [rewrite Hfst; exact Hnd|exact Hin].
Qed.

(* sign then verify: the produced envelope verifies (given that the signer's signature verifies under
   the leaf key: lib_verify) and the verified content is the request, field by field *)
Theorem sign_roundtrip q h : sign sigfrom selfsig q = SOk h ->
  exists s k a chain, q_signer q = Some s /\ s_ks s = Some k /\ sig_alg k = Some a /\ s_chain s = Some chain /\
    verify_of sigfrom selfsig true true h = Some (expected_content q a chain) /\
    content_of sigfrom selfsig true h = Some (expected_content q a chain).
Proof.
  intros H. apply sign_gate in H. destruct H as [V [s [k [a [chain [Es [Ek [Ea [Ec [-> C]]]]]]]]]].
  exists s, k, a, chain. repeat split; auto.
  - unfold ValidReq in V. cbn zeta in V. destruct V as [_ [_ [_ [_ [_ [S [[s' [k' [a' [leaf [rest [Es' [Ek' [Ea' [Ec' [_ [K _]]]]]]]]]]] A]]]]]]].
    rewrite Es in Es'. inversion Es'; subst s'. rewrite Ec in Ec'. inversion Ec'; subst chain.
    assert (Kk : key_ok leaf = true).
    { unfold key_ok. unfold key_alg in K. destruct (extract_keyspec (c_pk leaf)); [reflexivity|discriminate]. }
    unfold verify_of. cbn [negb].
    replace (h_chain (built_view q a (leaf :: rest))) with (leaf :: rest) by reflexivity.
    cbv beta iota. rewrite Kk. cbn [negb]. rewrite andb_false_r. rewrite C. f_equal. apply built_content; assumption.
  - rewrite C. f_equal. unfold ValidReq in V. cbn zeta in V. destruct V as [_ [_ [_ [_ [_ [S [_ A]]]]]]]. apply built_content; assumption.
Qed.
End S.

(* non-vacuity: a valid JWS request with a critical and a non-critical attribute is accepted *)
Example sign_example :
  let leaf := Cert 0 1 1 1 77 0 9000000000000 false false 0 false 1 2 [] 0 0 (PkEC 256) [] [] false in
  let s := Signer true (Some (KS 2 256)) (Some [leaf]) true in
  let q := SReq 0 5 1 9 true 3000000000123 4000000000000 0 (Some s) [RAttr (GKText 100) true 11 true false; RAttr (GKText 101) false 12 true false] 0 1 in
  match sign (fun _ _ => true) (fun _ => true) q with
  | SOk h => content_of (fun _ _ => true) (fun _ => true) true h =
             Some (Content 5 9 0 3000000000000 4000000000000 [Attr (LText 100) true 11; Attr (LText 101) false 12] 4 1 [1] 0 0)
  | _ => False
  end.
Proof. vm_compute. reflexivity. Qed.
