From NCG Require Import Model.Cert.
From Coq Require Import Lia Arith ZifyBool.
Ltac Zify.zify_post_hook ::= Z.div_mod_to_equations.
Local Open Scope nat_scope.

(* ================= declarative vocabulary: the text of C03 / C14 ================= *)

(* RSA with a modulus of 256/384/512 bytes (the bit length rounded up to whole bytes is
   2048/3072/4096); EC P-256/384/521 *)
Definition SupportedKey (pk : pubkey) : Prop :=
  match pk with
  | PkRSA b => (2040 < b <= 2048 \/ 3064 < b <= 3072 \/ 4088 < b <= 4096)%Z
  | PkEC b => (b = 256 \/ b = 384 \/ b = 521)%Z
  | _ => False
  end.

(* "digital signature only": the digitalSignature bit is set and none of keyEncipherment(2),
   dataEncipherment(3), keyAgreement(4), keyCertSign(5), cRLSign(6), encipherOnly(7), decipherOnly(8) *)
Definition DigitalSignatureOnly (c : cert) : Prop :=
  ku_bit c 0 = true /\ forall b, In b [2; 3; 4; 5; 6; 7; 8]%Z -> ku_bit c b = false.

Definition IsCA (c : cert) : Prop := c_bcvalid c = true /\ c_isca c = true.

(* a path length constraint, if any, is not smaller than the number of CA certificates below *)
Definition PathLenPresent (c : cert) : Prop := (0 < c_maxpath c)%Z \/ (c_maxpath c = 0%Z /\ c_maxpathzero c = true).
Definition PathLenOK (c : cert) (below : Z) : Prop := PathLenPresent c -> (below <= c_maxpath c)%Z.

Record CSLeaf (c : cert) : Prop := {
  csl_notca : ~ IsCA c;
  csl_kucrit : c_kuext c = 2%Z;
  csl_ku : DigitalSignatureOnly c;
  csl_eku : forall e, In e (c_eku c) -> ~ In e [1; 2; 4; 8; 9]%Z;  (* server, client, e-mail, time stamping, OCSP *)
  csl_key : SupportedKey (c_pk c) }.

Record CSCA (c : cert) (below : Z) : Prop := {
  csc_ca : IsCA c;
  csc_path : PathLenOK c below;
  csc_kucrit : c_kuext c = 2%Z;
  csc_certsign : ku_bit c 5 = true }.

Record TSLeaf (c : cert) : Prop := {
  tsl_notca : ~ IsCA c;
  tsl_kupresent : c_kuext c <> 0%Z;
  tsl_ku : DigitalSignatureOnly c;
  tsl_eku : c_eku c = [8%Z];            (* time stamping and nothing else ... *)
  tsl_unknown : c_unknown_eku c = 0%Z;  (* ... known or unknown *)
  tsl_ekucrit : c_ekuext c = 2%Z;       (* the EKU extension is marked critical *)
  tsl_key : SupportedKey (c_pk c) }.

Record TSCA (c : cert) (below : Z) : Prop := {
  tsc_ca : IsCA c;
  tsc_path : PathLenOK c below;
  tsc_kupresent : c_kuext c <> 0%Z;
  tsc_certsign : ku_bit c 5 = true }.

(* what crypto/x509 guarantees about a parsed certificate and the harness's abstraction:
   the criticality code is one of three values, and a non-empty ExtKeyUsage list comes from an
   extension that is present *)
Definition WF (c : cert) : Prop :=
  (c_ekuext c = 0 \/ c_ekuext c = 1 \/ c_ekuext c = 2)%Z /\ (c_eku c <> [] -> c_ekuext c <> 0%Z).

Definition TimeOK (st : option Z) (c : cert) : Prop :=
  match st with None => True | Some t => (c_nb c <= t <= c_na c)%Z end.

Section Spec.
Variable sigfrom : cert -> cert -> bool.
Variable selfsig : cert -> bool.

Definition IssuedBy (c p : cert) : Prop := sigfrom c p = true /\ c_subj p = c_iss c.
Definition SelfSigned (c : cert) : Prop := IssuedBy c c.

(* position-by-position conformance of a chain of two or more certificates *)
Record ConformingFrom (T L : cert -> Prop) (CA : cert -> Z -> Prop) (i : nat) (l : list cert) : Prop := {
  cf_time : forall k c, nth_error l k = Some c -> T c;
  cf_link : forall k c p, nth_error l k = Some c -> nth_error l (S k) = Some p -> IssuedBy c p /\ ~ SelfSigned c;
  cf_root : forall k c, nth_error l k = Some c -> nth_error l (S k) = None -> SelfSigned c;
  cf_rule : forall k c, nth_error l k = Some c ->
              if Nat.eqb (i + k) 0 then L c else CA c (Z.of_nat (i + k) - 1)%Z }.

Definition Conforming (T L : cert -> Prop) (CA : cert -> Z -> Prop) (l : list cert) : Prop :=
  match l with
  | [] => False
  | [c] => selfsig c = true /\ c_subj c = c_iss c /\ T c /\ L c
  | _ => ConformingFrom T L CA 0 l
  end.

Definition ConformingCS (st : option Z) := Conforming (TimeOK st) CSLeaf CSCA.
Definition ConformingTS := Conforming (fun _ => True) TSLeaf TSCA.

(* ---------------- reflection of the per-certificate rules ---------------- *)

Lemma issued_by_iff c p : issued_by sigfrom c p = true <-> IssuedBy c p.
Proof. unfold issued_by, IssuedBy, names_eq. rewrite andb_true_iff, Z.eqb_eq. tauto. Qed.

Lemma self_signed_false_iff c : self_signed sigfrom c = false <-> ~ SelfSigned c.
Proof. unfold self_signed, SelfSigned. rewrite <- issued_by_iff. destruct (issued_by sigfrom c c); split; intros; try discriminate; auto. exfalso; auto. Qed.

Lemma time_ok_iff st c : time_ok st c = true <-> TimeOK st c.
Proof.
  unfold time_ok, TimeOK. destruct st as [t|]; [|tauto].
  rewrite negb_true_iff, orb_false_iff, !Z.ltb_ge. tauto.
Qed.

Lemma leaf_bc_iff c : leaf_bc_ok c = true <-> ~ IsCA c.
Proof. unfold leaf_bc_ok, IsCA. rewrite negb_true_iff, andb_false_iff. destruct (c_bcvalid c), (c_isca c); intuition congruence. Qed.

Lemma leaf_ku_iff c : leaf_ku_ok c = true <-> DigitalSignatureOnly c.
Proof.
  unfold leaf_ku_ok, DigitalSignatureOnly. rewrite !andb_true_iff, !negb_true_iff. split.
  - intros [[[[[[[H0 H2] H3] H4] H5] H6] H7] H8]. split; [exact H0|].
    intros b Hb. cbn in Hb. repeat (destruct Hb as [<-|Hb]; [assumption|]). contradiction.
  - intros [H0 H]. repeat split; try exact H0; apply H; cbn; tauto.
Qed.

Lemma key_ok_iff c : key_ok c = true <-> SupportedKey (c_pk c).
Proof.
  unfold key_ok, SupportedKey, extract_keyspec, rsa_size_bytes. destruct (c_pk c) as [b|b| |].
  - destruct (((b + 7) / 8 * 8 =? 2048) || ((b + 7) / 8 * 8 =? 3072) || ((b + 7) / 8 * 8 =? 4096))%Z eqn:E.
    + split; [intros _|reflexivity]. rewrite !orb_true_iff, !Z.eqb_eq in E. lia.
    + split; [discriminate|]. rewrite !orb_false_iff, !Z.eqb_neq in E. lia.
  - destruct ((b =? 256) || (b =? 384) || (b =? 521))%Z eqn:E.
    + split; [intros _|reflexivity]. rewrite !orb_true_iff, !Z.eqb_eq in E. lia.
    + split; [discriminate|]. rewrite !orb_false_iff, !Z.eqb_neq in E. lia.
  - split; [discriminate|contradiction].
  - split; [discriminate|contradiction].
Qed.

Lemma cs_eku_iff c : cs_eku_ok c = true <-> forall e, In e (c_eku c) -> ~ In e [1; 2; 4; 8; 9]%Z.
Proof.
  unfold cs_eku_ok. rewrite negb_true_iff. split.
  - intros H e He Hin. assert (existsb cs_excluded (c_eku c) = true); [|congruence].
    apply existsb_exists. exists e. split; [exact He|]. unfold cs_excluded. rewrite !orb_true_iff, !Z.eqb_eq.
    cbn in Hin. intuition.
  - intros H. destruct (existsb cs_excluded (c_eku c)) eqn:E; [|reflexivity]. exfalso.
    apply existsb_exists in E. destruct E as [e [He Hx]]. apply (H e He).
    unfold cs_excluded in Hx. rewrite !orb_true_iff, !Z.eqb_eq in Hx. cbn. intuition.
Qed.

Lemma cs_leaf_iff c : cs_leaf_ok c = true <-> CSLeaf c.
Proof.
  unfold cs_leaf_ok, cs_ku_present. rewrite !andb_true_iff, leaf_bc_iff, leaf_ku_iff, cs_eku_iff, key_ok_iff, Z.eqb_eq.
  split; [intros [[[[H1 H2] H3] H4] H5]; constructor; assumption|intros []; tauto].
Qed.

Lemma ca_bc_iff c d : ca_bc_ok c d = true <-> IsCA c /\ PathLenOK c d.
Proof.
  unfold ca_bc_ok, IsCA, PathLenOK, PathLenPresent.
  rewrite !andb_true_iff, negb_true_iff, andb_false_iff, orb_false_iff, andb_false_iff, Z.ltb_ge, Z.ltb_ge, Z.eqb_neq.
  split.
  - intros [[Hb Hc] H]. split; [tauto|]. intros Hp.
    destruct H as [[H1 H2]|H]; [|exact H]. exfalso.
    destruct Hp as [Hp|[Hp1 Hp2]]; [lia|]. destruct H2 as [H2|H2]; [contradiction|congruence].
  - intros [[Hb Hc] H]. split; [tauto|].
    destruct (Z_lt_dec 0 (c_maxpath c)) as [Hl|Hl]; [right; apply H; left; exact Hl|].
    destruct (Z.eq_dec (c_maxpath c) 0) as [He|He].
    + destruct (c_maxpathzero c) eqn:Z0; [right; apply H; right; tauto|left; split; [lia|right; reflexivity]].
    + left. split; [lia|left; exact He].
Qed.

Lemma cs_ca_iff c d : cs_ca_ok c d = true <-> CSCA c d.
Proof.
  unfold cs_ca_ok, cs_ku_present. rewrite !andb_true_iff, ca_bc_iff, Z.eqb_eq.
  split; [intros [[[H1 H2] H3] H4]; constructor; assumption|intros []; tauto].
Qed.

Lemma ts_eku_iff c : WF c -> (ts_eku_ok c = true <-> c_eku c = [8%Z] /\ c_unknown_eku c = 0%Z /\ c_ekuext c = 2%Z).
Proof.
  intros [Hr Hp]. unfold ts_eku_ok. destruct (c_eku c) as [|e [|e2 r]] eqn:E.
  - split; [discriminate|intros [H _]; discriminate].
  - rewrite !andb_true_iff, negb_true_iff, !Z.eqb_eq, Z.eqb_neq. split.
    + intros [[-> H1] H2]. repeat split; auto. assert (c_ekuext c <> 0%Z) by (apply Hp; discriminate). lia.
    + intros [H [H1 H2]]. inversion H; subst. repeat split; auto. lia.
  - split; [discriminate|intros [H _]; discriminate].
Qed.

Lemma ts_leaf_iff c : WF c -> (ts_leaf_ok c = true <-> TSLeaf c).
Proof.
  intros W. unfold ts_leaf_ok, ts_ku_present.
  rewrite !andb_true_iff, leaf_bc_iff, leaf_ku_iff, (ts_eku_iff c W), key_ok_iff, negb_true_iff, Z.eqb_neq.
  split; [intros [[[[H1 H2] H3] [H4 [H5 H6]]] H7]; constructor; assumption|intros []; tauto].
Qed.

Lemma ts_ca_iff c d : ts_ca_ok c d = true <-> TSCA c d.
Proof.
  unfold ts_ca_ok, ts_ku_present. rewrite !andb_true_iff, ca_bc_iff, negb_true_iff, Z.eqb_neq.
  split; [intros [[[H1 H2] H3] H4]; constructor; assumption|intros []; tauto].
Qed.

(* ---------------- the walk, for every chain length ---------------- *)
Section WalkProof.
Variables t_ok leaf_ok : cert -> bool.
Variable ca_ok : cert -> Z -> bool.
Variables T L : cert -> Prop.
Variable CA : cert -> Z -> Prop.

Lemma walk_iff : forall l i,
  (forall c, In c l -> (t_ok c = true <-> T c)) ->
  (forall c, In c l -> (leaf_ok c = true <-> L c)) ->
  (forall c d, In c l -> (ca_ok c d = true <-> CA c d)) ->
  (walk sigfrom t_ok leaf_ok ca_ok i l = true <-> ConformingFrom T L CA i l).
Proof.
  induction l as [|c rest IH]; intros i HT HL HCA; cbn [walk].
  - split; [intros _|reflexivity]. constructor; intros k; destruct k; cbn; discriminate.
  - assert (IH' : walk sigfrom t_ok leaf_ok ca_ok (S i) rest = true <-> ConformingFrom T L CA (S i) rest).
    { apply IH; intros; [apply HT|apply HL|apply HCA]; right; assumption. }
    assert (Hrule : (if Nat.eqb i 0 then leaf_ok c else ca_ok c (Z.of_nat i - 1)%Z) = true <->
                    (if Nat.eqb i 0 then L c else CA c (Z.of_nat i - 1)%Z)).
    { destruct (Nat.eqb i 0); [apply HL|apply HCA]; left; reflexivity. }
    rewrite !andb_true_iff, IH', Hrule, (HT c (or_introl eq_refl)). split.
    + intros [[[Ht Hl] Hr] Hrest]. constructor.
      * intros [|k] x; cbn; [intro E; inversion E; subst; exact Ht|apply Hrest].
      * intros [|k] x p; cbn.
        -- intros E1 E2; inversion E1; subst. destruct rest as [|p' r]; [discriminate|]. cbn in E2; inversion E2; subst.
           apply andb_true_iff in Hl. destruct Hl as [Hn Hi]. apply negb_true_iff in Hn.
           split; [apply issued_by_iff; exact Hi|apply self_signed_false_iff; exact Hn].
        -- apply Hrest.
      * intros [|k] x; cbn.
        -- intros E1 E2; inversion E1; subst. destruct rest; [apply issued_by_iff; exact Hl|discriminate].
        -- apply Hrest.
      * intros [|k] x; cbn.
        -- intro E; inversion E; subst. rewrite Nat.add_0_r. exact Hr.
        -- intro E. pose proof (cf_rule _ _ _ _ _ Hrest k x E) as H. replace (i + S k) with (S i + k) by lia. exact H.
    + intros C. split; [split; [split|]|].
      * apply (cf_time _ _ _ _ _ C 0). reflexivity.
      * destruct rest as [|p r].
        -- apply issued_by_iff. apply (cf_root _ _ _ _ _ C 0); reflexivity.
        -- destruct (cf_link _ _ _ _ _ C 0 c p eq_refl eq_refl) as [Hi Hn].
           apply issued_by_iff in Hi. apply self_signed_false_iff in Hn. rewrite Hi, Hn. reflexivity.
      * pose proof (cf_rule _ _ _ _ _ C 0 c eq_refl) as H. rewrite Nat.add_0_r in H. exact H.
      * constructor.
        -- intros k x E. apply (cf_time _ _ _ _ _ C (S k)). exact E.
        -- intros k x p E1 E2. apply (cf_link _ _ _ _ _ C (S k)); assumption.
        -- intros k x E1 E2. apply (cf_root _ _ _ _ _ C (S k)); assumption.
        -- intros k x E. pose proof (cf_rule _ _ _ _ _ C (S k) x E) as H. replace (S i + k) with (i + S k) by lia. exact H.
Qed.

Lemma validate_gen_iff l :
  (forall c, In c l -> (t_ok c = true <-> T c)) ->
  (forall c, In c l -> (leaf_ok c = true <-> L c)) ->
  (forall c d, In c l -> (ca_ok c d = true <-> CA c d)) ->
  (validate_gen sigfrom selfsig t_ok leaf_ok ca_ok l = true <-> Conforming T L CA l).
Proof.
  intros HT HL HCA. destruct l as [|c [|p r]]; cbn [validate_gen Conforming].
  - split; [discriminate|contradiction].
  - rewrite !andb_true_iff. unfold names_eq. rewrite Z.eqb_eq, (HT c (or_introl eq_refl)), (HL c (or_introl eq_refl)). tauto.
  - apply walk_iff; assumption.
Qed.
End WalkProof.

(* ======================= C03 ======================= *)
Theorem validate_cs_exact st l : validate_cs sigfrom selfsig st l = true <-> ConformingCS st l.
Proof.
  apply validate_gen_iff; intros.
  - apply time_ok_iff.
  - apply cs_leaf_iff.
  - apply cs_ca_iff.
Qed.

(* ======================= C14 ======================= *)
Theorem validate_ts_exact l : Forall WF l -> (validate_ts sigfrom selfsig l = true <-> ConformingTS l).
Proof.
  intros W. apply validate_gen_iff; intros.
  - tauto.
  - apply ts_leaf_iff. rewrite Forall_forall in W. auto.
  - apply ts_ca_iff.
Qed.

(* a signing time outside any certificate's validity rejects the chain *)
Theorem validate_cs_time st l c :
  validate_cs sigfrom selfsig (Some st) l = true -> In c l -> (c_nb c <= st <= c_na c)%Z.
Proof.
  intros H Hin. apply validate_cs_exact in H. unfold ConformingCS, Conforming in H.
  destruct l as [|c0 [|p r]]; [contradiction| |].
  - destruct Hin as [<-|[]]. destruct H as [_ [_ [Ht _]]]. exact Ht.
  - apply In_nth_error in Hin. destruct Hin as [k Hk]. exact (cf_time _ _ _ _ _ H k c Hk).
Qed.

(* the walk is shared: the two validators differ only in the per-certificate rules *)
Lemma walk_ext t1 t2 l1 l2 ca1 ca2 : forall l i,
  (forall c, In c l -> t1 c = t2 c) -> (forall c, In c l -> l1 c = l2 c) ->
  (forall c d, In c l -> ca1 c d = ca2 c d) ->
  walk sigfrom t1 l1 ca1 i l = walk sigfrom t2 l2 ca2 i l.
Proof.
  induction l as [|c rest IH]; intros i HT HL HC; cbn [walk]; [reflexivity|].
  rewrite (IH (S i) (fun x H => HT x (or_intror H)) (fun x H => HL x (or_intror H)) (fun x d H => HC x d (or_intror H))).
  rewrite (HT c (or_introl eq_refl)), (HL c (or_introl eq_refl)), (HC c _ (or_introl eq_refl)). reflexivity.
Qed.

Theorem shared_walk l :
  (forall c, In c l -> cs_leaf_ok c = ts_leaf_ok c) ->
  (forall c d, In c l -> cs_ca_ok c d = ts_ca_ok c d) ->
  validate_cs sigfrom selfsig None l = validate_ts sigfrom selfsig l.
Proof.
  intros HL HC. unfold validate_cs, validate_ts, validate_gen.
  destruct l as [|c [|p r]]; [reflexivity| |].
  - cbn [time_ok]. rewrite (HL c (or_introl eq_refl)). reflexivity.
  - apply walk_ext; auto.
Qed.

(* x509util.ValidateChain routes to the validator of the configured purpose *)
Theorem validate_chain_routes purpose l :
  validate_chain sigfrom selfsig purpose l = true ->
  (purpose = 0%Z /\ ConformingCS None l) \/ (purpose = 1%Z /\ validate_ts sigfrom selfsig l = true).
Proof.
  unfold validate_chain. destruct (purpose =? 0)%Z eqn:E0.
  - intros H. left. apply Z.eqb_eq in E0. split; [exact E0|apply validate_cs_exact; exact H].
  - destruct (purpose =? 1)%Z eqn:E1; [|discriminate]. intros H. right. apply Z.eqb_eq in E1. tauto.
Qed.

Theorem empty_chain_rejected st purpose :
  validate_cs sigfrom selfsig st [] = false /\ validate_ts sigfrom selfsig [] = false /\
  validate_chain sigfrom selfsig purpose [] = false.
Proof. unfold validate_chain. repeat split. destruct (purpose =? 0)%Z; [reflexivity|]. destruct (purpose =? 1)%Z; reflexivity. Qed.
End Spec.

(* inclusive validity bounds, one unit outside is rejected *)
Theorem time_inclusive c :
  (c_nb c <= c_na c)%Z ->
  time_ok (Some (c_nb c)) c = true /\ time_ok (Some (c_na c)) c = true /\
  time_ok (Some (c_nb c - 1)%Z) c = false /\ time_ok (Some (c_na c + 1)%Z) c = false /\ time_ok None c = true.
Proof.
  intros H. unfold time_ok. repeat split; try reflexivity;
  rewrite ?negb_true_iff, ?negb_false_iff, ?orb_false_iff, ?orb_true_iff, ?Z.ltb_ge, ?Z.ltb_lt; lia.
Qed.


(* ---------------- non-vacuity: a conforming three-certificate chain ---------------- *)
Definition ex_leaf := Cert 0 100 10 11 1 0 100 false false (-1) false 1 2 [3%Z] 0 1 (PkEC 256) [] [] false.
Definition ex_ca   := Cert 1 101 11 12 2 0 100 true true 0 true 32 2 [] 0 0 (PkRSA 3072) [] [] false.
Definition ex_root := Cert 2 102 12 12 3 0 100 true true (-1) false 96 2 [] 0 0 (PkEC 384) [] [] false.
Definition ex_sf := mat_sigfrom [[false; true; false]; [false; false; true]; [false; false; true]].
Example conforming_example :
  validate_cs ex_sf (fun _ => false) (Some 50%Z) [ex_leaf; ex_ca; ex_root] = true /\
  validate_cs ex_sf (fun _ => false) (Some 101%Z) [ex_leaf; ex_ca; ex_root] = false /\
  validate_ts ex_sf (fun _ => false) [ex_leaf; ex_ca; ex_root] = false.
Proof. repeat split. Qed.
