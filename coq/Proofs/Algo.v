(* C02: the algorithm tables are exactly the six approved rows. *)
From NCG Require Import Model.Algo.
From Coq Require Import Lia.

(* the table of the property: (key type, key size, algorithm, hash bits, JWS name, COSE id) *)
Definition six : list (Z * Z * alg * Z * jalg * Z) :=
  [ (1, 2048, PS256, 256, JPS256, -37); (1, 3072, PS384, 384, JPS384, -38); (1, 4096, PS512, 512, JPS512, -39);
    (2, 256, ES256, 256, JES256, -7); (2, 384, ES384, 384, JES384, -35); (2, 521, ES512, 512, JES512, -36) ].

Definition row_of (a : alg) : Z * Z * alg * Z * jalg * Z :=
  match a with
  | PS256 => (1, 2048, PS256, 256, JPS256, -37) | PS384 => (1, 3072, PS384, 384, JPS384, -38) | PS512 => (1, 4096, PS512, 512, JPS512, -39)
  | ES256 => (2, 256, ES256, 256, JES256, -7) | ES384 => (2, 384, ES384, 384, JES384, -35) | ES512 => (2, 521, ES512, 512, JES512, -36)
  end.
Lemma row_in_six a : In (row_of a) six.
Proof. destruct a; cbn; tauto. Qed.

Theorem table_exact k a :
  sig_alg k = Some a <-> row_of a = (ks_type k, ks_size k, a, hash_of (Some a), jws_name a, cose_id a).
Proof.
  destruct k as [t s]. unfold sig_alg. cbn [ks_type ks_size]. split.
  - destruct (t =? 2) eqn:T2.
    + apply Z.eqb_eq in T2. subst t.
      destruct (s =? 256) eqn:S1; [apply Z.eqb_eq in S1; subst; intros H; inversion H; reflexivity|].
      destruct (s =? 384) eqn:S2; [apply Z.eqb_eq in S2; subst; intros H; inversion H; reflexivity|].
      destruct (s =? 521) eqn:S3; [apply Z.eqb_eq in S3; subst; intros H; inversion H; reflexivity|discriminate].
    + destruct (t =? 1) eqn:T1; [|discriminate]. apply Z.eqb_eq in T1. subst t.
      destruct (s =? 2048) eqn:S1; [apply Z.eqb_eq in S1; subst; intros H; inversion H; reflexivity|].
      destruct (s =? 3072) eqn:S2; [apply Z.eqb_eq in S2; subst; intros H; inversion H; reflexivity|].
      destruct (s =? 4096) eqn:S3; [apply Z.eqb_eq in S3; subst; intros H; inversion H; reflexivity|discriminate].
  - destruct a; cbn; intros H; inversion H; subst; reflexivity.
Qed.

(* every other key type / size has no algorithm *)
Theorem table_none k : sig_alg k = None <-> forall a, (ks_type k, ks_size k) <> (fst (fst (fst (fst (fst (row_of a))))), snd (fst (fst (fst (fst (row_of a)))))).
Proof.
  split.
  - intros H a E. assert (S : sig_alg k = Some a).
    { apply table_exact. destruct k as [t s]. cbn in E. destruct a; cbn in *; inversion E; subst; reflexivity. }
    congruence.
  - intros H. destruct (sig_alg k) as [a|] eqn:S; [|reflexivity]. exfalso. apply table_exact in S. apply (H a). rewrite S. reflexivity.
Qed.

Theorem hash_exact a : hash_of (Some a) = snd (fst (fst (row_of a))) /\ (hash_of None = 0).
Proof. destruct a; split; reflexivity. Qed.

Theorem jws_names_bijective : (forall a, jws_alg (jws_name a) = Some a) /\ (forall j a, jws_alg j = Some a -> j = jws_name a) /\
  (forall j, jws_valid_method j = true <-> exists a, j = jws_name a).
Proof.
  split; [intros a; destruct a; reflexivity|]. split.
  - intros j a H. destruct j; cbn in H; inversion H; reflexivity.
  - intros j. unfold jws_valid_method. split.
    + destruct (jws_alg j) as [a|] eqn:E; [|discriminate]. intros _. exists a. destruct j; cbn in E; inversion E; reflexivity.
    + intros [a ->]. destruct a; reflexivity.
Qed.

Theorem cose_ids_bijective : (forall a, cose_alg (cose_id a) = Some a) /\ (forall z a, cose_alg z = Some a -> z = cose_id a) /\
  (forall a, cose_hash (cose_id a) = hash_of (Some a)).
Proof.
  split; [intros a; destruct a; reflexivity|]. split.
  - intros z a. unfold cose_alg.
    repeat match goal with |- context [?x =? ?y] => destruct (Z.eqb_spec x y); [subst; intros H; inversion H; reflexivity|] end. discriminate.
  - intros a. destruct a; reflexivity.
Qed.

(* key -> key spec: exactly RSA with a modulus of 256 / 384 / 512 bytes and the three NIST curves *)
Theorem extract_exact pk k :
  extract_keyspec pk = Some k <->
  (exists b, pk = PkRSA b /\ k = KS 1 (rsa_size_bytes b * 8) /\ (rsa_size_bytes b = 256 \/ rsa_size_bytes b = 384 \/ rsa_size_bytes b = 512)) \/
  (exists bits, pk = PkEC bits /\ k = KS 2 bits /\ (bits = 256 \/ bits = 384 \/ bits = 521)).
Proof.
  destruct pk as [b|bits| |]; cbn.
  - split.
    + intros H. left. exists b. split; [reflexivity|].
      destruct ((rsa_size_bytes b * 8 =? 2048) || (rsa_size_bytes b * 8 =? 3072) || (rsa_size_bytes b * 8 =? 4096)) eqn:E; [|discriminate].
      inversion H; subst. split; [reflexivity|]. rewrite !orb_true_iff, !Z.eqb_eq in E. lia.
    + intros [[b' [E [-> H]]]|[bits [E _]]]; [|discriminate]. inversion E; subst b'.
      assert (X : (rsa_size_bytes b * 8 =? 2048) || (rsa_size_bytes b * 8 =? 3072) || (rsa_size_bytes b * 8 =? 4096) = true).
      { rewrite !orb_true_iff, !Z.eqb_eq. lia. }
      rewrite X. reflexivity.
  - split.
    + intros H. right. exists bits. split; [reflexivity|].
      destruct ((bits =? 256) || (bits =? 384) || (bits =? 521)) eqn:E; [|discriminate].
      inversion H; subst. split; [reflexivity|]. rewrite !orb_true_iff, !Z.eqb_eq in E. lia.
    + intros [[b [E _]]|[bits' [E [-> H]]]]; [discriminate|]. inversion E; subst bits'.
      assert (X : (bits =? 256) || (bits =? 384) || (bits =? 521) = true) by (rewrite !orb_true_iff, !Z.eqb_eq; lia).
      rewrite X. reflexivity.
  - split; [discriminate|]. intros [[b [E _]]|[bits [E _]]]; discriminate.
  - split; [discriminate|]. intros [[b [E _]]|[bits [E _]]]; discriminate.
Qed.

(* every supported key has an algorithm: the composition never falls off the table *)
Theorem key_alg_total pk k : extract_keyspec pk = Some k -> exists a, sig_alg k = Some a /\ key_alg pk = Some a.
Proof.
  intros H. unfold key_alg. rewrite H. apply extract_exact in H.
  destruct H as [[b [-> [-> H]]]|[bits [-> [-> H]]]]; unfold sig_alg; cbn [ks_type ks_size].
  - destruct H as [H|[H|H]]; rewrite H; cbn; eexists; split; reflexivity.
  - destruct H as [H|[H|H]]; rewrite H; cbn; eexists; split; reflexivity.
Qed.
