From NCG Require Import Model.Crl.
From Coq Require Import Lia Permutation.

(* ================= C10: declarative reading of the entry rules ================= *)

Definition bad (e : entry) : bool := match parse_exts (e_exts e) 0 with None => true | Some _ => false end.
Definition inv_of (e : entry) : Z := match parse_exts (e_exts e) 0 with Some i => i | None => 0 end.
(* the entry does not count: its invalidity date is later than a supplied signing time *)
Definition excused (st : Z) (e : entry) : bool :=
  negb (bad e) && negb (st =? 0) && negb (inv_of e =? 0) && (st <? inv_of e).
Definition counts (st : Z) (e : entry) : bool := negb (bad e) && negb (excused st e).
Definition permanent (e : entry) : bool := negb (is_temp e).
(* an entry that decides on its own: unusable, or a counting permanent revocation *)
Definition stopper (st : Z) (e : entry) : bool := bad e || (counts st e && permanent e).
Definition tempc (st : Z) (e : entry) : bool := counts st e && is_temp e.
Definition pick (acc : option entry) (e : entry) : option entry :=
  match acc with None => Some e | Some l0 => if e_rtime l0 <? e_rtime e then Some e else Some l0 end.
Definition verdict_of (latest : option entry) : eres :=
  match latest with Some e => if e_reason e =? 6 then ERevoked else EOk | None => EOk end.

(* the declarative verdict over the entries for serial s (base entries then delta entries) *)
Definition entries_spec (s st : Z) (l : list entry) : eres :=
  let m := filter (fun e => e_serial e =? s) l in
  match find (stopper st) m with
  | Some e => if bad e then EErr else ERevoked
  | None => verdict_of (fold_left pick (filter (tempc st) m) None)
  end.

Lemma scan_char s st : forall l latest,
  (forall e, In e l -> e_serial e = s) ->
  scan s st latest l =
  match find (stopper st) l with
  | Some e => if bad e then EErr else ERevoked
  | None => verdict_of (fold_left pick (filter (tempc st) l) latest)
  end.
Proof.
  induction l as [|e r IH]; intros latest Hs; cbn [scan find filter fold_left]; [reflexivity|].
  assert (He : e_serial e = s) by (apply Hs; left; reflexivity).
  assert (Hr : forall x, In x r -> e_serial x = s) by (intros x Hx; apply Hs; right; exact Hx).
  rewrite He, Z.eqb_refl.
  unfold stopper, tempc, counts, excused, permanent, bad, inv_of.
  destruct (parse_exts (e_exts e) 0) as [inv|] eqn:Hp; cbn [negb andb orb].
  - destruct (negb (st =? 0) && negb (inv =? 0) && (st <? inv)) eqn:Hex; cbn [negb andb orb].
    + rewrite IH by exact Hr. reflexivity.
    + destruct (is_temp e) eqn:Ht; cbn [negb andb orb fold_left].
      * rewrite IH by exact Hr. reflexivity.
      * rewrite Hp. reflexivity.
  - rewrite Hp. reflexivity.
Qed.

Lemma scan_filter s st : forall l latest,
  scan s st latest l = scan s st latest (filter (fun e => e_serial e =? s) l).
Proof.
  induction l as [|e r IH]; intros latest; cbn [scan filter]; [reflexivity|].
  destruct (e_serial e =? s) eqn:E.
  - cbn [scan]. rewrite E.
    destruct (parse_exts (e_exts e) 0); [|reflexivity].
    destruct (_ && _ && _); [apply IH|].
    destruct (is_temp e); [apply IH|reflexivity].
  - apply IH.
Qed.

Theorem scan_is_spec s st l : scan s st None l = entries_spec s st l.
Proof.
  unfold entries_spec. rewrite scan_filter. apply scan_char.
  intros e He. apply filter_In in He. destruct He as [_ He]. apply Z.eqb_eq. exact He.
Qed.

(* ---------- consequences ---------- *)
Definition matching (s : Z) (l : list entry) : list entry := filter (fun e => e_serial e =? s) l.

Lemma in_matching s l e : In e (matching s l) <-> In e l /\ e_serial e = s.
Proof. unfold matching. rewrite filter_In, Z.eqb_eq. tauto. Qed.

Theorem other_serials_irrelevant s st l : scan s st None l = scan s st None (matching s l).
Proof. apply scan_filter. Qed.

(* inserting or removing entries of other serial numbers anywhere changes nothing *)
Theorem other_serials_irrelevant2 s st l l' :
  matching s l = matching s l' -> scan s st None l = scan s st None l'.
Proof. intros H. rewrite (scan_filter s st l), (scan_filter s st l'). unfold matching in H. rewrite H. reflexivity. Qed.

Theorem unlisted_ok s st l : (forall e, In e l -> e_serial e <> s) -> scan s st None l = EOk.
Proof.
  intros H. rewrite scan_is_spec. unfold entries_spec.
  assert (E : filter (fun e => e_serial e =? s) l = []).
  { induction l as [|e r IH]; [reflexivity|]. cbn. destruct (e_serial e =? s) eqn:E.
    - apply Z.eqb_eq in E. exfalso. apply (H e); [left; reflexivity|exact E].
    - apply IH. intros x Hx. apply H. right; exact Hx. }
  rewrite E. reflexivity.
Qed.

Theorem bad_never_ok s st l :
  (exists e, In e l /\ e_serial e = s /\ bad e = true) -> scan s st None l <> EOk.
Proof.
  intros [e [Hin [Hs Hb]]]. rewrite scan_is_spec. unfold entries_spec.
  destruct (find _ _) as [x|] eqn:Hf.
  - destruct (bad x); discriminate.
  - exfalso. eapply find_none in Hf.
    2:{ apply filter_In. split; [exact Hin|]. apply Z.eqb_eq. exact Hs. }
    unfold stopper in Hf. rewrite Hb in Hf. discriminate.
Qed.

(* with no unusable matching entry, a counting permanent entry means Revoked *)
Theorem permanent_revoked s st l :
  (forall e, In e l -> e_serial e = s -> bad e = false) ->
  (exists e, In e l /\ e_serial e = s /\ counts st e = true /\ permanent e = true) ->
  scan s st None l = ERevoked.
Proof.
  intros Hnb [e [Hin [Hs [Hc Hp]]]]. rewrite scan_is_spec. unfold entries_spec.
  destruct (find _ _) as [x|] eqn:Hf.
  - apply find_some in Hf. destruct Hf as [Hx _]. apply filter_In in Hx. destruct Hx as [Hx Hsx].
    apply Z.eqb_eq in Hsx. rewrite (Hnb x Hx Hsx). reflexivity.
  - exfalso. eapply find_none in Hf.
    2:{ apply filter_In. split; [exact Hin|]. apply Z.eqb_eq. exact Hs. }
    unfold stopper in Hf. rewrite Hc, Hp in Hf. rewrite orb_true_r in Hf. discriminate.
Qed.

(* fold_left pick returns an element of maximal revocation time *)
Lemma pick_max : forall l acc e,
  fold_left pick l acc = Some e ->
  (In e l \/ acc = Some e) /\ (forall x, In x l -> e_rtime x <= e_rtime e) /\
  (forall a, acc = Some a -> e_rtime a <= e_rtime e).
Proof.
  induction l as [|y r IH]; intros acc e H; cbn [fold_left] in H.
  - split; [right; exact H|]. split; [intros x []|]. intros a Ha. rewrite Ha in H. inversion H; subst. lia.
  - apply IH in H. destruct H as [Hin [Hmax Hacc]]. unfold pick in Hin, Hacc.
    destruct acc as [a|].
    + destruct (e_rtime a <? e_rtime y) eqn:E.
      * apply Z.ltb_lt in E. specialize (Hacc y eq_refl). split.
        -- destruct Hin as [Hin|Hin]; [left; right; exact Hin|inversion Hin; subst; left; left; reflexivity].
        -- split; [intros x [<-|Hx]; [exact Hacc|apply Hmax; exact Hx]|]. intros a0 Ha0. inversion Ha0; subst. lia.
      * apply Z.ltb_ge in E. specialize (Hacc a eq_refl). split.
        -- destruct Hin as [Hin|Hin]; [left; right; exact Hin|right; exact Hin].
        -- split; [intros x [<-|Hx]; [lia|apply Hmax; exact Hx]|]. intros a0 Ha0. inversion Ha0; subst. exact Hacc.
    + specialize (Hacc y eq_refl). split.
      * destruct Hin as [Hin|Hin]; [left; right; exact Hin|inversion Hin; subst; left; left; reflexivity].
      * split; [intros x [<-|Hx]; [exact Hacc|apply Hmax; exact Hx]|]. intros a0 Ha0. discriminate.
Qed.

Lemma pick_none : forall l acc, fold_left pick l acc = None -> l = [] /\ acc = None.
Proof.
  induction l as [|y r IH]; intros acc H; cbn [fold_left] in H; [auto|].
  apply IH in H. destruct H as [_ H]. unfold pick in H. destruct acc as [a|]; [destruct (_ <? _)|]; discriminate.
Qed.

(* exact characterisation of OK *)
Theorem ok_exact s st l :
  scan s st None l = EOk <->
  (forall e, In e (matching s l) -> bad e = false /\ (counts st e = true -> permanent e = false)) /\
  (forall e, fold_left pick (filter (tempc st) (matching s l)) None = Some e -> e_reason e <> 6).
Proof.
  rewrite scan_is_spec. unfold entries_spec. fold (matching s l). split.
  - intros H. destruct (find (stopper st) (matching s l)) as [x|] eqn:Hf; [destruct (bad x); discriminate|].
    split.
    + intros e He. pose proof (find_none _ _ Hf e He) as Hn. unfold stopper in Hn.
      apply orb_false_iff in Hn. destruct Hn as [Hb Hcp]. split; [exact Hb|]. intros Hc. rewrite Hc in Hcp. exact Hcp.
    + intros e He. rewrite He in H. cbn in H. destruct (e_reason e =? 6) eqn:E; [discriminate|]. apply Z.eqb_neq. exact E.
  - intros [Hall Hlast]. destruct (find (stopper st) (matching s l)) as [x|] eqn:Hf.
    + exfalso. apply find_some in Hf. destruct Hf as [Hx Hst]. destruct (Hall x Hx) as [Hb Hp].
      unfold stopper in Hst. rewrite Hb in Hst. cbn in Hst. apply andb_true_iff in Hst. destruct Hst as [Hc Hpp].
      rewrite (Hp Hc) in Hpp. discriminate.
    + destruct (fold_left pick _ None) as [e|] eqn:Hp; [|reflexivity]. cbn.
      specialize (Hlast e eq_refl). apply Z.eqb_neq in Hlast. rewrite Hlast. reflexivity.
Qed.

(* hold / remove: with only usable temporary counting entries, the verdict is that of an entry
   with the latest revocation time *)
Theorem hold_remove s st l :
  (forall e, In e (matching s l) -> stopper st e = false) ->
  match fold_left pick (filter (tempc st) (matching s l)) None with
  | None => scan s st None l = EOk /\ filter (tempc st) (matching s l) = []
  | Some e => In e (matching s l) /\ tempc st e = true /\
              (forall x, In x (matching s l) -> tempc st x = true -> e_rtime x <= e_rtime e) /\
              (scan s st None l = ERevoked <-> e_reason e = 6) /\ (scan s st None l = EOk <-> e_reason e <> 6)
  end.
Proof.
  intros Hns. rewrite scan_is_spec. unfold entries_spec. fold (matching s l).
  assert (Hf : find (stopper st) (matching s l) = None).
  { destruct (find (stopper st) (matching s l)) as [x|] eqn:Hf; [|reflexivity].
    apply find_some in Hf. destruct Hf as [Hx Hst]. rewrite (Hns x Hx) in Hst. discriminate. }
  rewrite Hf. destruct (fold_left pick _ None) as [e|] eqn:Hp.
  - apply pick_max in Hp. destruct Hp as [[Hin|Hin] [Hmax _]]; [|discriminate].
    apply filter_In in Hin. destruct Hin as [Hin Ht]. repeat split; auto.
    + intros x Hx Htx. apply Hmax. apply filter_In. auto.
    + cbn. destruct (e_reason e =? 6) eqn:E; [intros _; apply Z.eqb_eq; exact E|discriminate].
    + cbn. intros E. apply Z.eqb_eq in E. rewrite E. reflexivity.
    + cbn. destruct (e_reason e =? 6) eqn:E; [discriminate|intros _; apply Z.eqb_neq; exact E].
    + cbn. intros E. apply Z.eqb_neq in E. rewrite E. reflexivity.
  - apply pick_none in Hp. destruct Hp as [Hp _]. split; [reflexivity|exact Hp].
Qed.

(* invalidity date boundaries *)
Theorem invalidity_boundary e inv :
  parse_exts (e_exts e) 0 = Some inv -> inv <> 0 ->
  counts inv e = true /\          (* signing time equal to the invalidity date: the entry counts *)
  counts (inv + 1) e = true /\    (* invalidity date before the signing time: counts *)
  counts 0 e = true /\            (* no signing time: counts *)
  (inv - 1 <> 0 -> counts (inv - 1) e = false).  (* invalidity date later than the signing time: does not count *)
Proof.
  intros Hp Hn. unfold counts, excused, bad, inv_of. rewrite Hp. cbn [negb andb].
  repeat split; intros;
  repeat match goal with
         | |- context [?a =? ?b] => destruct (Z.eqb_spec a b)
         | |- context [?a <? ?b] => destruct (Z.ltb_spec a b)
         end; cbn; try reflexivity; try lia.
Qed.

(* ---------- order independence ---------- *)
Lemma nodup_map_inj {A B} (f : A -> B) (l : list A) a b :
  NoDup (map f l) -> In a l -> In b l -> f a = f b -> a = b.
Proof.
  induction l as [|x r IH]; intros Hn Ha Hb Hf; [contradiction|].
  cbn in Hn. inversion Hn as [|? ? Hnx Hnr]; subst.
  destruct Ha as [<-|Ha], Hb as [<-|Hb]; auto.
  - exfalso. apply Hnx. rewrite Hf. apply in_map. exact Hb.
  - exfalso. apply Hnx. rewrite <- Hf. apply in_map. exact Ha.
Qed.

Lemma pick_perm l l' :
  Permutation l l' -> NoDup (map e_rtime l) -> fold_left pick l None = fold_left pick l' None.
Proof.
  intros P N. destruct (fold_left pick l None) as [e|] eqn:H1; destruct (fold_left pick l' None) as [e'|] eqn:H2.
  - apply pick_max in H1. apply pick_max in H2.
    destruct H1 as [[I1|I1] [M1 _]]; [|discriminate]. destruct H2 as [[I2|I2] [M2 _]]; [|discriminate].
    f_equal. apply (nodup_map_inj e_rtime l); auto.
    + eapply Permutation_in; [apply Permutation_sym; exact P|exact I2].
    + assert (e_rtime e' <= e_rtime e) by (apply M1; eapply Permutation_in; [apply Permutation_sym; exact P|exact I2]).
      assert (e_rtime e <= e_rtime e') by (apply M2; eapply Permutation_in; [exact P|exact I1]). lia.
  - apply pick_none in H2. destruct H2 as [H2 _]. subst. apply Permutation_sym, Permutation_nil in P. subst. discriminate.
  - apply pick_none in H1. destruct H1 as [H1 _]. subst. apply Permutation_nil in P. subst. discriminate.
  - reflexivity.
Qed.

Lemma filter_perm {A} (f : A -> bool) l l' : Permutation l l' -> Permutation (filter f l) (filter f l').
Proof.
  induction 1; cbn.
  - constructor.
  - destruct (f x); [constructor|]; assumption.
  - destruct (f x), (f y); try apply perm_swap; try (constructor; apply Permutation_refl); apply Permutation_refl.
  - eapply Permutation_trans; eassumption.
Qed.

Theorem order_independent s st l l' :
  Permutation l l' ->
  (forall e, In e (matching s l) -> bad e = false) ->
  NoDup (map e_rtime (filter (tempc st) (matching s l))) ->
  scan s st None l = scan s st None l'.
Proof.
  intros P Hnb Hnd. rewrite !scan_is_spec. unfold entries_spec. fold (matching s l) (matching s l').
  assert (PM : Permutation (matching s l) (matching s l')) by (apply filter_perm; exact P).
  destruct (find (stopper st) (matching s l)) as [x|] eqn:F1; destruct (find (stopper st) (matching s l')) as [x'|] eqn:F2.
  - apply find_some in F1. apply find_some in F2. destruct F1 as [I1 _], F2 as [I2 _].
    rewrite (Hnb x I1). rewrite (Hnb x'); [reflexivity|]. eapply Permutation_in; [apply Permutation_sym; exact PM|exact I2].
  - exfalso. apply find_some in F1. destruct F1 as [I1 S1]. pose proof (find_none _ _ F2 x (Permutation_in _ PM I1)). congruence.
  - exfalso. apply find_some in F2. destruct F2 as [I2 S2]. pose proof (find_none _ _ F1 x' (Permutation_in _ (Permutation_sym PM) I2)). congruence.
  - f_equal. apply pick_perm; [apply filter_perm; exact PM|exact Hnd].
Qed.

(* non-vacuity: hold then remove (later) is OK; remove then hold (later) is Revoked; a later
   invalidity date excuses a key-compromise entry only when a signing time is given *)
Example hold_remove_example :
  let hold t := Entry 7 6 t [] in let remove t := Entry 7 8 t [] in
  scan 7 0 None [hold 1; Entry 9 1 5 []; remove 2] = EOk /\
  scan 7 0 None [remove 1; hold 2] = ERevoked /\
  scan 7 100 None [Entry 7 1 1 [InvOk 101]] = EOk /\
  scan 7 0 None [Entry 7 1 1 [InvOk 101]] = ERevoked /\
  scan 7 100 None [Entry 7 6 1 [InvOk 101]; Entry 7 1 1 []] = ERevoked.
Proof. repeat split. Qed.

(* ---- base / delta split ---- *)
Lemma matching_app s l1 l2 : matching s (l1 ++ l2) = matching s l1 ++ matching s l2.
Proof. unfold matching. apply filter_app. Qed.

(* a delta that lists nothing for the serial leaves the verdict of the base alone *)
Theorem delta_silent s st base delta :
  (forall e, In e delta -> e_serial e <> s) ->
  scan s st None (base ++ delta) = scan s st None base.
Proof.
  intros H. apply other_serials_irrelevant2. rewrite matching_app.
  assert (Hm : matching s delta = []).
  { unfold matching. induction delta as [|x r IH]; [reflexivity|]. cbn [filter].
    destruct (e_serial x =? s) eqn:E.
    - apply Z.eqb_eq in E. exfalso. apply (H x); [left; reflexivity|exact E].
    - apply IH. intros e He. apply H. right. exact He. }
  rewrite Hm. apply app_nil_r.
Qed.

(* a counting permanent entry in the delta revokes whatever the base says, unless an entry is unusable *)
Theorem delta_permanent_revokes s st base delta :
  (forall e, In e (base ++ delta) -> e_serial e = s -> bad e = false) ->
  (exists e, In e delta /\ e_serial e = s /\ counts st e = true /\ permanent e = true) ->
  scan s st None (base ++ delta) = ERevoked.
Proof.
  intros Hnb [e [Hin H]]. apply permanent_revoked; [exact Hnb|].
  exists e. split; [apply in_or_app; right; exact Hin|exact H].
Qed.

(* an unusable entry for the serial, in either list, never yields OK *)
Theorem split_bad_never_ok s st base delta :
  (exists e, (In e base \/ In e delta) /\ e_serial e = s /\ bad e = true) ->
  scan s st None (base ++ delta) <> EOk.
Proof.
  intros [e [Hin H]]. apply bad_never_ok. exists e. split; [apply in_or_app; exact Hin|exact H].
Qed.
