(* C05: the distribution-point loop of crl.CertCheckStatus and the base/delta validation. *)
From NCG Require Import Model.Crl Proofs.Crl.
From Coq Require Import Lia.

(* ============ declarative vocabulary ============ *)

(* an authentic, current CRL without unknown critical list extension *)
Definition CrlGood (now : Z) (c : crl) : Prop :=
  l_sig_ok c = true /\ l_next c <> 0 /\ now <= l_next c /\ (forall x, In x (l_exts c) -> lext_bad x = false).

(* the delta is equally authentic and current, has a larger CRL number than the base and a
   delta indicator not above the base's number *)
Definition DeltaGood (now : Z) (base d : crl) : Prop :=
  CrlGood now d /\
  exists nd nb ind, l_number d = Some nd /\ l_number base = Some nb /\ nb < nd /\
                    find_indicator (l_exts d) = Some (Some ind) /\ ind <= nb.

Definition BundleGood (now : Z) (b : bundle) : Prop :=
  CrlGood now (b_base b) /\ match b_delta b with None => True | Some d => DeltaGood now (b_base b) d end.

Lemma crl_good_iff now c : validate_crl now c = true <-> CrlGood now c.
Proof.
  unfold validate_crl, CrlGood. rewrite !andb_true_iff, !negb_true_iff, Z.eqb_neq, Z.ltb_ge.
  split.
  - intros [[[S N] L] X]. repeat split; auto.
    intros x Hx. destruct (lext_bad x) eqn:B; [|reflexivity].
    assert (existsb lext_bad (l_exts c) = true) by (apply existsb_exists; exists x; auto). congruence.
  - intros [S [N [L X]]]. repeat split; auto.
    destruct (existsb lext_bad (l_exts c)) eqn:E; [|reflexivity].
    apply existsb_exists in E. destruct E as [x [Hx Bx]]. rewrite (X x Hx) in Bx. discriminate.
Qed.

Lemma bundle_good_iff now b : validate_bundle now b = true <-> BundleGood now b.
Proof.
  unfold validate_bundle, BundleGood. rewrite andb_true_iff, crl_good_iff.
  destruct (b_delta b) as [d|]; [|tauto].
  unfold DeltaGood. rewrite andb_true_iff, crl_good_iff.
  split.
  - intros [G [Gd H]]. split; [exact G|]. split; [exact Gd|].
    destruct (l_number d) as [nd|]; [|discriminate]. destruct (l_number (b_base b)) as [nb|]; [|discriminate].
    apply andb_true_iff in H. destruct H as [H1 H2]. apply Z.ltb_lt in H1.
    destruct (find_indicator (l_exts d)) as [[ind|]|]; try discriminate. apply Z.leb_le in H2.
    exists nd, nb, ind. repeat split; auto.
  - intros [G [Gd [nd [nb [ind [E1 [E2 [L [E3 L2]]]]]]]]]. split; [exact G|]. split; [exact Gd|].
    rewrite E1, E2, E3. apply andb_true_iff. split; [apply Z.ltb_lt; exact L|apply Z.leb_le; exact L2].
Qed.

Section Spec.
Variable fetch : Z -> fetch_outcome.
Variables now st serial : Z.
Variable freshest : bool.

(* what the property demands of one distribution point: a CRL was obtained, it is authentic and
   current (with its delta), a freshest-CRL pointer in the certificate is honoured, and no entry
   for this certificate carries an unknown critical (or unusable) extension *)
Definition PointGood (u : Z) (b : bundle) : Prop :=
  fetch u = Fetched b /\ (freshest = true -> b_delta b <> None) /\ BundleGood now b /\
  scan serial st None (bundle_entries b) <> EErr.
Definition PointClear (u : Z) : Prop :=
  exists b, PointGood u b /\ scan serial st None (bundle_entries b) = EOk.
Definition PointRevokes (u : Z) : Prop :=
  exists b, PointGood u b /\ scan serial st None (bundle_entries b) = ERevoked.
Definition PointFails (u : Z) : Prop := forall b, ~ PointGood u b.

Notation pc := (point_check fetch now st serial freshest).

Lemma point_check_some u r :
  pc u = Some r <-> exists b, PointGood u b /\ scan serial st None (bundle_entries b) = r.
Proof.
  unfold point_check, PointGood. destruct (fetch u) as [|b] eqn:F.
  - split; [discriminate|]. intros [b [[H _] _]]. discriminate.
  - destruct (b_delta b) as [d|] eqn:D.
    + rewrite andb_false_r.
      destruct (validate_bundle now b) eqn:V; cbn [negb].
      * apply bundle_good_iff in V.
        destruct (scan serial st None (bundle_entries b)) eqn:S.
        all: split; [first [discriminate | intros H; inversion H; subst r; exists b; split; [split; [reflexivity|split; [congruence|split; [exact V|congruence]]]|congruence]]
                    | intros [b0 [[E [_ [_ Hn]]] Hs]]; inversion E; subst b0; congruence].
      * split; [discriminate|]. intros [b0 [[E [_ [G _]]] _]]. inversion E; subst b0. apply bundle_good_iff in G. congruence.
    + destruct freshest eqn:Fr; cbn [andb].
      * split; [discriminate|]. intros [b0 [[E [Hf _]] _]]. inversion E; subst b0. exfalso. apply Hf; [reflexivity|exact D].
      * destruct (validate_bundle now b) eqn:V; cbn [negb].
        -- apply bundle_good_iff in V.
           destruct (scan serial st None (bundle_entries b)) eqn:S.
           all: split; [first [discriminate | intros H; inversion H; subst r; exists b; split; [split; [reflexivity|split; [congruence|split; [exact V|congruence]]]|congruence]]
                       | intros [b0 [[E [_ [_ Hn]]] Hs]]; inversion E; subst b0; congruence].
        -- split; [discriminate|]. intros [b0 [[E [_ [G _]]] _]]. inversion E; subst b0. apply bundle_good_iff in G. congruence.
Qed.

Lemma point_check_never_err u : pc u <> Some EErr.
Proof.
  intros H. apply point_check_some in H. destruct H as [b [[_ [_ [_ Hn]]] Hs]]. congruence.
Qed.

Lemma point_check_none u : pc u = None <-> PointFails u.
Proof.
  unfold PointFails. split.
  - intros H b G. assert (pc u = Some (scan serial st None (bundle_entries b))) by (apply point_check_some; exists b; auto). congruence.
  - intros H. destruct (pc u) as [r|] eqn:P; [|reflexivity]. apply point_check_some in P. destruct P as [b [G _]]. exfalso. exact (H b G).
Qed.

Definition clear_b (u : Z) : bool := match pc u with Some EOk => true | _ => false end.

Lemma clear_b_iff u : clear_b u = true <-> PointClear u.
Proof.
  unfold clear_b, PointClear. destruct (pc u) as [r|] eqn:P.
  - destruct r; (split; [intros H; try discriminate; apply point_check_some in P; exact P|]).
    + reflexivity.
    + intros H. apply point_check_some in H. congruence.
    + intros H. apply point_check_some in H. congruence.
  - split; [discriminate|]. intros H. apply point_check_some in H. congruence.
Qed.

Fixpoint upto_nc (l : list Z) : list Z :=
  match l with [] => [] | x :: t => if negb (clear_b x) then [x] else x :: upto_nc t end.

Definition stop_result (u : Z) : rres := match pc u with Some ERevoked => RRevoked | _ => RUnknown end.

(* the loop stops at the first point that is not clear *)
Lemma crl_loop_char : forall urls acc log,
  crl_loop fetch now st serial freshest urls acc log =
  match find (fun u => negb (clear_b u)) urls with
  | None => (CRes ROK (rev acc ++ map (SRes ROK) urls) MCRL, rev log ++ urls)
  | Some u => (CRes (stop_result u) [SRes (stop_result u) u] MCRL, rev log ++ upto_nc urls)
  end.
Proof.
  induction urls as [|u r IH]; intros acc log; cbn [crl_loop find map upto_nc].
  - rewrite !app_nil_r. reflexivity.
  - destruct (clear_b u) eqn:C; cbn [negb].
    + unfold clear_b in C. destruct (pc u) as [[| |]|] eqn:P; try discriminate.
      rewrite IH. destruct (find _ r); cbn [rev]; rewrite <- ?app_assoc; reflexivity.
    + unfold stop_result. unfold clear_b in C. destruct (pc u) as [[| |]|] eqn:P; try discriminate.
      * cbn [rev]. reflexivity.
      * exfalso. exact (point_check_never_err u P).
      * cbn [rev]. reflexivity.
Qed.

Theorem crl_check_exact urls : urls <> [] ->
  fst (crl_check fetch now st serial freshest urls) =
  match find (fun u => negb (clear_b u)) urls with
  | None => CRes ROK (map (SRes ROK) urls) MCRL
  | Some u => CRes (stop_result u) [SRes (stop_result u) u] MCRL
  end.
Proof.
  intros Hne. destruct urls as [|u0 r0]; [contradiction|]. unfold crl_check. rewrite crl_loop_char.
  destruct (find _ (u0 :: r0)); reflexivity.
Qed.

Lemma find_split {A} (f : A -> bool) : forall l u, find f l = Some u ->
  exists l1 l2, l = l1 ++ u :: l2 /\ f u = true /\ forall v, In v l1 -> f v = false.
Proof.
  induction l as [|x r IH]; intros u H; [discriminate|]. cbn [find] in H. destruct (f x) eqn:Fx.
  - inversion H; subst x. exists [], r. split; [reflexivity|]. split; [exact Fx|]. intros v [].
  - destruct (IH u H) as [l1 [l2 [E [Fu Hl]]]]. exists (x :: l1), l2. split; [rewrite E; reflexivity|]. split; [exact Fu|].
    intros v [<-|Hv]; [exact Fx|exact (Hl v Hv)].
Qed.

(* OK if and only if EVERY distribution point delivered an authentic current CRL (bundle) that
   does not list the certificate *)
Theorem ok_iff urls : urls <> [] ->
  (cr_result (fst (crl_check fetch now st serial freshest urls)) = ROK <-> forall u, In u urls -> PointClear u).
Proof.
  intros Hne. rewrite crl_check_exact by exact Hne.
  destruct (find _ urls) as [u|] eqn:F.
  - apply find_some in F as F'. destruct F' as [Hin Hn]. apply negb_true_iff in Hn.
    split.
    + cbn. unfold stop_result. destruct (pc u) as [[| |]|]; discriminate.
    + intros H. apply H in Hin. apply clear_b_iff in Hin. congruence.
  - split; [|reflexivity]. intros _ u Hu. apply clear_b_iff. eapply find_none in F; [|exact Hu]. apply negb_false_iff in F. exact F.
Qed.

(* Revoked exactly when the first point that is not clear lists the certificate (all earlier
   points were clear); a failure at that point gives Unknown *)
Theorem not_ok_cases urls : urls <> [] ->
  (exists u, In u urls /\ ~ PointClear u) ->
  exists l1 u l2, urls = l1 ++ u :: l2 /\ (forall v, In v l1 -> PointClear v) /\
    ((PointRevokes u /\ fst (crl_check fetch now st serial freshest urls) = CRes RRevoked [SRes RRevoked u] MCRL) \/
     (PointFails u /\ fst (crl_check fetch now st serial freshest urls) = CRes RUnknown [SRes RUnknown u] MCRL)).
Proof.
  intros Hne [w [Hw Hnc]]. rewrite crl_check_exact by exact Hne.
  destruct (find _ urls) as [u|] eqn:F.
  - destruct (find_split _ urls u F) as [l1 [l2 [E [Hu Hl]]]]. exists l1, u, l2. split; [exact E|]. split.
    + intros v Hv. apply clear_b_iff. specialize (Hl v Hv). apply negb_false_iff in Hl. exact Hl.
    + apply negb_true_iff in Hu. unfold clear_b in Hu. unfold stop_result. destruct (pc u) as [[| |]|] eqn:P; try discriminate.
      * left. split; [|reflexivity]. apply point_check_some in P. exact P.
      * exfalso. exact (point_check_never_err u P).
      * right. split; [|reflexivity]. apply point_check_none. exact P.
  - exfalso. eapply find_none in F; [|exact Hw]. apply negb_false_iff in F. apply clear_b_iff in F. exact (Hnc F).
Qed.

(* shape of the server results: one OK entry per distribution point, or a single Revoked /
   Unknown entry *)
Definition CrlEntries (urls : list Z) (verdict : rres) (srv : list sres) : Prop :=
  match verdict with
  | ROK => srv = map (SRes ROK) urls
  | RNonRevokable => False
  | RUnknown => exists u, In u urls /\ srv = [SRes RUnknown u]
  | RRevoked => exists u, In u urls /\ srv = [SRes RRevoked u]
  end.

Theorem shape urls : urls <> [] ->
  let c := fst (crl_check fetch now st serial freshest urls) in
  cr_method c = MCRL /\ CrlEntries urls (cr_result c) (cr_servers c).
Proof.
  intros Hne c. subst c. rewrite crl_check_exact by exact Hne. unfold CrlEntries.
  destruct (find _ urls) as [u|] eqn:F.
  - apply find_some in F. destruct F as [Hin _]. cbn. unfold stop_result. destruct (pc u) as [[| |]|]; (split; [reflexivity|]); exists u; auto.
  - cbn. auto.
Qed.

Theorem no_points : crl_check fetch now st serial freshest [] = (CRes RNonRevokable [SRes RNonRevokable 0] MCRL, []).
Proof. reflexivity. Qed.

(* the fetch log: every point up to and including the first that is not clear; nothing after *)
Theorem log_prefix urls :
  exists rest, urls = snd (crl_check fetch now st serial freshest urls) ++ rest /\
    (cr_result (fst (crl_check fetch now st serial freshest urls)) = ROK -> rest = []).
Proof.
  destruct urls as [|u0 r0]; [exists []; split; [reflexivity|auto]|].
  unfold crl_check. rewrite crl_loop_char. cbn [rev app].
  destruct (find _ (u0 :: r0)) as [u|] eqn:F.
  - cbn [snd fst cr_result].
    assert (H : forall l, exists rest, l = upto_nc l ++ rest).
    { induction l as [|x t [rest IH]]; [exists []; reflexivity|]. cbn [upto_nc]. destruct (negb (clear_b x)); [exists t; reflexivity|]. exists rest. cbn. f_equal. exact IH. }
    destruct (H (u0 :: r0)) as [rest Hr]. exists rest. split; [exact Hr|].
    unfold stop_result. destruct (pc u) as [[| |]|]; discriminate.
  - exists []. cbn [snd]. rewrite app_nil_r. split; [reflexivity|auto].
Qed.
End Spec.

(* ---- delta CRL boundaries ---- *)
Theorem delta_boundaries now base d nb :
  CrlGood now base -> CrlGood now d -> l_number base = Some nb ->
  (* equal numbers are rejected, a larger number is required *)
  (forall nd, l_number d = Some nd -> nd <= nb -> validate_bundle now (Bundle base (Some d)) = false) /\
  (* indicator = base number accepted, base number + 1 rejected *)
  (forall nd ind, l_number d = Some nd -> nb < nd -> find_indicator (l_exts d) = Some (Some ind) ->
     (validate_bundle now (Bundle base (Some d)) = true <-> ind <= nb)) /\
  (* no / unparsable indicator, or no CRL number: rejected *)
  (find_indicator (l_exts d) = None \/ find_indicator (l_exts d) = Some None \/ l_number d = None ->
     validate_bundle now (Bundle base (Some d)) = false).
Proof.
  intros Gb Gd Nb. apply crl_good_iff in Gb. apply crl_good_iff in Gd.
  unfold validate_bundle. cbn [b_base b_delta]. rewrite Gb, Gd, Nb. cbn [andb].
  split; [|split].
  - intros nd E L. rewrite E. assert (nb <? nd = false) by (apply Z.ltb_ge; exact L). rewrite H. reflexivity.
  - intros nd ind E L I. rewrite E, I. assert (nb <? nd = true) by (apply Z.ltb_lt; exact L). rewrite H. cbn [andb]. apply Z.leb_le.
  - intros [H|[H|H]]; rewrite H; destruct (l_number d); try reflexivity; destruct (nb <? z); reflexivity.
Qed.

(* non-vacuity: two clean points give OK; a second point with an expired CRL gives Unknown; a
   first point listing the certificate gives Revoked even though the second would fail *)
Example crl_check_example :
  let good := Crl true 200 [LOther false] (Some 5) [] in
  let expired := Crl true 50 [] (Some 5) [] in
  let lists := Crl true 200 [] (Some 5) [Entry 7 1 10 []] in
  let f1 := fun u : Z => Fetched (Bundle good None) in
  let f2 := fun u : Z => if u =? 2 then Fetched (Bundle expired None) else Fetched (Bundle good None) in
  let f3 := fun u : Z => if u =? 1 then Fetched (Bundle lists None) else FetchErr in
  cr_result (fst (crl_check f1 100 0 7 false [1; 2])) = ROK /\
  cr_result (fst (crl_check f2 100 0 7 false [1; 2])) = RUnknown /\
  cr_result (fst (crl_check f3 100 0 7 false [1; 2])) = RRevoked.
Proof. repeat split; reflexivity. Qed.

(* ---- the passage of time only ever invalidates: a refused bundle is refused at every later
   instant, an accepted one was acceptable at every earlier instant ---- *)
Lemma validate_crl_antitone now now' c : now <= now' -> validate_crl now' c = true -> validate_crl now c = true.
Proof.
  unfold validate_crl. intros L H.
  destruct (l_sig_ok c); [|discriminate]. destruct (l_next c =? 0); [discriminate|].
  cbn [andb negb] in *. destruct (existsb lext_bad (l_exts c)); [rewrite andb_false_r in H; discriminate|].
  rewrite andb_true_r in *. destruct (l_next c <? now') eqn:E; [discriminate|].
  apply Z.ltb_ge in E. assert (l_next c <? now = false) as -> by (apply Z.ltb_ge; lia). reflexivity.
Qed.

Theorem bundle_antitone now now' b : now <= now' -> validate_bundle now' b = true -> validate_bundle now b = true.
Proof.
  unfold validate_bundle. intros L H. apply andb_true_iff in H. destruct H as [H1 H2].
  rewrite (validate_crl_antitone _ _ _ L H1). cbn [andb].
  destruct (b_delta b) as [d|]; [|reflexivity].
  apply andb_true_iff in H2. destruct H2 as [H2 H3].
  rewrite (validate_crl_antitone _ _ _ L H2). exact H3.
Qed.

Theorem expired_stays_refused now now' b : now <= now' -> validate_bundle now b = false -> validate_bundle now' b = false.
Proof.
  intros L H. destruct (validate_bundle now' b) eqn:E; [|reflexivity].
  rewrite (bundle_antitone _ _ _ L E) in H. discriminate.
Qed.
