From NCG Require Import Model.Object.
From Coq Require Import Lia.

(* ===== the reference machine: what a caller may observe =====
   Shown content: None = "no signature present", Some (c, v) = content c (v: its signature verifies). *)
Definition shown := option (Z * bool).

Definition obs (s : obj) : shown :=
  match o_raw s, o_inner s with
  | Some _, Some m => Some (m_content m, m_sigvalid m)
  | _, _ => None
  end.

(* allowed transitions of the reference machine *)
Definition ref_step (a : shown) (o : op) (b : shown) (x : out) : Prop :=
  match o with
  | SignOk r => b = Some (r, true) /\ x = OBytes r
  | SignFailEarly _ | SignFailInner _ | SignFailLate _ => (b = a \/ b = None) /\ x = OErr
  | Verify => b = a /\ x = match a with None => ONoSig | Some (c, v) => if v then OContent c else OIntegrity end
  | Content => b = a /\ x = match a with None => ONoSig | Some (c, _) => OContent c end
  end.

Lemma step_refines s o : ref_step (obs s) o (obs (fst (step s o))) (snd (step s o)).
Proof.
  destruct s as [raw inner]. destruct o; cbn.
  - auto.
  - auto.
  - auto.
  - split; [right; reflexivity|reflexivity].
  - split; [reflexivity|]. unfold obs. cbn. destruct raw; [|reflexivity]. destruct inner as [m|]; [|reflexivity]. reflexivity.
  - split; [reflexivity|]. unfold obs. cbn. destruct raw; [|reflexivity]. destruct inner as [m|]; reflexivity.
Qed.

(* every history is a run of the reference machine *)
Inductive ref_run : shown -> list op -> list out -> shown -> Prop :=
| rr_nil a : ref_run a [] [] a
| rr_cons a o b x ops xs c : ref_step a o b x -> ref_run b ops xs c -> ref_run a (o :: ops) (x :: xs) c.

Theorem refines : forall ops s, ref_run (obs s) ops (run s ops) (obs (final s ops)).
Proof.
  induction ops as [|o r IH]; intros s; cbn [run final].
  - constructor.
  - pose proof (step_refines s o) as H. destruct (step s o) as [s' x] eqn:E. cbn [fst snd] in *.
    econstructor; [exact H|apply IH].
Qed.

(* verification and content extraction are pure *)
Theorem pure s o : (o = Verify \/ o = Content) -> fst (step s o) = s /\ snd (step (fst (step s o)) o) = snd (step s o).
Proof. intros [->| ->]; split; reflexivity. Qed.

Theorem fresh_no_signature : snd (step new_obj Verify) = ONoSig /\ snd (step new_obj Content) = ONoSig.
Proof. split; reflexivity. Qed.

(* after a successful signing the object's content is that of the request, whatever came before *)
Theorem after_sign s r :
  let s' := fst (step s (SignOk r)) in
  snd (step s (SignOk r)) = OBytes r /\ snd (step s' Verify) = OContent r /\ snd (step s' Content) = OContent r /\
  s' = parsed r true.
Proof. repeat split; reflexivity. Qed.

(* a failing signing attempt never becomes observable: afterwards the object shows its previous
   state or no signature *)
Theorem failed_sign_not_observable s o r :
  (o = SignFailEarly r \/ o = SignFailInner r \/ o = SignFailLate r) ->
  snd (step s o) = OErr /\ (obs (fst (step s o)) = obs s \/ obs (fst (step s o)) = None).
Proof.
  intros [->|[->| ->]]; cbn; split; auto.
Qed.

(* over whole histories: content c is shown only if the object started showing c or some
   SUCCESSFUL signing of c occurred in the history *)
Theorem shown_only_if_signed : forall ops s c v,
  obs (final s ops) = Some (c, v) -> obs s = Some (c, v) \/ (In (SignOk c) ops /\ v = true).
Proof.
  induction ops as [|o r IH]; intros s c v H; cbn [final] in H; [left; exact H|].
  apply IH in H. destruct H as [H|[H1 H2]]; [|right; split; [right; exact H1|exact H2]].
  destruct o; cbn in H.
  - inversion H; subst. right. split; [left; reflexivity|reflexivity].
  - left; exact H.
  - left; exact H.
  - discriminate.
  - left; exact H.
  - left; exact H.
Qed.

Theorem outputs_only_if_signed : forall ops s c,
  In (OContent c) (run s ops) -> (exists v, obs s = Some (c, v)) \/ In (SignOk c) ops.
Proof.
  induction ops as [|o r IH]; intros s c H; cbn [run] in H; [contradiction|].
  destruct (step s o) as [s' x] eqn:E. destruct H as [H|H].
  - subst x. destruct s as [raw inner]. destruct o; cbn in E; inversion E; subst; clear E.
    + left. unfold obs. cbn. destruct raw; [|discriminate]. destruct inner as [m|]; [|discriminate].
      destruct (m_sigvalid m) eqn:V; [|discriminate]. inversion H1; subst. exists true. reflexivity.
    + left. unfold obs. cbn. destruct raw; [|discriminate]. destruct inner as [m|]; [|discriminate].
      inversion H1; subst. eexists; reflexivity.
  - apply IH in H. destruct H as [[v H]|H]; [|right; right; exact H].
    assert (S' : s' = fst (step s o)) by (rewrite E; reflexivity). subst s'.
    destruct o; cbn in H.
    + inversion H; subst. right; left; reflexivity.
    + left; eexists; exact H.
    + left; eexists; exact H.
    + discriminate.
    + left; eexists; exact H.
    + left; eexists; exact H.
Qed.

Example history_example :
  run (parsed 1 true) [SignFailLate 2; Verify; SignOk 3; SignFailEarly 4; Content; SignFailLate 5; Content] =
  [OErr; ONoSig; OBytes 3; OErr; OContent 3; OErr; ONoSig].
Proof. reflexivity. Qed.
