(* C17: every schedule of the fan-out ends in the result of the sequential model; panics are routed to
   the caller; the panic send never blocks; no goroutine is left behind; steps of different threads that
   are enabled together write different slots. *)
From NCG Require Import Model.Sched.

Section Sched.
Variables R V : Type.
Variable n : nat.
Variable kind : nat -> bool.
Variable check : nat -> outcome R V.
Variable nonrev : R.
Notation state := (state R V).
Notation step := (step R V n kind check nonrev).
Notation run := (run R V n kind check nonrev).
Notation init := (init R V).

Definition expected (i : nat) : option R :=
  if i =? n then Some nonrev
  else if kind i then match check i with Res r => Some r | Pan _ => None end
  else Some nonrev.

Record Inv (s : state) : Prop := {
  i_wg : wg s = length (running s);
  i_nodup : NoDup (running s);
  i_run : forall i, In i (running s) -> i < next s /\ kind i = true;
  i_next : next s <= n;
  i_slot : forall i r, slots s i = Some r -> expected i = Some r;
  i_done_res : forall i r, i < next s -> kind i = true -> ~ In i (running s) -> check i = Res r -> slots s i = Some r;
  i_done_pan : forall i v, i < next s -> kind i = true -> ~ In i (running s) -> check i = Pan v -> In v (chan s);
  i_inline : forall i, i < next s -> kind i = false -> slots s i = Some nonrev;
  i_chan : forall v, In v (chan s) -> exists i, i < n /\ kind i = true /\ check i = Pan v;
  i_cap : length (chan s) + length (running s) <= next s;
  i_root : root s = true -> next s = n /\ slots s n = Some nonrev;
  i_waited : waited s = true -> root s = true /\ running s = [] }.

Lemma inv_init : Inv init.
Proof. constructor; cbn; intros; try lia; try contradiction; try discriminate; auto using NoDup_nil. Qed.

Lemma in_remove1 i j l : In j (remove1 i l) <-> In j l /\ j <> i.
Proof. unfold remove1. rewrite filter_In. rewrite negb_true_iff, Nat.eqb_neq. tauto. Qed.

Lemma nodup_remove1 i l : NoDup l -> NoDup (remove1 i l).
Proof. apply NoDup_filter. Qed.

Lemma len_remove1 i l : NoDup l -> In i l -> S (length (remove1 i l)) = length l.
Proof.
  induction l as [|a l IH]; intros Hn Hin; [contradiction|].
  inversion Hn as [|? ? Hna Hn']; subst. unfold remove1 in *. cbn [filter].
  destruct (Nat.eqb a i) eqn:E; cbn [negb].
  - apply Nat.eqb_eq in E; subst a. f_equal.
    clear IH Hin Hn. induction l as [|b l IHl]; [reflexivity|]. cbn [filter].
    destruct (Nat.eqb b i) eqn:E2.
    + apply Nat.eqb_eq in E2; subst. exfalso; apply Hna; left; reflexivity.
    + cbn [negb length]. f_equal. apply IHl. * intro H; apply Hna; right; exact H. * inversion Hn'; assumption.
  - cbn [length]. f_equal. apply IH; [exact Hn'|]. destruct Hin as [->|H]; [rewrite Nat.eqb_refl in E; discriminate|exact H].
Qed.

Lemma existsb_in i l : existsb (Nat.eqb i) l = true <-> In i l.
Proof. rewrite existsb_exists. split; [intros [x [H E]]; apply Nat.eqb_eq in E; subst; exact H | intro H; exists i; split; [exact H|apply Nat.eqb_refl]]. Qed.

Lemma upd_same (f : nat -> option R) i r : upd f i r i = Some r. Proof. unfold upd; rewrite Nat.eqb_refl; reflexivity. Qed.
Lemma upd_other (f : nat -> option R) i r j : j <> i -> upd f i r j = f j.
Proof. intro H; unfold upd. destruct (Nat.eqb j i) eqn:E; [apply Nat.eqb_eq in E; contradiction|reflexivity]. Qed.

Lemma expected_lt i : i < n -> expected i = if kind i then match check i with Res r => Some r | Pan _ => None end else Some nonrev.
Proof. intro H. unfold expected. destruct (i =? n) eqn:E; [apply Nat.eqb_eq in E; lia|reflexivity]. Qed.

Lemma inv_step s a s' : Inv s -> step s a = Some s' -> Inv s'.
Proof.
  intros I H. destruct a; cbn [step] in H.
  - (* Spawn *)
    destruct ((next s <? n) && negb (root s)) eqn:G; [|discriminate].
    apply andb_true_iff in G. destruct G as [G1 G2]. apply Nat.ltb_lt in G1. apply negb_true_iff in G2.
    destruct (kind (next s)) eqn:K; inversion H; subst s'; clear H; constructor; cbn.
    + f_equal. apply I.
    + constructor; [|apply I]. intro Hin. apply I in Hin. lia.
    + intros i [<-|Hin]; [split; [lia|exact K]|]. apply I in Hin. split; [lia|tauto].
    + lia.
    + apply I.
    + intros i r Hi Hk Hn Hc. apply (i_done_res s I); auto. assert (i <> next s) by (intro; subst; apply Hn; left; reflexivity). lia.
    + intros i v Hi Hk Hn Hc. apply (i_done_pan s I i v); auto. assert (i <> next s) by (intro; subst; apply Hn; left; reflexivity). lia.
    + intros i Hi Hk. apply (i_inline s I); auto. assert (i <> next s) by (intro; subst; congruence). lia.
    + apply I.
    + pose proof (i_cap s I). lia.
    + intro Hr. congruence.
    + intro Hw. apply I in Hw. destruct Hw; congruence.
    + apply I.
    + apply I.
    + intros i Hin. apply I in Hin. split; [lia|tauto].
    + lia.
    + intros i r. unfold upd. destruct (Nat.eqb i (next s)) eqn:E.
      * apply Nat.eqb_eq in E; subst i. intro Hr; inversion Hr; subst. rewrite expected_lt by lia. rewrite K. reflexivity.
      * apply I.
    + intros i r Hi Hk Hn Hc. assert (i <> next s) by (intro; subst; congruence). rewrite upd_other by assumption. apply (i_done_res s I); auto. lia.
    + intros i v Hi Hk Hn Hc. assert (i <> next s) by (intro; subst; congruence). apply (i_done_pan s I i v); auto. lia.
    + intros i Hi Hk. destruct (Nat.eq_dec i (next s)) as [->|Hne]; [apply upd_same|]. rewrite upd_other by assumption. apply (i_inline s I); auto. lia.
    + apply I.
    + pose proof (i_cap s I). lia.
    + intro Hr. congruence.
    + intro Hw. apply I in Hw. destruct Hw; congruence.
  - (* Finish *)
    destruct (existsb (Nat.eqb i) (running s)) eqn:G; [|discriminate]. apply existsb_in in G.
    pose proof (i_run s I i G) as [Hlt Hk].
    pose proof (len_remove1 i (running s) (i_nodup s I) G) as Hlen.
    destruct (check i) as [r|v] eqn:C.
    + inversion H; subst s'; clear H; constructor; cbn.
      * rewrite (i_wg s I). lia.
      * apply nodup_remove1, I.
      * intros j Hin. apply in_remove1 in Hin. apply I. tauto.
      * apply I.
      * intros j r'. unfold upd. destruct (Nat.eqb j i) eqn:E.
        -- apply Nat.eqb_eq in E; subst j. intro Hr; inversion Hr; subst. pose proof (i_next s I). rewrite expected_lt by lia. rewrite Hk, C. reflexivity.
        -- apply I.
      * intros j r' Hj Hkj Hn Hc. destruct (Nat.eq_dec j i) as [->|Hne]; [rewrite upd_same; congruence|]. rewrite upd_other by assumption. apply (i_done_res s I); auto. intro Hin. apply Hn. apply in_remove1. tauto.
      * intros j v Hj Hkj Hn Hc. destruct (Nat.eq_dec j i) as [->|Hne]; [congruence|]. apply (i_done_pan s I j v); auto. intro Hin. apply Hn. apply in_remove1. tauto.
      * intros j Hj Hkj. assert (j <> i) by (intro; subst; congruence). rewrite upd_other by assumption. apply (i_inline s I); auto.
      * apply I.
      * pose proof (i_cap s I). lia.
      * intro Hr. destruct (i_root s I Hr) as [Hn Hs]. split; [exact Hn|]. rewrite upd_other by lia. exact Hs.
      * intro Hw. apply I in Hw. destruct Hw as [_ Hw]. rewrite Hw in G. contradiction.
    + destruct (length (chan s) <? S n) eqn:Cap; [|discriminate]. inversion H; subst s'; clear H; constructor; cbn.
      * rewrite (i_wg s I). lia.
      * apply nodup_remove1, I.
      * intros j Hin. apply in_remove1 in Hin. apply I. tauto.
      * apply I.
      * apply I.
      * intros j r' Hj Hkj Hn Hc. destruct (Nat.eq_dec j i) as [->|Hne]; [congruence|]. apply (i_done_res s I); auto. intro Hin. apply Hn. apply in_remove1. tauto.
      * intros j v' Hj Hkj Hn Hc. apply in_or_app. destruct (Nat.eq_dec j i) as [->|Hne]; [right; left; congruence|]. left. apply (i_done_pan s I j v'); auto. intro Hin. apply Hn. apply in_remove1. tauto.
      * apply I.
      * intros v' Hin. apply in_app_or in Hin. destruct Hin as [Hin|[<-|[]]]; [apply I; exact Hin|]. exists i. pose proof (i_next s I). repeat split; [lia|exact Hk|exact C].
      * rewrite app_length. cbn. pose proof (i_cap s I). lia.
      * apply I.
      * intro Hw. apply I in Hw. destruct Hw as [_ Hw]. rewrite Hw in G. contradiction.
  - (* Root *)
    destruct ((next s =? n) && negb (root s)) eqn:G; [|discriminate]. apply andb_true_iff in G. destruct G as [G1 G2]. apply Nat.eqb_eq in G1.
    inversion H; subst s'; clear H; constructor; cbn; try apply I.
    + intros i r. unfold upd. destruct (Nat.eqb i n) eqn:E; [|apply I]. apply Nat.eqb_eq in E; subst i. intro Hr; inversion Hr; subst. unfold expected. rewrite Nat.eqb_refl. reflexivity.
    + intros i r Hi Hk Hn Hc. rewrite upd_other by lia. apply (i_done_res s I); auto.
    + intros i Hi Hk. rewrite upd_other by lia. apply (i_inline s I); auto.
    + intros _. split; [exact G1|apply upd_same].
    + intro Hw. apply I in Hw. apply negb_true_iff in G2. destruct Hw; congruence.
  - (* Wait *)
    destruct (root s && (wg s =? 0) && negb (waited s)) eqn:G; [|discriminate].
    apply andb_true_iff in G. destruct G as [G G3]. apply andb_true_iff in G. destruct G as [G1 G2]. apply Nat.eqb_eq in G2.
    inversion H; subst s'; clear H; constructor; cbn; try apply I.
    intros _. split; [exact G1|]. rewrite (i_wg s I) in G2. destruct (running s); [reflexivity|discriminate].
  - (* Drain *)
    destruct (waited s && match fin s with None => true | _ => false end) eqn:G; [|discriminate].
    inversion H; subst s'; clear H; constructor; cbn; apply I.
Qed.

Lemma inv_run tr : forall s s', Inv s -> run s tr = Some s' -> Inv s'.
Proof.
  induction tr as [|a tr IH]; cbn [run]; intros s s' I H; [inversion H; subst; exact I|].
  destruct (step s a) as [s1|] eqn:E; [|discriminate]. eapply IH; [eapply inv_step; eassumption|exact H].
Qed.

(* fin is only ever written by Drain, from a state satisfying Inv with waited = true *)
Definition FinOK (s : state) : Prop :=
  match fin s with
  | None => True
  | Some (inl rs) => (forall i, i < n -> kind i = true -> exists r, check i = Res r) /\ rs = map expected (seq 0 (S n))
  | Some (inr v) => exists i, i < n /\ kind i = true /\ check i = Pan v
  end.

Lemma finok_step s a s' : Inv s -> FinOK s -> step s a = Some s' -> FinOK s'.
Proof.
  intros I F H. destruct a; cbn [step] in H;
  try (match type of H with (if ?c then _ else _) = _ => destruct c eqn:G; [|discriminate] end).
  - destruct (kind (next s)); inversion H; subst; exact F.
  - destruct (check i); [inversion H; subst; exact F|]. destruct (_ <? _); [inversion H; subst; exact F|discriminate].
  - inversion H; subst; exact F.
  - inversion H; subst; exact F.
  - apply andb_true_iff in G. destruct G as [Gw _].
    destruct (i_waited s I Gw) as [Hroot Hrun]. destruct (i_root s I Hroot) as [Hn Hsn].
    inversion H; subst s'; clear H. unfold FinOK; cbn [fin].
    destruct (chan s) as [|v c] eqn:Hc.
    + assert (Hall : forall i, i < n -> kind i = true -> exists r, check i = Res r).
      { intros i Hi Hk. destruct (check i) as [r|v] eqn:C; [eauto|]. exfalso.
        assert (In v (chan s)) by (apply (i_done_pan s I i v); auto; [lia|rewrite Hrun; auto]). rewrite Hc in H. contradiction. }
      split; [exact Hall|]. change (slots s 0 :: map (slots s) (seq 1 n)) with (map (slots s) (seq 0 (S n))). apply map_ext_in. intros i Hi. apply in_seq in Hi.
      destruct (Nat.eq_dec i n) as [->|Hne].
      * rewrite Hsn. unfold expected. rewrite Nat.eqb_refl. reflexivity.
      * assert (Hlt : i < n) by lia. rewrite expected_lt by exact Hlt. destruct (kind i) eqn:K.
        -- destruct (Hall i Hlt K) as [r C]. rewrite C. apply (i_done_res s I); auto; [lia|rewrite Hrun; auto].
        -- apply (i_inline s I); auto. lia.
    + apply (i_chan s I). rewrite Hc. left; reflexivity.
Qed.

Theorem confluent tr s : run init tr = Some s -> FinOK s.
Proof.
  assert (G : forall tr s0 s, Inv s0 -> FinOK s0 -> run s0 tr = Some s -> FinOK s).
  { clear. induction tr as [|a tr IH]; cbn [run]; intros s0 s I F H; [inversion H; subst; exact F|].
    destruct (step s0 a) as [s1|] eqn:E; [|discriminate].
    eapply IH; [eapply inv_step; eassumption|eapply finok_step; eassumption|exact H]. }
  intro H. eapply G; [apply inv_init|exact I|exact H].
Qed.

(* the panic send never blocks: capacity is never reached while a goroutine is running *)
Theorem send_never_blocks tr s i : run init tr = Some s -> In i (running s) -> length (chan s) < S n.
Proof.
  intros H Hin. pose proof (inv_run tr init s inv_init H) as I.
  pose proof (i_cap s I). pose proof (i_next s I). destruct (running s); [contradiction|cbn in *; lia].
Qed.

(* ---- fin is written once, after Wait ---- *)
Lemma fin_waited_step s a s' : (fin s <> None -> waited s = true) -> step s a = Some s' -> (fin s' <> None -> waited s' = true).
Proof.
  intros F H. destruct a; cbn [Model.Sched.step] in H;
  try (match type of H with (if ?c then _ else _) = _ => destruct c eqn:G; [|discriminate] end).
  - destruct (kind (next s)); inversion H; subst; exact F.
  - destruct (check i); [inversion H; subst; exact F|]. destruct (_ <? _); [inversion H; subst; exact F|discriminate].
  - inversion H; subst; exact F.
  - inversion H; subst. intros _. reflexivity.
  - apply andb_true_iff in G. destruct G as [Gw _]. inversion H; subst. intros _. exact Gw.
Qed.

Lemma fin_waited tr : forall s0 s, (fin s0 <> None -> waited s0 = true) -> run s0 tr = Some s -> (fin s <> None -> waited s = true).
Proof.
  induction tr as [|a r IH]; cbn [Model.Sched.run]; intros s0 s F H; [inversion H; subst; exact F|].
  destruct (step s0 a) as [s1|] eqn:E; [|discriminate]. eapply IH; [eapply fin_waited_step; eassumption|exact H].
Qed.

(* every check returns only after all the goroutines it started have finished *)
Theorem all_done tr s : run init tr = Some s -> fin s <> None -> running s = [] /\ wg s = 0.
Proof.
  intros H Hf. pose proof (inv_run tr init s inv_init H) as I.
  assert (W : waited s = true) by (eapply (fin_waited tr init s); [cbn; congruence|exact H|exact Hf]).
  destruct (i_waited s I W) as [_ Hr]. split; [exact Hr|]. rewrite (i_wg s I), Hr. reflexivity.
Qed.

(* a panic raised inside a per-certificate check resurfaces on the caller: the call ends with one of
   the raised values and returns no results *)
Theorem panic_routed tr s x : run init tr = Some s -> fin s = Some x ->
  (exists i v, i < n /\ kind i = true /\ check i = Pan v) ->
  exists v i, x = inr v /\ i < n /\ kind i = true /\ check i = Pan v.
Proof.
  intros H Hf [i [v [Hi [Hk Hc]]]]. pose proof (confluent tr s H) as F. unfold FinOK in F. rewrite Hf in F.
  destruct x as [rs|v'].
  - destruct F as [Hall _]. destruct (Hall i Hi Hk) as [r Hr]. congruence.
  - destruct F as [j [Hj [Hkj Hcj]]]. exists v', j. auto.
Qed.

(* without a panic every schedule ends in the results of the sequential model, position by position *)
Theorem schedule_independent tr s x : run init tr = Some s -> fin s = Some x ->
  (forall i, i < n -> kind i = true -> exists r, check i = Res r) ->
  x = inl (map expected (seq 0 (S n))).
Proof.
  intros H Hf Hall. pose proof (confluent tr s H) as F. unfold FinOK in F. rewrite Hf in F.
  destruct x as [rs|v].
  - destruct F as [_ ->]. reflexivity.
  - destruct F as [j [Hj [Hkj Hcj]]]. destruct (Hall j Hj Hkj) as [r Hr]. congruence.
Qed.

(* two different schedules give the same outcome when nothing panics *)
Corollary confluence tr1 tr2 s1 s2 x1 x2 :
  run init tr1 = Some s1 -> run init tr2 = Some s2 -> fin s1 = Some x1 -> fin s2 = Some x2 ->
  (forall i, i < n -> kind i = true -> exists r, check i = Res r) -> x1 = x2.
Proof. intros. rewrite (schedule_independent tr1 s1 x1), (schedule_independent tr2 s2 x2); auto. Qed.

(* ---- progress and termination ---- *)
Theorem progress tr s : run init tr = Some s -> fin s = None -> exists a s', step s a = Some s'.
Proof.
  intros H Hf. pose proof (inv_run tr init s inv_init H) as I.
  destruct (root s) eqn:Rt.
  - destruct (running s) as [|i rest] eqn:Rn.
    + destruct (waited s) eqn:W.
      * exists Drain. cbn [Model.Sched.step]. rewrite W, Hf. cbn. eexists; reflexivity.
      * exists Wait. cbn [Model.Sched.step]. rewrite Rt, W. rewrite (i_wg s I), Rn. cbn. eexists; reflexivity.
    + exists (Finish i). cbn [Model.Sched.step]. rewrite Rn. cbn [existsb]. rewrite Nat.eqb_refl. cbn [orb].
      destruct (check i) as [r|v]; [eexists; reflexivity|].
      assert (C : length (chan s) <? S n = true).
      { apply Nat.ltb_lt. pose proof (i_cap s I). pose proof (i_next s I). rewrite Rn in H0. cbn in H0. lia. }
      rewrite C. eexists; reflexivity.
  - pose proof (i_next s I) as Hn. destruct (Nat.eq_dec (next s) n) as [E|E].
    + exists Root. cbn [Model.Sched.step]. rewrite Rt. assert (X : (next s =? n) = true) by (apply Nat.eqb_eq; exact E). rewrite X. cbn. eexists; reflexivity.
    + exists Spawn. cbn [Model.Sched.step]. rewrite Rt. assert (X : (next s <? n) = true) by (apply Nat.ltb_lt; lia). rewrite X. cbn.
      destruct (kind (next s)); eexists; reflexivity.
Qed.

Definition measure (s : state) : nat :=
  2 * (n - next s) + length (running s) + (if root s then 0 else 1) + (if waited s then 0 else 1) + (match fin s with None => 1 | _ => 0 end).

Theorem step_decreases s a s' : Inv s -> step s a = Some s' -> measure s' < measure s.
Proof.
  intros I H. unfold measure. destruct a; cbn [Model.Sched.step] in H.
  - destruct ((next s <? n) && negb (root s)) eqn:G; [|discriminate]. apply andb_true_iff in G. destruct G as [G1 G2]. apply Nat.ltb_lt in G1.
    destruct (kind (next s)); inversion H; subst; cbn; lia.
  - destruct (existsb (Nat.eqb i) (running s)) eqn:G; [|discriminate]. apply existsb_in in G.
    pose proof (len_remove1 i (running s) (i_nodup s I) G) as Hl.
    destruct (check i); [inversion H; subst; cbn; lia|]. destruct (_ <? _); [inversion H; subst; cbn; lia|discriminate].
  - destruct ((next s =? n) && negb (root s)) eqn:G; [|discriminate]. apply andb_true_iff in G. destruct G as [_ G2]. apply negb_true_iff in G2.
    inversion H; subst; cbn. rewrite G2. lia.
  - destruct (root s && (wg s =? 0) && negb (waited s)) eqn:G; [|discriminate]. apply andb_true_iff in G. destruct G as [_ G3]. apply negb_true_iff in G3.
    inversion H; subst; cbn. rewrite G3. lia.
  - destruct (waited s && match fin s with None => true | _ => false end) eqn:G; [|discriminate]. apply andb_true_iff in G. destruct G as [_ G2].
    destruct (fin s); [discriminate|]. inversion H; subst; cbn. lia.
Qed.

(* every schedule is finite: at most 2n+3 steps *)
Theorem schedule_bounded tr s : run init tr = Some s -> length tr + measure s <= 2 * n + 3.
Proof.
  assert (G : forall tr s0 s, Inv s0 -> run s0 tr = Some s -> length tr + measure s <= measure s0).
  { clear. induction tr as [|a r IH]; cbn [Model.Sched.run length]; intros s0 s I H; [inversion H; subst; lia|].
    destruct (step s0 a) as [s1|] eqn:E; [|discriminate].
    pose proof (step_decreases s0 a s1 I E). pose proof (IH s1 s (inv_step s0 a s1 I E) H). lia. }
  intros H. pose proof (G tr init s inv_init H) as B.
  assert (M : measure init = 2 * n + 3) by (unfold measure; cbn; lia). lia.
Qed.

(* ---- data-race freedom of the model: steps of different threads that are enabled in the same state
   never write the same result slot ---- *)
Theorem disjoint_footprints tr s i b s1 s2 x y :
  run init tr = Some s -> step s (Finish i) = Some s1 -> step s b = Some s2 -> b <> Finish i ->
  writes_slot R V n kind check s (Finish i) = Some x -> writes_slot R V n kind check s b = Some y -> x <> y.
Proof.
  intros H H1 H2 Hne Wx Wy. pose proof (inv_run tr init s inv_init H) as I.
  cbn [Model.Sched.step] in H1. destruct (existsb (Nat.eqb i) (running s)) eqn:G; [|discriminate]. apply existsb_in in G.
  destruct (i_run s I i G) as [Hlt _]. pose proof (i_next s I) as Hn.
  cbn [writes_slot] in Wx. destruct (check i); [|discriminate]. inversion Wx; subst x.
  destruct b; cbn [writes_slot] in Wy.
  - destruct (kind (next s)); [discriminate|]. inversion Wy; subst. lia.
  - destruct (check i0); [|discriminate]. inversion Wy; subst. intros ->. apply Hne. reflexivity.
  - inversion Wy; subst. lia.
  - discriminate.
  - discriminate.
Qed.
End Sched.
Print Assumptions confluent.
Print Assumptions send_never_blocks.
Print Assumptions all_done.
Print Assumptions progress.
Print Assumptions disjoint_footprints.
