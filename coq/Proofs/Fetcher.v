(* C18: the CRL fetcher never serves stale data and never hides a failed download. *)
From NCG Require Import Model.Fetcher.
From Coq Require Import Lia.

(* ---------- the freshest-CRL extension ---------- *)
Definition dp_uris (p : dpoint) : list Z := match p with DFull g => take_uris g | _ => [] end.
Definition dp_bad (p : dpoint) : bool := match p with DRelative | DMalformed => true | _ => false end.

Theorem parse_cdp_exact ps :
  parse_cdp ps = if existsb dp_bad ps then None else Some (flat_map dp_uris ps).
Proof.
  induction ps as [|p r IH]; [reflexivity|]. destruct p; cbn [parse_cdp existsb dp_bad flat_map dp_uris orb]; try reflexivity.
  - rewrite IH. destruct (existsb dp_bad r); reflexivity.
  - rewrite IH. destruct (existsb dp_bad r); reflexivity.
Qed.

Theorem take_uris_stops l r : take_uris (map GUri l ++ GOther :: r) = l.
Proof. induction l as [|u t IH]; [reflexivity|]. cbn. f_equal. exact IH. Qed.
Theorem take_uris_all l : take_uris (map GUri l) = l.
Proof. induction l as [|u t IH]; [reflexivity|]. cbn. f_equal. exact IH. Qed.

(* ---------- the delta: the first advertised location that answers ---------- *)
Lemma dl_some srv u d : dl srv u = Some d -> plain_http u = true /\ lookup srv u = Some d.
Proof. unfold dl. destruct (plain_http u); [auto|discriminate]. Qed.
Lemma dev_http u : plain_http u = true -> dev u = [EDownload u].
Proof. unfold dev. intros ->. reflexivity. Qed.
Lemma dev_only_http u v : In (EDownload v) (dev u) -> plain_http v = true.
Proof. unfold dev. destruct (plain_http u) eqn:P; [intros [H|[]]; inversion H; subst; exact P|intros []]. Qed.
Lemma devs_only_http l v : In (EDownload v) (flat_map dev l) -> plain_http v = true.
Proof. rewrite in_flat_map. intros [u [_ H]]. eapply dev_only_http; exact H. Qed.

Lemma first_answer_some srv : forall us d ev, first_answer srv us = (Some d, ev) ->
  exists l1 u l2, us = l1 ++ u :: l2 /\ (forall v, In v l1 -> dl srv v = None) /\ dl srv u = Some d /\
                  ev = flat_map dev (l1 ++ [u]).
Proof.
  induction us as [|u r IH]; intros d ev H; cbn in H; [discriminate|].
  destruct (dl srv u) as [x|] eqn:L.
  - inversion H; subst. exists [], u, r. repeat split; auto. intros v []. cbn. rewrite app_nil_r. reflexivity.
  - destruct (first_answer srv r) as [y ev'] eqn:F. inversion H; subst y ev. destruct (IH d ev' eq_refl) as [l1 [w [l2 [E [Hn [Hl Hev]]]]]].
    exists (u :: l1), w, l2. split; [rewrite E; reflexivity|]. split.
    + intros v [<-|Hv]; [exact L|apply Hn; exact Hv].
    + split; [exact Hl|rewrite Hev; reflexivity].
Qed.

Lemma first_answer_none srv : forall us ev, first_answer srv us = (None, ev) ->
  (forall v, In v us -> dl srv v = None) /\ ev = flat_map dev us.
Proof.
  induction us as [|u r IH]; intros ev H; cbn in H.
  - inversion H. split; [intros v []|reflexivity].
  - destruct (dl srv u) eqn:L; [discriminate|]. destruct (first_answer srv r) as [y ev'] eqn:F. inversion H; subst y ev.
    destruct (IH ev' eq_refl) as [Hn Hev]. split; [intros v [<-|Hv]; auto|rewrite Hev; reflexivity].
Qed.

(* the locations a base CRL advertises *)
Definition advertised (base : fcrl) : option (list Z) :=
  match f_fresh base with FNone => Some [] | FBadOuter => None | FPoints ps => parse_cdp ps end.

Theorem fetch_delta_exact srv base :
  match fetch_delta srv base with
  | (DNone, ev) => advertised base = Some [] /\ ev = []
  | (DErr, ev) => advertised base = None \/
                  exists us, advertised base = Some us /\ us <> [] /\ (forall v, In v us -> dl srv v = None) /\ ev = flat_map dev us
  | (DSome d, ev) => exists l1 u l2, advertised base = Some (l1 ++ u :: l2) /\ (forall v, In v l1 -> dl srv v = None) /\
                                     dl srv u = Some d /\ ev = flat_map dev (l1 ++ [u])
  end.
Proof.
  unfold fetch_delta, advertised. destruct (f_fresh base) as [| |ps]; [auto|left; reflexivity|].
  destruct (parse_cdp ps) as [[|u0 r0]|] eqn:P; [auto| |left; reflexivity].
  destruct (first_answer srv (u0 :: r0)) as [[d|] ev] eqn:F.
  - apply first_answer_some in F. destruct F as [l1 [u [l2 [E [Hn [Hl Hev]]]]]]. exists l1, u, l2. rewrite <- E. auto.
  - apply first_answer_none in F. destruct F as [Hn Hev]. right. exists (u0 :: r0). repeat split; auto. discriminate.
Qed.

(* ---------- one Fetch, for every world ---------- *)
Definition BundleEffective (now : Z) (b : fbundle) : Prop :=
  effective now (fb_base b) = true /\ match fb_delta b with None => True | Some d => effective now d = true end.

(* what a download of url yields in world w *)
Definition Downloaded (w : fworld) (url : Z) (b : fbundle) : Prop :=
  dl (fw_server w) url = Some (fb_base b) /\
  match fb_delta b with
  | None => advertised (fb_base b) = Some []
  | Some d => exists l1 u l2, advertised (fb_base b) = Some (l1 ++ u :: l2) /\ (forall v, In v l1 -> dl (fw_server w) v = None) /\ dl (fw_server w) u = Some d
  end.

Lemma download_path cfg w url pre r cache' ev :
  fetch_download cfg w url pre = (r, cache', ev) ->
  match r with
  | FOk b fromc => fromc = false /\ Downloaded w url b /\ In (EDownload url) ev /\
                   (fc_cache cfg = true -> In (ESet url) ev /\ (fw_set_fault w = false -> cache' = (url, b) :: fw_cache w) /\
                                           (fw_set_fault w = true -> fc_discard cfg = true /\ cache' = fw_cache w)) /\
                   (fc_cache cfg = false -> cache' = fw_cache w)
  | FErr => cache' = fw_cache w
  end.
Proof.
  unfold fetch_download. destruct (dl (fw_server w) url) as [base|] eqn:L; [|intros H; inversion H; reflexivity].
  pose proof (fetch_delta_exact (fw_server w) base) as HD.
  destruct (fetch_delta (fw_server w) base) as [[| |d] evd] eqn:FD; [intros H; inversion H; reflexivity| |].
  - destruct HD as [Ha ->].
    assert (Dn : Downloaded w url (FBundle base None)) by (split; [exact L|exact Ha]).
    destruct (fc_cache cfg) eqn:C; [destruct (fw_set_fault w) eqn:S; [destruct (fc_discard cfg) eqn:Dd|]|]; intros H; inversion H; subst; clear H.
    + split; [reflexivity|]. split; [exact Dn|]. split; [apply in_or_app; left; apply in_or_app; right; left; reflexivity|].
      split; [intros _; split; [apply in_or_app; right; left; reflexivity|split; [discriminate|auto]]|discriminate].
    + reflexivity.
    + split; [reflexivity|]. split; [exact Dn|]. split; [apply in_or_app; left; apply in_or_app; right; left; reflexivity|].
      split; [intros _; split; [apply in_or_app; right; left; reflexivity|split; [auto|discriminate]]|discriminate].
    + split; [reflexivity|]. split; [exact Dn|]. split; [apply in_or_app; right; left; reflexivity|]. split; [discriminate|auto].
  - destruct HD as [l1 [u [l2 [Ha [Hn [Hl ->]]]]]].
    assert (Dn : Downloaded w url (FBundle base (Some d))) by (split; [exact L|exists l1, u, l2; auto]).
    destruct (fc_cache cfg) eqn:C; [destruct (fw_set_fault w) eqn:S; [destruct (fc_discard cfg) eqn:Dd|]|]; intros H; inversion H; subst; clear H.
    + split; [reflexivity|]. split; [exact Dn|]. split; [apply in_or_app; left; apply in_or_app; right; left; reflexivity|].
      split; [intros _; split; [apply in_or_app; right; left; reflexivity|split; [discriminate|auto]]|discriminate].
    + reflexivity.
    + split; [reflexivity|]. split; [exact Dn|]. split; [apply in_or_app; left; apply in_or_app; right; left; reflexivity|].
      split; [intros _; split; [apply in_or_app; right; left; reflexivity|split; [auto|discriminate]]|discriminate].
    + split; [reflexivity|]. split; [exact Dn|]. split; [apply in_or_app; right; left; reflexivity|]. split; [discriminate|auto].
Qed.

(* the main theorem about one Fetch: the bundle returned is either the cached one with base and
   delta both effective (nothing else happens), or a freshly downloaded one which was then written to
   the cache (a write failure being an error unless discarded) *)
Theorem fetch_sound cfg w url r cache' ev :
  fetch cfg w url = (r, cache', ev) ->
  match r with
  | FOk b true => fc_cache cfg = true /\ fw_get_fault w = false /\ lookup (fw_cache w) url = Some b /\
                  BundleEffective (fw_now w) b /\ cache' = fw_cache w /\ ev = [EGet url]
  | FOk b false => Downloaded w url b /\ In (EDownload url) ev /\
                   (fc_cache cfg = true -> In (ESet url) ev /\ (fw_set_fault w = false -> cache' = (url, b) :: fw_cache w) /\
                                           (fw_set_fault w = true -> fc_discard cfg = true /\ cache' = fw_cache w) /\
                                           (fw_get_fault w = true -> fc_discard cfg = true)) /\
                   (fc_cache cfg = false -> cache' = fw_cache w)
  | FErr => cache' = fw_cache w
  end.
Proof.
  unfold fetch. intros H.
  assert (Dl : forall pre, fetch_download cfg w url pre = (r, cache', ev) ->
     (fc_cache cfg = true -> fw_get_fault w = true -> fc_discard cfg = true) ->
     match r with
     | FOk b true => fc_cache cfg = true /\ fw_get_fault w = false /\ lookup (fw_cache w) url = Some b /\
                     BundleEffective (fw_now w) b /\ cache' = fw_cache w /\ ev = [EGet url]
     | FOk b false => Downloaded w url b /\ In (EDownload url) ev /\
                      (fc_cache cfg = true -> In (ESet url) ev /\ (fw_set_fault w = false -> cache' = (url, b) :: fw_cache w) /\
                                              (fw_set_fault w = true -> fc_discard cfg = true /\ cache' = fw_cache w) /\
                                              (fw_get_fault w = true -> fc_discard cfg = true)) /\
                      (fc_cache cfg = false -> cache' = fw_cache w)
     | FErr => cache' = fw_cache w
     end).
  { intros pre Hd Hg. apply download_path in Hd. destruct r as [|b fc]; [exact Hd|].
    destruct Hd as [-> [Dn [Hin [Hc Hn]]]]. split; [exact Dn|]. split; [exact Hin|]. split; [|exact Hn].
    intros C. destruct (Hc C) as [A [B1 B2]]. split; [exact A|]. split; [exact B1|]. split; [exact B2|]. intros G. apply Hg; assumption. }
  destruct (fc_cache cfg) eqn:C.
  - destruct (fw_get_fault w) eqn:G.
    + destruct (fc_discard cfg) eqn:Dd.
      * apply (Dl _ H). auto.
      * inversion H; subst. reflexivity.
    + destruct (lookup (fw_cache w) url) as [b|] eqn:L.
      * destruct (effective (fw_now w) (fb_base b) && match fb_delta b with None => true | Some d => effective (fw_now w) d end) eqn:E.
        -- inversion H; subst. apply andb_true_iff in E. destruct E as [E1 E2].
           repeat split; auto. destruct (fb_delta b); auto.
        -- apply (Dl _ H). intros _ X; discriminate.
      * apply (Dl _ H). intros _ X; discriminate.
  - apply (Dl _ H). intros X; discriminate.
Qed.

(* plain HTTP only: every request made is for an http URL, and a downloaded bundle's base and delta
   both came from http URLs (a location with any other scheme counts as one that does not answer) *)
Lemma fetch_delta_events_http srv base ev r : fetch_delta srv base = (r, ev) -> forall u, In (EDownload u) ev -> plain_http u = true.
Proof.
  intros H u Hu. pose proof (fetch_delta_exact srv base) as E. rewrite H in E. destruct r.
  - destruct E as [E|[us [_ [_ [_ ->]]]]]; [|eapply devs_only_http; exact Hu].
    unfold fetch_delta in H. unfold advertised in E. destruct (f_fresh base) as [| |ps]; try discriminate.
    + inversion H; subst. destruct Hu.
    + rewrite E in H. inversion H; subst. destruct Hu.
  - destruct E as [_ ->]. destruct Hu.
  - destruct E as [l1 [v [l2 [_ [_ [_ ->]]]]]]. eapply devs_only_http; exact Hu.
Qed.

Lemma download_events_http cfg w url pre r cache' ev :
  fetch_download cfg w url pre = (r, cache', ev) ->
  forall u, In (EDownload u) ev -> In (EDownload u) pre \/ plain_http u = true.
Proof.
  unfold fetch_download. intros H u Hu. destruct (dl (fw_server w) url) as [base|] eqn:L.
  - apply dl_some in L. destruct L as [P _].
    destruct (fetch_delta (fw_server w) base) as [dr evd] eqn:FD.
    assert (Hd : forall v, In (EDownload v) evd -> plain_http v = true) by (eapply fetch_delta_events_http; exact FD).
    assert (Core : In (EDownload u) (pre ++ EDownload url :: evd) -> In (EDownload u) pre \/ plain_http u = true).
    { intros X. apply in_app_or in X. destruct X as [X|[X|X]]; [left; exact X|inversion X; subst; right; exact P|right; apply Hd; exact X]. }
    assert (Core2 : In (EDownload u) ((pre ++ EDownload url :: evd) ++ [ESet url]) -> In (EDownload u) pre \/ plain_http u = true).
    { intros X. apply in_app_or in X. destruct X as [X|[X|[]]]; [apply Core; exact X|discriminate]. }
    destruct dr; [inversion H; subst; apply Core; exact Hu| |];
      (destruct (fc_cache cfg); [destruct (fw_set_fault w); [destruct (fc_discard cfg)|]|]; inversion H; subst; auto).
  - inversion H; subst. apply in_app_or in Hu. destruct Hu as [X|X]; [left; exact X|right; eapply dev_only_http; exact X].
Qed.

Theorem plain_http_only cfg w url r cache' ev :
  fetch cfg w url = (r, cache', ev) -> forall u, In (EDownload u) ev -> plain_http u = true.
Proof.
  unfold fetch. intros H u Hu.
  assert (D : forall pre, (forall v, ~ In (EDownload v) pre) -> fetch_download cfg w url pre = (r, cache', ev) -> plain_http u = true).
  { intros pre Hp Hd. destruct (download_events_http _ _ _ _ _ _ _ Hd u Hu) as [X|X]; [exfalso; exact (Hp u X)|exact X]. }
  assert (P1 : forall v, ~ In (EDownload v) [EGet url]) by (intros v [X|[]]; discriminate).
  assert (P0 : forall v, ~ In (EDownload v) (@nil fevent)) by (intros v []).
  destruct (fc_cache cfg).
  - destruct (fw_get_fault w).
    + destruct (fc_discard cfg); [exact (D _ P1 H)|]. inversion H; subst. exfalso. exact (P1 u Hu).
    + destruct (lookup (fw_cache w) url) as [b|]; [|exact (D _ P1 H)].
      destruct (effective (fw_now w) (fb_base b) && _); [|exact (D _ P1 H)]. inversion H; subst. exfalso. exact (P1 u Hu).
  - exact (D _ P0 H).
Qed.

Theorem downloaded_over_http w url b : Downloaded w url b ->
  plain_http url = true /\ lookup (fw_server w) url = Some (fb_base b) /\
  match fb_delta b with
  | None => True
  | Some d => exists u, plain_http u = true /\ lookup (fw_server w) u = Some d
  end.
Proof.
  intros [Hb Hd]. apply dl_some in Hb. destruct Hb as [P L]. split; [exact P|]. split; [exact L|].
  destruct (fb_delta b) as [d|]; [|exact I]. destruct Hd as [l1 [u [l2 [_ [_ Hu]]]]]. apply dl_some in Hu. exists u. exact Hu.
Qed.

(* a URL whose scheme is not http is an error without any request, whatever the server would answer *)
Theorem non_http_is_error cfg w url pre : plain_http url = false ->
  fetch_download cfg w url pre = (FErr, fw_cache w, pre).
Proof. intros P. unfold fetch_download, dl, dev. rewrite P, app_nil_r. reflexivity. Qed.

(* an expired or next-update-less cached bundle is never returned from the cache *)
Theorem never_stale cfg w url b cache' ev :
  fetch cfg w url = (FOk b true, cache', ev) -> BundleEffective (fw_now w) b /\ lookup (fw_cache w) url = Some b.
Proof. intros H. apply fetch_sound in H. tauto. Qed.

(* cache failures are errors unless discarded; a miss is never an error *)
Theorem get_fault_is_error cfg w url :
  fc_cache cfg = true -> fw_get_fault w = true -> fc_discard cfg = false ->
  fetch cfg w url = (FErr, fw_cache w, [EGet url]).
Proof. intros C G D. unfold fetch. rewrite C, G, D. reflexivity. Qed.

Theorem set_fault_is_error cfg w url r cache' ev :
  fc_cache cfg = true -> fw_set_fault w = true -> fc_discard cfg = false ->
  fetch cfg w url = (r, cache', ev) -> match r with FOk _ false => False | _ => True end.
Proof.
  intros C S D H. apply fetch_sound in H. destruct r as [|b [|]]; auto.
  destruct H as [_ [_ [Hc _]]]. destruct (Hc C) as [_ [_ [X _]]]. destruct (X S). congruence.
Qed.

Theorem miss_is_not_error cfg w url base :
  fw_get_fault w = false -> (fw_set_fault w = false \/ fc_discard cfg = true \/ fc_cache cfg = false) ->
  lookup (fw_cache w) url = None -> dl (fw_server w) url = Some base ->
  (forall ev, fetch_delta (fw_server w) base <> (DErr, ev)) ->
  exists b cache' ev, fetch cfg w url = (FOk b false, cache', ev) /\ fb_base b = base.
Proof.
  intros G S L Sv Hd.
  assert (D : forall pre, exists b cache' ev, fetch_download cfg w url pre = (FOk b false, cache', ev) /\ fb_base b = base).
  { intros pre. unfold fetch_download. rewrite Sv.
    destruct (fetch_delta (fw_server w) base) as [[| |d] ev] eqn:FD; [exfalso; exact (Hd ev eq_refl)| |].
    - destruct (fc_cache cfg); [destruct (fw_set_fault w); [destruct (fc_discard cfg) eqn:Dd|]|]; try (eexists _, _, _; split; reflexivity).
      destruct S as [S|[S|S]]; discriminate.
    - destruct (fc_cache cfg); [destruct (fw_set_fault w); [destruct (fc_discard cfg) eqn:Dd|]|]; try (eexists _, _, _; split; reflexivity).
      destruct S as [S|[S|S]]; discriminate. }
  unfold fetch. rewrite G, L. destruct (fc_cache cfg); apply D.
Qed.

(* ---------- histories ---------- *)
Lemma fstep_now cfg w o : fw_now (fst (fstep cfg w o)) = fw_now w.
Proof. destruct o; cbn; try reflexivity. destruct (fetch cfg w u) as [[r c] e]. reflexivity. Qed.

Lemma ffinal_now cfg : forall ops w, fw_now (ffinal cfg w ops) = fw_now w.
Proof. induction ops as [|o r IH]; intros w; [reflexivity|]. cbn [ffinal]. rewrite IH. apply fstep_now. Qed.

(* the output of the fetch after any history is the Fetch of the world that history leads to *)
Lemma frun_snoc cfg : forall ops w u,
  frun cfg w (ops ++ [OFetch u]) =
  frun cfg w ops ++ [let '(r, _, ev) := fetch cfg (ffinal cfg w ops) u in Some (r, ev)].
Proof.
  induction ops as [|o r IH]; intros w u.
  - cbn. destruct (fetch cfg w u) as [[x c] e]. reflexivity.
  - cbn [app frun ffinal]. destruct (fstep cfg w o) as [w' x] eqn:E. cbn [fst]. rewrite IH. reflexivity.
Qed.

(* over every history of operations, of any length: a bundle served from the cache is effective at
   the (constant) clock of the world *)
Theorem history_never_stale cfg : forall ops w,
  Forall (fun x => match x with
                   | Some (FOk b true, _) => BundleEffective (fw_now w) b
                   | _ => True end) (frun cfg w ops).
Proof.
  induction ops as [|o r IH]; intros w; cbn [frun]; [constructor|].
  destruct (fstep cfg w o) as [w' x] eqn:E. constructor.
  - destruct o; cbn in E; try (inversion E; subst; exact I).
    destruct (fetch cfg w u) as [[res c] ev] eqn:F. inversion E; subst.
    destruct res as [|b [|]]; auto. apply never_stale in F. tauto.
  - assert (N : fw_now w' = fw_now w) by (replace w' with (fst (fstep cfg w o)) by (rewrite E; reflexivity); apply fstep_now).
    rewrite <- N. apply IH.
Qed.

(* the cache only ever holds bundles that were in it initially, were put there by another party,
   or were downloaded by a Fetch *)
Inductive Origin (cfg : fcfg) (w0 : fworld) (ops : list fop) (u : Z) (b : fbundle) : Prop :=
| org_initial : In (u, b) (fw_cache w0) -> Origin cfg w0 ops u b
| org_put : In (OCachePut u b) ops -> Origin cfg w0 ops u b
| org_download : (exists ops1 ops2 r ev, ops = ops1 ++ OFetch u :: ops2 /\
                   fetch cfg (ffinal cfg w0 ops1) u = (FOk b false, r, ev)) -> Origin cfg w0 ops u b.

Theorem cache_origin cfg : forall ops w0 u b,
  In (u, b) (fw_cache (ffinal cfg w0 ops)) -> Origin cfg w0 ops u b.
Proof.
  intros ops. induction ops as [|o r IH] using rev_ind; intros w0 u b H; [apply org_initial; exact H|].
  assert (Hf : ffinal cfg w0 (r ++ [o]) = fst (fstep cfg (ffinal cfg w0 r) o)).
  { clear. revert w0. induction r as [|x t IHt]; intros w0; [reflexivity|]. cbn [app ffinal]. apply IHt. }
  rewrite Hf in H.
  assert (Lift : Origin cfg w0 r u b -> Origin cfg w0 (r ++ [o]) u b).
  { intros [A|A|[o1 [o2 [rr [ev [E F]]]]]].
    - apply org_initial; exact A.
    - apply org_put. apply in_or_app. left; exact A.
    - apply org_download. exists o1, (o2 ++ [o]), rr, ev. split; [rewrite E, <- app_assoc; reflexivity|exact F]. }
  destruct o; cbn in H.
  - destruct (fetch cfg (ffinal cfg w0 r) u0) as [[res c] ev] eqn:F. cbn in H.
    pose proof (fetch_sound _ _ _ _ _ _ F) as S. destruct res as [|b' [|]].
    + subst c. apply Lift, IH. exact H.
    + destruct S as [_ [_ [_ [_ [-> _]]]]]. apply Lift, IH. exact H.
    + destruct S as [_ [_ [Hc Hn]]]. destruct (fc_cache cfg) eqn:C.
      * destruct (Hc eq_refl) as [_ [B1 [B2 _]]]. destruct (fw_set_fault (ffinal cfg w0 r)) eqn:Sf.
        -- destruct (B2 eq_refl) as [_ ->]. apply Lift, IH. exact H.
        -- rewrite (B1 eq_refl) in H. destruct H as [H|H].
           ++ inversion H; subst. apply org_download. exists r, [], c, ev. split; [reflexivity|exact F].
           ++ apply Lift, IH. exact H.
      * rewrite (Hn eq_refl) in H. apply Lift, IH. exact H.
  - apply Lift, IH. exact H.
  - apply Lift, IH. exact H.
  - destruct H as [H|H].
    + inversion H; subst. apply org_put. apply in_or_app. right. left. reflexivity.
    + apply Lift, IH. exact H.
  - apply Lift, IH. exact H.
Qed.

(* non-vacuity: an expired cached bundle is bypassed, the newer CRL is downloaded, its delta taken
   from the second location because the first does not answer, and the result is written back *)
Example fetch_example :
  let base := FCrl 10 200 (FPoints [DNoName; DFull [GUri 5; GUri 6]]) in
  let w := FWorld [(1, FBundle (FCrl 3 50 FNone) None)] [(1, base); (6, FCrl 11 200 FNone)] false false 100 in
  fetch (FCfg true false) w 1 =
  (FOk (FBundle base (Some (FCrl 11 200 FNone))) false,
   (1, FBundle base (Some (FCrl 11 200 FNone))) :: fw_cache w,
   [EGet 1; EDownload 1; EDownload 5; EDownload 6; ESet 1]).
Proof. reflexivity. Qed.
