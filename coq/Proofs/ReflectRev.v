(* Reflection for the revocation correspondence runs (C06, C11, C12): the booleans of Run/RevSpec.v,
   evaluated on the IMPLEMENTATION's outputs, are exactly the declarative predicates in which the
   property theorems are stated (Consistent, OcspEntries, CrlEntries, GoodEvidence, RevokedEvidence). *)
From NCG Require Import Run.RevSpec Proofs.CrlCheck Proofs.Revocation.
From Coq Require Import Lia.

Lemma rres_eqb_eq a b : rres_eqb a b = true <-> a = b.
Proof. destruct a, b; cbn; split; intros H; try reflexivity; discriminate. Qed.
Lemma rmethod_eqb_eq a b : rmethod_eqb a b = true <-> a = b.
Proof. destruct a, b; cbn; split; intros H; try reflexivity; discriminate. Qed.
Lemma sres_eqb_eq a b : sres_eqb a b = true <-> a = b.
Proof.
  destruct a as [r u], b as [r' u']. unfold sres_eqb. cbn. rewrite andb_true_iff, rres_eqb_eq, Z.eqb_eq.
  split; [intros [-> ->]; reflexivity|intros H; inversion H; auto].
Qed.
Lemma list_eqb_eq {A} (eqb : A -> A -> bool) (H : forall x y, eqb x y = true <-> x = y) :
  forall a b, list_eqb eqb a b = true <-> a = b.
Proof.
  induction a as [|x r IH]; destruct b as [|y s]; cbn; try (split; [discriminate|intros E; discriminate]); [tauto|].
  rewrite andb_true_iff, H, IH. split; [intros [-> ->]; reflexivity|intros E; inversion E; auto].
Qed.
Lemma cres_eqb_eq a b : cres_eqb a b = true <-> a = b.
Proof.
  destruct a as [r s m], b as [r' s' m']. unfold cres_eqb. cbn.
  rewrite !andb_true_iff, rres_eqb_eq, rmethod_eqb_eq, (list_eqb_eq sres_eqb sres_eqb_eq).
  split; [intros [[-> ->] ->]; reflexivity|intros H; inversion H; auto].
Qed.
Lemma memZ_In x l : memZ x l = true <-> In x l.
Proof.
  unfold memZ. rewrite existsb_exists. split.
  - intros [y [Hy E]]. apply Z.eqb_eq in E. subst y. exact Hy.
  - intros H. exists x. split; [exact H|apply Z.eqb_refl].
Qed.
Lemma null_nil {A} (l : list A) : null l = true <-> l = [].
Proof. destruct l; cbn; split; intros H; try reflexivity; discriminate. Qed.
Lemma negb_null {A} (l : list A) : negb (null l) = true <-> l <> [].
Proof. destruct l; cbn; split; intros H; try reflexivity; try discriminate. exfalso; apply H; reflexivity. Qed.

Lemma single_b_iff urls v srv : single_b urls v srv = true <-> exists u, In u urls /\ srv = [SRes v u].
Proof.
  unfold single_b. destruct srv as [|[r u] [|s2 rest]].
  - split; [discriminate|]. intros [u [_ H]]. discriminate.
  - cbn [sr_result sr_url]. rewrite andb_true_iff, rres_eqb_eq, memZ_In. split.
    + intros [-> Hin]. exists u. auto.
    + intros [u' [Hin E]]. inversion E. subst. auto.
  - split; [discriminate|]. intros [u' [_ H]]. discriminate.
Qed.

Theorem ocsp_entries_b_iff urls v srv : ocsp_entries_b urls v srv = true <-> OcspEntries urls v srv.
Proof.
  unfold ocsp_entries_b, OcspEntries.
  rewrite andb_true_iff, orb_true_iff, andb_true_iff, single_b_iff, rres_eqb_eq, (list_eqb_eq sres_eqb sres_eqb_eq).
  rewrite negb_true_iff. split.
  - intros [Hn H]. split; [intros E; subst v; discriminate|exact H].
  - intros [Hn H]. split; [destruct v; try reflexivity; exfalso; apply Hn; reflexivity|exact H].
Qed.

Theorem crl_entries_b_iff urls v srv : crl_entries_b urls v srv = true <-> CrlEntries urls v srv.
Proof.
  unfold crl_entries_b, CrlEntries. destruct v.
  - apply single_b_iff.
  - apply (list_eqb_eq sres_eqb sres_eqb_eq).
  - split; [discriminate|tauto].
  - apply single_b_iff.
Qed.

(* an OcspEntries RUnknown head has one entry or one per responder: the two split points tried by consistent_b *)
Lemma ocsp_unknown_head_length urls head : urls <> [] -> OcspEntries urls RUnknown head ->
  length head = 1%nat \/ length head = length urls.
Proof.
  intros _ [_ [[u [_ ->]]|[_ ->]]]; [left; reflexivity|right; apply map_length].
Qed.

Theorem consistent_b_iff c r : consistent_b c r = true <-> Consistent c r.
Proof.
  unfold consistent_b, Consistent. destruct (cr_method r).
  - rewrite !andb_true_iff, cres_eqb_eq, !null_nil. tauto.
  - rewrite andb_true_iff, negb_null, ocsp_entries_b_iff. tauto.
  - rewrite !andb_true_iff, null_nil, negb_null, crl_entries_b_iff. tauto.
  - rewrite !andb_true_iff, !negb_null, existsb_exists. split.
    + intros [[Ho Hc] [k [_ Hk]]]. apply andb_true_iff in Hk. destruct Hk as [H1 H2].
      apply ocsp_entries_b_iff in H1. apply crl_entries_b_iff in H2.
      split; [exact Ho|split; [exact Hc|]]. exists (firstn k (cr_servers r)), (skipn k (cr_servers r)).
      split; [symmetry; apply firstn_skipn|auto].
    + intros [Ho [Hc [head [tail [E [H1 H2]]]]]]. split; [auto|].
      exists (length head). split.
      * destruct (ocsp_unknown_head_length _ _ Ho H1) as [L|L]; rewrite L; cbn; auto.
      * rewrite E, firstn_app, Nat.sub_diag, firstn_all, firstn_O, app_nil_r.
        rewrite skipn_app, Nat.sub_diag, skipn_all, skipn_O. cbn [app].
        apply andb_true_iff. split; [apply ocsp_entries_b_iff; exact H1|apply crl_entries_b_iff; exact H2].
Qed.

Theorem consistent_ocsp_b_iff c r : consistent_ocsp_b c r = true <->
  (c_ocsp c = [] /\ r = CRes RNonRevokable [SRes RNonRevokable 0] MOCSP) \/
  (c_ocsp c <> [] /\ cr_method r = MOCSP /\ OcspEntries (c_ocsp c) (cr_result r) (cr_servers r)).
Proof.
  unfold consistent_ocsp_b. destruct (c_ocsp c) as [|u0 r0] eqn:E; cbn [null].
  - rewrite cres_eqb_eq. split; [auto|]. intros [[_ H]|[H _]]; [exact H|exfalso; apply H; reflexivity].
  - rewrite andb_true_iff, rmethod_eqb_eq, ocsp_entries_b_iff. split.
    + intros H. right. split; [discriminate|exact H].
    + intros [[H _]|[_ H]]; [discriminate|exact H].
Qed.

(* evidence booleans of C06 *)
Section W.
Variable w : world.
Variable st : Z.

Lemma sclass_eqb_eq a b : sclass_eqb a b = true <-> a = b.
Proof. destruct a, b; cbn; split; intros H; try reflexivity; discriminate. Qed.

Theorem good_evidence_b_iff c : good_evidence_b w st true c = true <-> GoodEvidence w st c.
Proof.
  unfold good_evidence_b, GoodEvidence. rewrite orb_true_iff, existsb_exists. cbn [andb].
  rewrite andb_true_iff, negb_null, forallb_forall. unfold sc, clr. split.
  - intros [[u [Hu E]]|[Hn H]].
    + left. exists u. split; [exact Hu|apply sclass_eqb_eq; exact E].
    + right. split; [exact Hn|]. intros u Hu. apply clear_b_iff. apply H. exact Hu.
  - intros [[u [Hu E]]|[Hn H]].
    + left. exists u. split; [exact Hu|apply sclass_eqb_eq; exact E].
    + right. split; [exact Hn|]. intros u Hu. apply clear_b_iff. apply H. exact Hu.
Qed.

Theorem revoked_evidence_b_iff c : revoked_evidence_b w st true c = true <-> RevokedEvidence w st c.
Proof.
  unfold revoked_evidence_b, RevokedEvidence. cbn [andb]. rewrite orb_true_iff, !existsb_exists. unfold sc, pck. split.
  - intros [[u [Hu E]]|[u [Hu E]]].
    + left. exists u. split; [exact Hu|apply sclass_eqb_eq; exact E].
    + right. exists u. split; [exact Hu|].
      destruct (point_check (w_fetch w) (w_now w) st (c_serial c) (c_freshest c) u) as [[| |]|] eqn:P; try discriminate.
      apply point_check_some in P. exact P.
  - intros [[u [Hu E]]|[u [Hu E]]].
    + left. exists u. split; [exact Hu|apply sclass_eqb_eq; exact E].
    + right. exists u. split; [exact Hu|]. apply point_check_some in E. rewrite E. reflexivity.
Qed.
End W.
