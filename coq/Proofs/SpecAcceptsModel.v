(* The spec sides of the correspondence runs never reject the MODEL's own behaviour: whenever the
   implementation's projected output equals the model's, no clause of the boolean spec fires.  Hence a
   code-2 verdict always comes with a difference between implementation and model. *)
From NCG Require Import Run.RevSpec Run.C18 Proofs.CrlCheck Proofs.Revocation Proofs.ReflectRev Proofs.Fetcher.
From Coq Require Import Lia.

(* ---- C12 / C06: per-certificate results of the model ---- *)
Theorem model_result_consistent w st c : consistent_b c (fst (check_cert w st c)) = true.
Proof. apply consistent_b_iff. apply check_cert_consistent. Qed.

Theorem model_ok_has_good_evidence w st c : c_ocsp c <> [] \/ c_crl c <> [] ->
  cr_result (fst (check_cert w st c)) = ROK -> good_evidence_b w st true c = true.
Proof. intros H R. apply good_evidence_b_iff. destruct (fail_closed w st c H) as [_ [G _]]. apply G. exact R. Qed.

Theorem model_revoked_has_revoked_evidence w st c : c_ocsp c <> [] \/ c_crl c <> [] ->
  cr_result (fst (check_cert w st c)) = RRevoked -> revoked_evidence_b w st true c = true.
Proof. intros H R. apply revoked_evidence_b_iff. destruct (fail_closed w st c H) as [_ [_ G]]. apply G. exact R. Qed.

Theorem model_verdict_has_evidence w st c : c_ocsp c <> [] \/ c_crl c <> [] ->
  (cr_result (fst (check_cert w st c)) = ROK -> good_evidence_b w st true c = true) /\
  (cr_result (fst (check_cert w st c)) = RRevoked -> revoked_evidence_b w st true c = true).
Proof. intros H. split; [apply model_ok_has_good_evidence|apply model_revoked_has_revoked_evidence]; exact H. Qed.

(* ---- C18: one Fetch of the model passes fetch_spec in every world ---- *)
Lemma list_eqb_refl {A} (e : A -> A -> bool) (H : forall x, e x x = true) : forall l, list_eqb e l l = true.
Proof. induction l as [|x r IH]; [reflexivity|]. cbn. rewrite H, IH. reflexivity. Qed.

Lemma fshape_eqb_refl s : fshape_eqb s s = true.
Proof.
  destruct s as [| |ps]; try reflexivity. cbn. apply list_eqb_refl. intros p. destruct p as [|g| |]; try reflexivity.
  apply list_eqb_refl. intros n. destruct n; [apply Z.eqb_refl|reflexivity].
Qed.
Lemma fcrl_eqb_refl c : fcrl_eqb c c = true.
Proof. unfold fcrl_eqb. rewrite !Z.eqb_refl, fshape_eqb_refl. reflexivity. Qed.
Lemma fbundle_eqb_refl b : fbundle_eqb b b = true.
Proof. unfold fbundle_eqb. rewrite fcrl_eqb_refl. destruct (fb_delta b); cbn; [apply fcrl_eqb_refl|reflexivity]. Qed.

Lemma no_bad_request cfg w u r c ev : fetch cfg w u = (r, c, ev) ->
  existsb (fun e => match e with EDownload v => negb (plain_http v) | _ => false end) ev = false.
Proof.
  intros H. destruct (existsb _ ev) eqn:X; [|reflexivity]. apply existsb_exists in X. destruct X as [e [Hin He]].
  destruct e as [v|v|v]; try discriminate. pose proof (plain_http_only _ _ _ _ _ _ H v Hin) as P. rewrite P in He. discriminate.
Qed.

(* what a successful download returns, read off the definition *)
Lemma download_ok cfg w url pre b f c ev : fetch_download cfg w url pre = (FOk b f, c, ev) ->
  f = false /\ dl (fw_server w) url = Some (fb_base b) /\
  (exists evd, (fetch_delta (fw_server w) (fb_base b) = (DNone, evd) /\ fb_delta b = None) \/
               (exists d, fetch_delta (fw_server w) (fb_base b) = (DSome d, evd) /\ fb_delta b = Some d)) /\
  existsb is_download ev = true /\
  (fc_cache cfg = true -> existsb is_set ev = true /\ (fw_set_fault w = true -> fc_discard cfg = true)).
Proof.
  unfold fetch_download. destruct (dl (fw_server w) url) as [base|] eqn:L; [|discriminate].
  destruct (fetch_delta (fw_server w) base) as [dr evd] eqn:FD.
  assert (Dw : forall tail, existsb is_download ((pre ++ EDownload url :: evd) ++ tail) = true).
  { intros tail. rewrite !existsb_app. cbn. rewrite !orb_true_r. reflexivity. }
  assert (Dw0 : existsb is_download (pre ++ EDownload url :: evd) = true).
  { rewrite existsb_app. cbn. rewrite orb_true_r. reflexivity. }
  assert (St : existsb is_set ((pre ++ EDownload url :: evd) ++ [ESet url]) = true).
  { rewrite existsb_app. cbn. rewrite orb_true_r. reflexivity. }
  destruct dr as [| |d]; [discriminate| |].
  - assert (Hd : exists evd0, (fetch_delta (fw_server w) base = (DNone, evd0) /\ @None fcrl = None) \/
                   (exists d, fetch_delta (fw_server w) base = (DSome d, evd0) /\ @None fcrl = Some d)).
    { exists evd. left. split; [exact FD|reflexivity]. }
    destruct (fc_cache cfg) eqn:C; [destruct (fw_set_fault w) eqn:S; [destruct (fc_discard cfg) eqn:D|]|]; intros H; inversion H; subst; clear H; cbn [fb_base fb_delta].
    + split; [reflexivity|]. split; [reflexivity|]. split; [exact Hd|]. split; [apply Dw|]. intros _. split; [exact St|reflexivity].
    + split; [reflexivity|]. split; [reflexivity|]. split; [exact Hd|]. split; [apply Dw|]. intros _. split; [exact St|discriminate].
    + split; [reflexivity|]. split; [reflexivity|]. split; [exact Hd|]. split; [apply Dw0|]. discriminate.
  - assert (Hd : exists evd0, (fetch_delta (fw_server w) base = (DNone, evd0) /\ Some d = None) \/
                   (exists d0, fetch_delta (fw_server w) base = (DSome d0, evd0) /\ Some d = Some d0)).
    { exists evd. right. exists d. split; [exact FD|reflexivity]. }
    destruct (fc_cache cfg) eqn:C; [destruct (fw_set_fault w) eqn:S; [destruct (fc_discard cfg) eqn:D|]|]; intros H; inversion H; subst; clear H; cbn [fb_base fb_delta].
    + split; [reflexivity|]. split; [reflexivity|]. split; [exact Hd|]. split; [apply Dw|]. intros _. split; [exact St|reflexivity].
    + split; [reflexivity|]. split; [reflexivity|]. split; [exact Hd|]. split; [apply Dw|]. intros _. split; [exact St|discriminate].
    + split; [reflexivity|]. split; [reflexivity|]. split; [exact Hd|]. split; [apply Dw0|]. discriminate.
Qed.

Theorem model_fetch_passes_spec cfg w u : let '(r, _, ev) := fetch cfg w u in fetch_spec cfg w u r ev = 0.
Proof.
  destruct (fetch cfg w u) as [[r c] ev] eqn:F. unfold fetch_spec. rewrite (no_bad_request _ _ _ _ _ _ F).
  pose proof (fetch_sound _ _ _ _ _ _ F) as S.
  destruct r as [|b [|]].
  - (* FErr: the "must not be an error" condition cannot hold *)
    destruct (_ && _ && _ && _) eqn:X; [|reflexivity]. exfalso.
    rewrite !andb_true_iff in X. destruct X as [[[G St] Dn] _].
    destruct (dl (fw_server w) u) as [base|] eqn:L; [|discriminate].
    destruct (fetch_delta (fw_server w) base) as [dr evd] eqn:FD. destruct dr; [discriminate| |].
    + assert (Ok : forall pre, exists b c' e, fetch_download cfg w u pre = (FOk b false, c', e)).
      { intros pre. unfold fetch_download. rewrite L, FD.
        destruct (fc_cache cfg) eqn:C; [destruct (fw_set_fault w) eqn:Sf; [destruct (fc_discard cfg) eqn:D|]|]; try (eexists _, _, _; reflexivity).
        cbn in St. discriminate. }
      unfold fetch in F. destruct (fc_cache cfg) eqn:C.
      * destruct (fw_get_fault w) eqn:Gf.
        -- destruct (fc_discard cfg) eqn:D; [|cbn in G; discriminate]. destruct (Ok [EGet u]) as [b [c' [e E]]]. congruence.
        -- destruct (lookup (fw_cache w) u) as [b0|].
           ++ destruct (effective _ _ && _); [discriminate|]. destruct (Ok [EGet u]) as [b [c' [e E]]]. congruence.
           ++ destruct (Ok [EGet u]) as [b [c' [e E]]]. congruence.
      * destruct (Ok []) as [b [c' [e E]]]. congruence.
    + assert (Ok : forall pre, exists b c' e, fetch_download cfg w u pre = (FOk b false, c', e)).
      { intros pre. unfold fetch_download. rewrite L, FD.
        destruct (fc_cache cfg) eqn:C; [destruct (fw_set_fault w) eqn:Sf; [destruct (fc_discard cfg) eqn:D|]|]; try (eexists _, _, _; reflexivity).
        cbn in St. discriminate. }
      unfold fetch in F. destruct (fc_cache cfg) eqn:C.
      * destruct (fw_get_fault w) eqn:Gf.
        -- destruct (fc_discard cfg) eqn:D; [|cbn in G; discriminate]. destruct (Ok [EGet u]) as [b [c' [e E]]]. congruence.
        -- destruct (lookup (fw_cache w) u) as [b0|].
           ++ destruct (effective _ _ && _); [discriminate|]. destruct (Ok [EGet u]) as [b [c' [e E]]]. congruence.
           ++ destruct (Ok [EGet u]) as [b [c' [e E]]]. congruence.
      * destruct (Ok []) as [b [c' [e E]]]. congruence.
  - (* served from the cache *)
    destruct S as [C [G [L [[E1 E2] [_ ->]]]]]. cbn [existsb is_download orb negb andb].
    rewrite E1. destruct (fb_delta b) as [d|] eqn:D; [rewrite E2|]; cbn [andb negb];
      rewrite L, fbundle_eqb_refl; cbn [negb]; rewrite C, G; reflexivity.
  - (* downloaded *)
    unfold fetch in F.
    assert (Dl : exists pre, fetch_download cfg w u pre = (FOk b false, c, ev)).
    { destruct (fc_cache cfg); [destruct (fw_get_fault w); [destruct (fc_discard cfg); [eexists; exact F|discriminate]|]|eexists; exact F].
      destruct (lookup (fw_cache w) u) as [b0|]; [|eexists; exact F].
      destruct (effective _ _ && _); [discriminate|eexists; exact F]. }
    destruct Dl as [pre Dl]. apply download_ok in Dl. destruct Dl as [_ [L [[evd Hd] [Dw Hc]]]].
    rewrite Dw. cbn [negb andb].
    destruct S as [_ [_ [Sc _]]].
    assert (C2 : (fc_cache cfg && (negb (existsb is_set ev) || fw_set_fault w && negb (fc_discard cfg))) = false).
    { destruct (fc_cache cfg) eqn:C; [|reflexivity]. destruct (Hc eq_refl) as [St Sd]. rewrite St. cbn.
      destruct (fw_set_fault w); [rewrite (Sd eq_refl); reflexivity|reflexivity]. }
    rewrite C2. rewrite L, fcrl_eqb_refl. cbn [andb].
    assert (C3 : match fetch_delta (fw_server w) (fb_base b) with
                 | (DNone, _) => match fb_delta b with None => true | Some _ => false end
                 | (DSome d, _) => option_eqb fcrl_eqb (Some d) (fb_delta b)
                 | (DErr, _) => false end = true).
    { destruct Hd as [[-> ->]|[d [-> ->]]]; [reflexivity|cbn; apply fcrl_eqb_refl]. }
    rewrite C3. cbn [negb].
    destruct (fc_cache cfg) eqn:C; [|reflexivity]. destruct (Sc eq_refl) as [_ [_ [_ Gd]]].
    destruct (fw_get_fault w); [rewrite (Gd eq_refl); reflexivity|reflexivity].
Qed.

(* ---- C07 / C13 / C01: the content the model returns passes the content test of the runs ---- *)
From NCG Require Import Run.Env Proofs.Header Proofs.Reflect.
Theorem model_content_passes_spec sf ss decoded h c : (h_fmt h = 0 \/ h_fmt h = 1) ->
  content_of sf ss decoded h = Some c -> content_ok_b sf ss h c = true /\ decoded = true.
Proof.
  intros Hf H. destruct (content_sound sf ss decoded h c Hf H) as [D K]. split; [|exact D].
  apply content_ok_b_complete; assumption.
Qed.
Theorem model_verify_passes_spec sf ss decoded lv h c : (h_fmt h = 0 \/ h_fmt h = 1) ->
  verify_of sf ss decoded lv h = Some c ->
  content_of sf ss decoded h = Some c /\ lv = true /\ content_ok_b sf ss h c = true /\ decoded = true.
Proof.
  intros Hf H. destruct (verify_implies_content sf ss decoded lv h c H) as [C L].
  destruct (model_content_passes_spec sf ss decoded h c Hf C) as [K D]. auto.
Qed.

(* ---- C12 clause 8: the model never returns a lone, non-decisive Unknown OCSP entry among several responders ---- *)
From NCG Require Import Run.C12 Proofs.Ocsp.

Theorem model_never_lone_nondecisive_unknown w st c :
  lone_unknown_not_decisive w st c (fst (check_cert w st c)) = false.
Proof.
  unfold lone_unknown_not_decisive, check_cert.
  destruct (c_ocsp c) as [|u0 r0] eqn:EO.
  - destruct (c_crl c) as [|v0 s0] eqn:EC; [reflexivity|].
    destruct (crl_check _ _ _ _ _ _) as [r clog] eqn:CC. cbn [fst].
    pose proof (Proofs.CrlCheck.shape (w_fetch w) (w_now w) st (c_serial c) (c_freshest c) (v0 :: s0)) as Sh.
    rewrite CC in Sh. cbn [fst] in Sh. destruct Sh as [M _]; [discriminate|]. rewrite M. reflexivity.
  - destruct (ocsp_check (w_ocsp w) (w_now w) st (u0 :: r0)) as [o olog] eqn:OC.
    pose proof (ocsp_check_exact (w_ocsp w) (w_now w) st (u0 :: r0)) as Ex. rewrite OC in Ex. cbn [fst] in Ex.
    assert (Ne : u0 :: r0 <> []) by discriminate. specialize (Ex Ne).
    assert (Core : rmethod_eqb (cr_method o) MOCSP && rres_eqb (cr_result o) RUnknown && (1 <? Z.of_nat (length (u0 :: r0))) &&
                   match cr_servers o with
                   | [s] => memZ (sr_url s) (u0 :: r0) && negb (sclass_eqb (sc w st (sr_url s)) CUnknownStatus)
                   | _ => false end = false).
    { destruct (find (dec (w_ocsp w) (w_now w) st) (u0 :: r0)) as [u|] eqn:F.
      - subst o. cbn [cr_method cr_result cr_servers sr_url rmethod_eqb andb].
        apply find_some in F. destruct F as [_ D]. unfold dec in D. unfold sc.
        destruct (server_check (w_ocsp w) (w_now w) st u); cbn in D |- *; try discriminate; rewrite ?andb_false_r; reflexivity.
      - subst o. cbn [cr_method cr_result cr_servers rmethod_eqb rres_eqb andb map].
        destruct r0 as [|u1 r1]; [cbn; reflexivity|]. cbn [map]. rewrite andb_false_r. reflexivity. }
    destruct (cr_result o) eqn:R; try (cbn [fst]; rewrite R; exact Core).
    destruct (c_crl c) as [|v0 s0] eqn:EC; [cbn [fst]; rewrite R; exact Core|].
    destruct (crl_check _ _ _ _ _ _) as [r clog]. cbn [fst cr_method rmethod_eqb andb]. reflexivity.
Qed.

(* ---- C04 / C05: the leaf result of the model passes the clauses of Run/C04.v and Run/C05.v ---- *)
From NCG Require Run.C04 Run.C05.
Theorem model_passes_c04_spec w st urls : urls <> [] ->
  Run.C04.c04_spec w st urls (cr_result (fst (ocsp_check (w_ocsp w) (w_now w) st urls))) = 0.
Proof.
  intros Hne. rewrite (ocsp_check_exact (w_ocsp w) (w_now w) st urls Hne). unfold Run.C04.c04_spec.
  change (fun u => decisive (server_check (w_ocsp w) (w_now w) st u)) with (dec (w_ocsp w) (w_now w) st).
  destruct (find (dec (w_ocsp w) (w_now w) st) urls) as [u|] eqn:F.
  - cbn [cr_result]. pose proof (find_some _ _ F) as [Hin D]. unfold dec in D.
    destruct (server_check (w_ocsp w) (w_now w) st u) eqn:S; cbn in D; try discriminate; cbn [sclass_res rres_eqb andb negb Run.C04.sclass_eqb]; try reflexivity.
    assert (E : existsb (fun u0 => Run.C04.sclass_eqb (server_check (w_ocsp w) (w_now w) st u0) COk) urls = true).
    { apply existsb_exists. exists u. split; [exact Hin|rewrite S; reflexivity]. }
    rewrite E. reflexivity.
  - cbn [cr_result rres_eqb andb]. reflexivity.
Qed.

Theorem model_passes_c05_spec w st leaf : c_crl leaf <> [] ->
  Run.C05.c05_spec w st leaf (cr_result (fst (crl_check (w_fetch w) (w_now w) st (c_serial leaf) (c_freshest leaf) (c_crl leaf)))) = 0.
Proof.
  intros Hne. rewrite (crl_check_exact (w_fetch w) (w_now w) st (c_serial leaf) (c_freshest leaf) (c_crl leaf) Hne).
  unfold Run.C05.c05_spec.
  destruct (find (fun u => negb (clear_b (w_fetch w) (w_now w) st (c_serial leaf) (c_freshest leaf) u)) (c_crl leaf)) as [u|] eqn:F.
  - cbn [cr_result]. unfold stop_result.
    destruct (point_check (w_fetch w) (w_now w) st (c_serial leaf) (c_freshest leaf) u) as [[| |]|]; cbn [rres_eqb andb negb]; reflexivity.
  - cbn [cr_result rres_eqb andb].
    assert (A : forallb (clear_b (w_fetch w) (w_now w) st (c_serial leaf) (c_freshest leaf)) (c_crl leaf) = true).
    { apply forallb_forall. intros v Hv. pose proof (find_none _ _ F v Hv) as N. apply negb_false_iff in N. exact N. }
    rewrite A. reflexivity.
Qed.
