From NCG Require Import Model.Ocsp.
From Coq Require Import Lia.

(* ============ declarative vocabulary of C04 ============ *)

(* the response is authentic: the library accepted it (signature verifies under the named key,
   it is for this serial, an embedded signer was issued by the issuer) and the signer is the
   issuer or a delegate the issuer authorised for OCSP signing *)
Definition Authentic (r : oresp) : Prop :=
  o_sig_valid r = true /\ o_serial_match r = true /\
  match o_signer r with
  | ByIssuer => True
  | ByEmbedded issued is_iss eku => issued = true /\ (is_iss = true \/ eku = true)
  end.

Definition Current (now : Z) (r : oresp) : Prop := o_next r <> 0 /\ now <= o_next r.

(* Good, or Revoked with an invalidity date later than a supplied signing time *)
Definition SaysGood (st : Z) (r : oresp) : Prop :=
  o_status r = SGood \/ (o_status r = SRevoked /\ st <> 0 /\ exists t, o_inv r = InvDate t /\ st < t).
Definition SaysRevoked (st : Z) (r : oresp) : Prop :=
  o_status r = SRevoked /\ ~ (st <> 0 /\ exists t, o_inv r = InvDate t /\ st < t).

Section Spec.
Variable outcome : Z -> url_outcome.
Variables now st : Z.
Hypothesis now_pos : 0 < now.

Lemma authentic_iff r : lib_accepts r && authorised r = true <-> Authentic r.
Proof.
  unfold lib_accepts, authorised, Authentic. destruct (o_signer r) as [|issued is_iss eku].
  - rewrite !andb_true_iff. tauto.
  - rewrite !andb_true_iff, orb_true_iff. tauto.
Qed.

Lemma server_check_ok u :
  server_check outcome now st u = COk <->
  exists r, outcome u = UResp r /\ Authentic r /\ Current now r /\ SaysGood st r.
Proof.
  unfold server_check. destruct (outcome u) as [| |r] eqn:O.
  - split; [discriminate|intros [r [H _]]; discriminate].
  - split; [discriminate|intros [r [H _]]; discriminate].
  - pose proof (authentic_iff r) as HA. unfold Current, SaysGood.
    destruct (lib_accepts r); cbn [negb andb] in *.
    2:{ split; [discriminate|]. intros [r0 [E [A _]]]. inversion E; subst. apply HA in A. discriminate. }
    destruct (authorised r); cbn [negb] in *.
    2:{ split; [discriminate|]. intros [r0 [E [A _]]]. inversion E; subst. apply HA in A. discriminate. }
    destruct (o_next r <? now) eqn:N.
    + apply Z.ltb_lt in N. split; [discriminate|]. intros [r0 [E [_ [[_ C] _]]]]. inversion E; subst. lia.
    + apply Z.ltb_ge in N. assert (Hc : o_next r <> 0 /\ now <= o_next r) by lia.
      destruct (o_inv r) as [| |t] eqn:I; destruct (o_status r) eqn:S; cbn [negb andb];
      try (split; [intros _; exists r; repeat split; try tauto; try lia; left; reflexivity
                  |reflexivity]);
      try (split; [discriminate|intros [r0 [E [_ [_ [G|[G1 [G2 [t0 [G3 G4]]]]]]]]]; inversion E; subst; congruence]).
      destruct (negb (st =? 0) && (st <? t)) eqn:C.
      * apply andb_true_iff in C. destruct C as [C1 C2]. apply negb_true_iff, Z.eqb_neq in C1. apply Z.ltb_lt in C2.
        split; [intros _|reflexivity]. exists r. repeat split; try tauto; try lia. right. repeat split; auto. exists t. split; [reflexivity|exact C2].
      * split; [discriminate|]. intros [r0 [E [_ [_ [G|[G1 [G2 [t0 [G3 G4]]]]]]]]]; inversion E; subst; [congruence|].
        rewrite I in G3. inversion G3; subst. apply andb_false_iff in C. destruct C as [C|C].
        -- apply negb_false_iff, Z.eqb_eq in C. contradiction.
        -- apply Z.ltb_ge in C. lia.
Qed.

Lemma server_check_revoked u :
  server_check outcome now st u = CRevoked <->
  exists r, outcome u = UResp r /\ Authentic r /\ Current now r /\ SaysRevoked st r.
Proof.
  unfold server_check. destruct (outcome u) as [| |r] eqn:O.
  - split; [discriminate|intros [r [H _]]; discriminate].
  - split; [discriminate|intros [r [H _]]; discriminate].
  - pose proof (authentic_iff r) as HA. unfold Current, SaysRevoked.
    destruct (lib_accepts r); cbn [negb andb] in *.
    2:{ split; [discriminate|]. intros [r0 [E [A _]]]. inversion E; subst. apply HA in A. discriminate. }
    destruct (authorised r); cbn [negb] in *.
    2:{ split; [discriminate|]. intros [r0 [E [A _]]]. inversion E; subst. apply HA in A. discriminate. }
    destruct (o_next r <? now) eqn:N.
    + apply Z.ltb_lt in N. split; [discriminate|]. intros [r0 [E [_ [[_ C] _]]]]. inversion E; subst. lia.
    + apply Z.ltb_ge in N. assert (Hc : o_next r <> 0 /\ now <= o_next r) by lia.
      destruct (o_inv r) as [| |t] eqn:I; destruct (o_status r) eqn:S; cbn [negb andb];
      try (split; [discriminate|intros [r0 [E [_ [_ [G _]]]]]; inversion E; subst; congruence]);
      try (split; [intros _; exists r; repeat split; try tauto; try lia; intros [_ [t0 [G _]]]; discriminate|reflexivity]).
      destruct (negb (st =? 0) && (st <? t)) eqn:C.
      * apply andb_true_iff in C. destruct C as [C1 C2]. apply negb_true_iff, Z.eqb_neq in C1. apply Z.ltb_lt in C2.
        split; [discriminate|]. intros [r0 [E [_ [_ [_ G]]]]]. inversion E; subst. exfalso. apply G. split; [exact C1|]. exists t. split; [exact I|exact C2].
      * split; [intros _|reflexivity]. exists r. repeat split; try tauto; try lia.
        intros [G2 [t0 [G3 G4]]]. rewrite I in G3. inversion G3; subst. apply andb_false_iff in C. destruct C as [C|C].
        -- apply negb_false_iff, Z.eqb_eq in C. contradiction.
        -- apply Z.ltb_ge in C. lia.
Qed.

(* ---- the responder loop: the first decisive URL decides ---- *)
Definition dec (u : Z) : bool := decisive (server_check outcome now st u).

Lemma ocsp_loop_char : forall urls acc log,
  fst (ocsp_loop outcome now st urls acc log) =
  match find dec urls with
  | Some u => let r := sclass_res (server_check outcome now st u) in CRes r [SRes r u] MOCSP
  | None => let all := rev acc ++ map (SRes RUnknown) urls in
            CRes (match rev all with s :: _ => sr_result s | [] => RUnknown end) all MOCSP
  end.
Proof.
  induction urls as [|u r IH]; intros acc log; cbn [ocsp_loop find map].
  - cbn. rewrite app_nil_r, rev_involutive. reflexivity.
  - unfold dec at 1. destruct (decisive (server_check outcome now st u)) eqn:D.
    + reflexivity.
    + rewrite IH. fold dec. destruct (find dec r); [reflexivity|].
      cbn [rev]. rewrite <- app_assoc. reflexivity.
Qed.

Theorem ocsp_check_exact urls : urls <> [] ->
  fst (ocsp_check outcome now st urls) =
  match find dec urls with
  | Some u => let r := sclass_res (server_check outcome now st u) in CRes r [SRes r u] MOCSP
  | None => CRes RUnknown (map (SRes RUnknown) urls) MOCSP
  end.
Proof.
  intros Hne. unfold ocsp_check. destruct urls as [|u0 r0]; [contradiction|].
  rewrite ocsp_loop_char. destruct (find dec (u0 :: r0)); [reflexivity|].
  cbn [rev app]. f_equal.
  set (l := map (SRes RUnknown) (u0 :: r0)).
  assert (H : forall x, In x (rev l) -> sr_result x = RUnknown).
  { intros x Hx. apply in_rev in Hx. apply in_map_iff in Hx. destruct Hx as [y [<- _]]. reflexivity. }
  destruct (rev l) as [|s t] eqn:E; [reflexivity|]. apply H. left; reflexivity.
Qed.

(* the contact log: every URL up to and including the first decisive one, except those whose
   URL string is unusable (no request is made for them) *)
Lemma ocsp_loop_log : forall urls acc log,
  snd (ocsp_loop outcome now st urls acc log) =
  rev log ++ filter (contacts outcome)
    (match find dec urls with
     | Some _ => (fix upto (l : list Z) := match l with [] => [] | x :: r => if dec x then [x] else x :: upto r end) urls
     | None => urls end).
Proof.
  induction urls as [|u r IH]; intros acc log; cbn [ocsp_loop find].
  - cbn. rewrite app_nil_r. reflexivity.
  - unfold dec at 1 3. destruct (decisive (server_check outcome now st u)) eqn:D.
    + cbn [snd filter]. destruct (contacts outcome u); cbn [rev]; [rewrite <- app_assoc|rewrite app_nil_r]; reflexivity.
    + rewrite IH. fold dec. destruct (find dec r); cbn [filter]; destruct (contacts outcome u); cbn [rev]; rewrite <- ?app_assoc; reflexivity.
Qed.

(* ---- C04: soundness of OK, Revoked, never-OK ---- *)
Theorem ok_sound urls :
  cr_result (fst (ocsp_check outcome now st urls)) = ROK ->
  exists u r, In u urls /\ outcome u = UResp r /\ Authentic r /\ Current now r /\ SaysGood st r /\
    (forall v, In v urls -> dec v = true -> v = u \/ True) /\
    find dec urls = Some u.
Proof.
  intros H. destruct urls as [|u0 r0] eqn:E; [discriminate|]. rewrite <- E in *.
  rewrite ocsp_check_exact in H by (rewrite E; discriminate).
  destruct (find dec urls) as [u|] eqn:F; [|discriminate].
  cbn in H. apply find_some in F as F'. destruct F' as [Hin Hd].
  destruct (server_check outcome now st u) eqn:S; try discriminate.
  apply server_check_ok in S. destruct S as [r [O [A [C G]]]].
  exists u, r. repeat split; auto.
Qed.

Theorem ok_iff urls : urls <> [] ->
  (cr_result (fst (ocsp_check outcome now st urls)) = ROK <->
   exists u, find dec urls = Some u /\ server_check outcome now st u = COk).
Proof.
  intros Hne. rewrite ocsp_check_exact by exact Hne. destruct (find dec urls) as [u|] eqn:F.
  - cbn. split.
    + intros H. exists u. split; [reflexivity|]. destruct (server_check outcome now st u); try discriminate. reflexivity.
    + intros [u' [E S]]. inversion E; subst. rewrite S. reflexivity.
  - cbn. split; [discriminate|intros [u [E _]]; discriminate].
Qed.

Theorem revoked_iff urls : urls <> [] ->
  (cr_result (fst (ocsp_check outcome now st urls)) = RRevoked <->
   exists u, find dec urls = Some u /\ server_check outcome now st u = CRevoked).
Proof.
  intros Hne. rewrite ocsp_check_exact by exact Hne. destruct (find dec urls) as [u|] eqn:F.
  - cbn. split.
    + intros H. exists u. split; [reflexivity|]. destruct (server_check outcome now st u); try discriminate. reflexivity.
    + intros [u' [E S]]. inversion E; subst. rewrite S. reflexivity.
  - cbn. split; [discriminate|intros [u [E _]]; discriminate].
Qed.

(* each of these makes the URL's own entry something other than OK *)
Theorem never_ok u :
  (outcome u = UBadURL \/ outcome u = UErr \/
   exists r, outcome u = UResp r /\
     (o_sig_valid r = false \/ o_serial_match r = false \/
      (exists a b, o_signer r = ByEmbedded false a b) \/      (* signer not issued by the issuer *)
      (exists a, o_signer r = ByEmbedded a false false) \/    (* the certificate under check, a sibling: no OCSP-signing usage *)
      o_next r < now \/                                       (* expired, or no next-update (0) *)
      o_status r = SUnknownStatus \/
      (o_status r = SRevoked /\ (st = 0 \/ o_inv r = InvAbsent \/ o_inv r = InvUnusable \/ exists t, o_inv r = InvDate t /\ t <= st)))) ->
  server_check outcome now st u <> COk.
Proof.
  intros H S. apply server_check_ok in S. destruct S as [r [O [[A1 [A2 A3]] [[C1 C2] G]]]].
  destruct H as [H|[H|[r0 [E H]]]]; try congruence. rewrite O in E. inversion E; subst r0.
  destruct H as [H|[H|[[a [b H]]|[[a H]|[H|[H|[H1 H2]]]]]]]; try congruence.
  - rewrite H in A3. destruct A3; discriminate.
  - rewrite H in A3. destruct A3 as [_ [A|A]]; discriminate.
  - lia.
  - destruct G as [G|[G _]]; congruence.
  - destruct G as [G|[_ [G1 [t [G2 G3]]]]]; [congruence|].
    destruct H2 as [H2|[H2|[H2|[t0 [H2 H3]]]]]; try congruence. rewrite G2 in H2. inversion H2; subst. lia.
Qed.

(* all URLs failing: Unknown with one entry per responder *)
Theorem all_fail urls : urls <> [] -> (forall u, In u urls -> dec u = false) ->
  fst (ocsp_check outcome now st urls) = CRes RUnknown (map (SRes RUnknown) urls) MOCSP.
Proof.
  intros Hne H. rewrite ocsp_check_exact by exact Hne.
  destruct (find dec urls) as [u|] eqn:F; [|reflexivity]. apply find_some in F. destruct F as [Hi Hd]. rewrite (H u Hi) in Hd. discriminate.
Qed.
End Spec.

(* non-vacuity: an authentic Good answer behind a failing responder gives OK; the same answer
   signed by the checked certificate itself (issued by the issuer, no OCSP-signing usage) does not *)
Example ocsp_example :
  let good := OResp ByIssuer true true SGood 200 InvAbsent in
  let self := OResp (ByEmbedded true false false) true true SGood 200 InvAbsent in
  let w1 := fun u => if u =? 1 then UErr else UResp good in
  let w2 := fun u => if u =? 1 then UErr else UResp self in
  cr_result (fst (ocsp_check w1 100 0 [1; 2])) = ROK /\ cr_result (fst (ocsp_check w2 100 0 [1; 2])) = RUnknown.
Proof. split; reflexivity. Qed.
