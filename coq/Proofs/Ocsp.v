From NCG Require Import Model.Ocsp.
From Coq Require Import Lia.

(* ============ declarative vocabulary of C04 ============ *)

(* the response is authentic: the library accepted it (signature verifies under the named key,
   it is for this serial, an embedded signer was issued by the issuer) and the signer is the
   issuer or a delegate the issuer authorised for OCSP signing *)
Definition Authentic (r : oresp) : Prop :=
  o_sig_valid r = true /\ o_serial_match r = true /\
  match o_signer r with
  | ByIssuer => True
  | ByEmbedded issued is_iss eku => issued = true /\ (is_iss = true \/ eku = true)
  end.

Definition Current (now : Z) (r : oresp) : Prop := o_next r <> 0 /\ now <= o_next r.

(* Good, or Revoked with an invalidity date later than a supplied signing time *)
Definition SaysGood (st : Z) (r : oresp) : Prop :=
  o_status r = SGood \/ (o_status r = SRevoked /\ st <> 0 /\ exists t, o_inv r = InvDate t /\ st < t).
Definition SaysRevoked (st : Z) (r : oresp) : Prop :=
  o_status r = SRevoked /\ ~ (st <> 0 /\ exists t, o_inv r = InvDate t /\ st < t).

Section Spec.
Variable outcome : Z -> url_outcome.
Variables now st : Z.
Hypothesis now_pos : 0 < now.

Lemma authentic_iff r : lib_accepts r && authorised r = true <-> Authentic r.
Proof.
  unfold lib_accepts, authorised, Authentic. destruct (o_signer r) as [|issued is_iss eku].
  - rewrite !andb_true_iff. tauto.
  - rewrite !andb_true_iff, orb_true_iff. tauto.
Qed.

(* the status switch once the response is authentic and current *)
Definition classify (r : oresp) : sclass :=
  match o_inv r, o_status r with
  | InvDate t, SRevoked => if negb (st =? 0) && (st <? t) then COk else CRevoked
  | _, SGood => COk
  | _, SRevoked => CRevoked
  | _, SUnknownStatus => CUnknownStatus
  end.

Lemma excused_iff t : negb (st =? 0) && (st <? t) = true <-> st <> 0 /\ st < t.
Proof. rewrite andb_true_iff, negb_true_iff, Z.eqb_neq, Z.ltb_lt. tauto. Qed.

Lemma classify_ok r : classify r = COk <-> SaysGood st r.
Proof.
  unfold classify, SaysGood.
  destruct (o_inv r) as [| |t] eqn:I; destruct (o_status r) eqn:S.
  all: try (split; [intros _; left; reflexivity | reflexivity]).
  all: try (split; [discriminate | intros [G|[G1 [G2 [t0 [G3 G4]]]]]; congruence]).
  destruct (negb (st =? 0) && (st <? t)) eqn:C.
  - apply excused_iff in C. split; [intros _|reflexivity]. right. split; [reflexivity|]. split; [tauto|]. exists t. split; [reflexivity|tauto].
  - split; [discriminate|]. intros [G|[G1 [G2 [t0 [G3 G4]]]]]; [discriminate|]. inversion G3; subst t0.
    assert (H : negb (st =? 0) && (st <? t) = true) by (apply excused_iff; tauto). congruence.
Qed.

Lemma classify_revoked r : classify r = CRevoked <-> SaysRevoked st r.
Proof.
  unfold classify, SaysRevoked.
  destruct (o_inv r) as [| |t] eqn:I; destruct (o_status r) eqn:S.
  all: try (split; [discriminate | intros [G _]; discriminate]).
  all: try (split; [intros _; split; [reflexivity|]; intros [_ [t0 [G _]]]; discriminate | reflexivity]).
  destruct (negb (st =? 0) && (st <? t)) eqn:C.
  - apply excused_iff in C. split; [discriminate|]. intros [_ G]. exfalso. apply G. split; [tauto|]. exists t. split; [reflexivity|tauto].
  - split; [intros _|reflexivity]. split; [reflexivity|]. intros [G2 [t0 [G3 G4]]]. inversion G3; subst t0.
    assert (H : negb (st =? 0) && (st <? t) = true) by (apply excused_iff; tauto). congruence.
Qed.

Lemma current_iff r : negb (o_next r <? now) = true <-> Current now r.
Proof. unfold Current. rewrite negb_true_iff, Z.ltb_ge. lia. Qed.

Lemma server_check_resp u r : outcome u = UResp r ->
  server_check outcome now st u =
  if lib_accepts r && authorised r && negb (o_next r <? now) then classify r else CError.
Proof.
  intros O. unfold server_check, classify. rewrite O.
  destruct (lib_accepts r); cbn [negb andb]; [|reflexivity].
  destruct (authorised r); cbn [negb andb]; [|reflexivity].
  destruct (o_next r <? now); cbn [negb]; reflexivity.
Qed.

Lemma server_check_class u (k : sclass) : k <> CError ->
  (server_check outcome now st u = k <->
   exists r, outcome u = UResp r /\ Authentic r /\ Current now r /\ classify r = k).
Proof.
  intros Hk. destruct (outcome u) as [| |r] eqn:O.
  - unfold server_check. rewrite O. split; [congruence|intros [r [H _]]; discriminate].
  - unfold server_check. rewrite O. split; [congruence|intros [r [H _]]; discriminate].
  - rewrite (server_check_resp u r O).
    destruct (lib_accepts r && authorised r) eqn:A; cbn [andb].
    + apply authentic_iff in A. destruct (negb (o_next r <? now)) eqn:N.
      * apply current_iff in N. split; [intros H; exists r; auto|]. intros [r0 [E [_ [_ H]]]]. inversion E; subst r0; exact H.
      * split; [congruence|]. intros [r0 [E [_ [C _]]]]. inversion E; subst r0. apply current_iff in C. congruence.
    + split; [congruence|]. intros [r0 [E [A' _]]]. inversion E; subst r0. apply authentic_iff in A'. congruence.
Qed.

Lemma server_check_ok u :
  server_check outcome now st u = COk <->
  exists r, outcome u = UResp r /\ Authentic r /\ Current now r /\ SaysGood st r.
Proof.
  rewrite server_check_class by discriminate. split; intros [r [O [A [C G]]]]; exists r; (split; [exact O|split; [exact A|split; [exact C|apply classify_ok; exact G]]]).
Qed.

Lemma server_check_revoked u :
  server_check outcome now st u = CRevoked <->
  exists r, outcome u = UResp r /\ Authentic r /\ Current now r /\ SaysRevoked st r.
Proof.
  rewrite server_check_class by discriminate. split; intros [r [O [A [C G]]]]; exists r; (split; [exact O|split; [exact A|split; [exact C|apply classify_revoked; exact G]]]).
Qed.

(* ---- the responder loop: the first decisive URL decides ---- *)
Definition dec (u : Z) : bool := decisive (server_check outcome now st u).

Lemma ocsp_loop_char : forall urls acc log,
  fst (ocsp_loop outcome now st urls acc log) =
  match find dec urls with
  | Some u => let r := sclass_res (server_check outcome now st u) in CRes r [SRes r u] MOCSP
  | None => let all := rev acc ++ map (SRes RUnknown) urls in
            CRes (match rev all with s :: _ => sr_result s | [] => RUnknown end) all MOCSP
  end.
Proof.
  induction urls as [|u r IH]; intros acc log; cbn [ocsp_loop find map].
  - cbn. rewrite app_nil_r, rev_involutive. reflexivity.
  - unfold dec at 1. destruct (decisive (server_check outcome now st u)) eqn:D.
    + reflexivity.
    + rewrite IH. fold dec. destruct (find dec r); [reflexivity|].
      cbn [rev]. rewrite <- app_assoc. reflexivity.
Qed.

Theorem ocsp_check_exact urls : urls <> [] ->
  fst (ocsp_check outcome now st urls) =
  match find dec urls with
  | Some u => let r := sclass_res (server_check outcome now st u) in CRes r [SRes r u] MOCSP
  | None => CRes RUnknown (map (SRes RUnknown) urls) MOCSP
  end.
Proof.
  intros Hne. unfold ocsp_check. destruct urls as [|u0 r0]; [contradiction|].
  rewrite ocsp_loop_char. destruct (find dec (u0 :: r0)); [reflexivity|].
  cbn [rev app]. f_equal.
  set (l := map (SRes RUnknown) (u0 :: r0)).
  assert (H : forall x, In x (rev l) -> sr_result x = RUnknown).
  { intros x Hx. apply in_rev in Hx. apply in_map_iff in Hx. destruct Hx as [y [<- _]]. reflexivity. }
  destruct (rev l) as [|s t] eqn:E; [reflexivity|]. apply H. left; reflexivity.
Qed.

(* the contact log: every URL up to and including the first decisive one, except those whose
   URL string is unusable (no request is made for them) *)
Fixpoint upto (l : list Z) : list Z :=
  match l with [] => [] | x :: r => if dec x then [x] else x :: upto r end.

Lemma ocsp_loop_log : forall urls acc log,
  snd (ocsp_loop outcome now st urls acc log) = rev log ++ filter (contacts outcome) (upto urls).
Proof.
  induction urls as [|u r IH]; intros acc log; cbn [ocsp_loop upto].
  - cbn. rewrite app_nil_r. reflexivity.
  - unfold dec at 1. destruct (decisive (server_check outcome now st u)) eqn:D.
    + cbn [snd filter]. destruct (contacts outcome u); cbn [rev app]; rewrite ?app_nil_r; reflexivity.
    + rewrite IH. cbn [filter]. destruct (contacts outcome u); cbn [rev]; rewrite <- ?app_assoc; reflexivity.
Qed.

Theorem ocsp_check_log urls :
  snd (ocsp_check outcome now st urls) = filter (contacts outcome) (upto urls).
Proof. destruct urls as [|u r]; [reflexivity|]. unfold ocsp_check. rewrite ocsp_loop_log. reflexivity. Qed.

(* ---- C04: soundness of OK, Revoked, never-OK ---- *)
Lemma find_split {A} (f : A -> bool) : forall l u, find f l = Some u ->
  exists l1 l2, l = l1 ++ u :: l2 /\ f u = true /\ forall v, In v l1 -> f v = false.
Proof.
  induction l as [|x r IH]; intros u H; [discriminate|]. cbn [find] in H. destruct (f x) eqn:Fx.
  - inversion H; subst x. exists [], r. split; [reflexivity|]. split; [exact Fx|]. intros v [].
  - destruct (IH u H) as [l1 [l2 [E [Fu Hl]]]]. exists (x :: l1), l2. split; [rewrite E; reflexivity|]. split; [exact Fu|].
    intros v [<-|Hv]; [exact Fx|exact (Hl v Hv)].
Qed.

(* OK only on an authentic, current Good answer; the responders before it were all non-decisive
   (errors), and it is the first decisive one *)
Theorem ok_sound urls :
  cr_result (fst (ocsp_check outcome now st urls)) = ROK ->
  exists u r l1 l2, urls = l1 ++ u :: l2 /\ outcome u = UResp r /\ Authentic r /\ Current now r /\ SaysGood st r /\
    (forall v, In v l1 -> server_check outcome now st v = CError).
Proof.
  intros H. destruct urls as [|u0 r0] eqn:E; [discriminate|]. rewrite <- E in *.
  rewrite ocsp_check_exact in H by (rewrite E; discriminate).
  destruct (find dec urls) as [u|] eqn:F; [|discriminate].
  cbn in H. destruct (find_split dec urls u F) as [l1 [l2 [Hs [Hd Hl]]]].
  destruct (server_check outcome now st u) eqn:S; try discriminate.
  apply server_check_ok in S. destruct S as [r [O [A [C G]]]].
  exists u, r, l1, l2. split; [exact Hs|]. split; [exact O|]. split; [exact A|]. split; [exact C|]. split; [exact G|].
  intros v Hv. specialize (Hl v Hv). unfold dec in Hl. destruct (server_check outcome now st v); try discriminate. reflexivity.
Qed.

Theorem revoked_sound urls :
  cr_result (fst (ocsp_check outcome now st urls)) = RRevoked ->
  exists u r l1 l2, urls = l1 ++ u :: l2 /\ outcome u = UResp r /\ Authentic r /\ Current now r /\ SaysRevoked st r /\
    (forall v, In v l1 -> server_check outcome now st v = CError).
Proof.
  intros H. destruct urls as [|u0 r0] eqn:E; [discriminate|]. rewrite <- E in *.
  rewrite ocsp_check_exact in H by (rewrite E; discriminate).
  destruct (find dec urls) as [u|] eqn:F; [|discriminate].
  cbn in H. destruct (find_split dec urls u F) as [l1 [l2 [Hs [Hd Hl]]]].
  destruct (server_check outcome now st u) eqn:S; try discriminate.
  apply server_check_revoked in S. destruct S as [r [O [A [C G]]]].
  exists u, r, l1, l2. split; [exact Hs|]. split; [exact O|]. split; [exact A|]. split; [exact C|]. split; [exact G|].
  intros v Hv. specialize (Hl v Hv). unfold dec in Hl. destruct (server_check outcome now st v); try discriminate. reflexivity.
Qed.

Theorem ok_iff urls : urls <> [] ->
  (cr_result (fst (ocsp_check outcome now st urls)) = ROK <->
   exists u, find dec urls = Some u /\ server_check outcome now st u = COk).
Proof.
  intros Hne. rewrite ocsp_check_exact by exact Hne. destruct (find dec urls) as [u|] eqn:F.
  - cbn. split.
    + intros H. exists u. split; [reflexivity|]. destruct (server_check outcome now st u); try discriminate. reflexivity.
    + intros [u' [E S]]. inversion E; subst. rewrite S. reflexivity.
  - cbn. split; [discriminate|intros [u [E _]]; discriminate].
Qed.

Theorem revoked_iff urls : urls <> [] ->
  (cr_result (fst (ocsp_check outcome now st urls)) = RRevoked <->
   exists u, find dec urls = Some u /\ server_check outcome now st u = CRevoked).
Proof.
  intros Hne. rewrite ocsp_check_exact by exact Hne. destruct (find dec urls) as [u|] eqn:F.
  - cbn. split.
    + intros H. exists u. split; [reflexivity|]. destruct (server_check outcome now st u); try discriminate. reflexivity.
    + intros [u' [E S]]. inversion E; subst. rewrite S. reflexivity.
  - cbn. split; [discriminate|intros [u [E _]]; discriminate].
Qed.

(* each of these makes the URL's own entry something other than OK *)
Theorem never_ok u :
  (outcome u = UBadURL \/ outcome u = UErr \/
   exists r, outcome u = UResp r /\
     (o_sig_valid r = false \/ o_serial_match r = false \/
      (exists a b, o_signer r = ByEmbedded false a b) \/      (* signer not issued by the issuer *)
      (exists a, o_signer r = ByEmbedded a false false) \/    (* the certificate under check, a sibling: no OCSP-signing usage *)
      o_next r < now \/                                       (* expired, or no next-update (0) *)
      o_status r = SUnknownStatus \/
      (o_status r = SRevoked /\ (st = 0 \/ o_inv r = InvAbsent \/ o_inv r = InvUnusable \/ exists t, o_inv r = InvDate t /\ t <= st)))) ->
  server_check outcome now st u <> COk.
Proof.
  intros H S. apply server_check_ok in S. destruct S as [r [O [[A1 [A2 A3]] [[C1 C2] G]]]].
  destruct H as [H|[H|[r0 [E H]]]]; try congruence. rewrite O in E. inversion E; subst r0.
  destruct H as [H|[H|[[a [b H]]|[[a H]|[H|[H|[H1 H2]]]]]]]; try congruence.
  - rewrite H in A3. destruct A3; discriminate.
  - rewrite H in A3. destruct A3 as [_ [A|A]]; discriminate.
  - lia.
  - destruct G as [G|[G _]]; congruence.
  - destruct G as [G|[_ [G1 [t [G2 G3]]]]]; [congruence|].
    destruct H2 as [H2|[H2|[H2|[t0 [H2 H3]]]]]; try congruence. rewrite G2 in H2. inversion H2; subst. lia.
Qed.

(* all URLs failing: Unknown with one entry per responder *)
Theorem all_fail urls : urls <> [] -> (forall u, In u urls -> dec u = false) ->
  fst (ocsp_check outcome now st urls) = CRes RUnknown (map (SRes RUnknown) urls) MOCSP.
Proof.
  intros Hne H. rewrite ocsp_check_exact by exact Hne.
  destruct (find dec urls) as [u|] eqn:F; [|reflexivity]. apply find_some in F. destruct F as [Hi Hd]. rewrite (H u Hi) in Hd. discriminate.
Qed.
End Spec.

(* non-vacuity: an authentic Good answer behind a failing responder gives OK; the same answer
   signed by the checked certificate itself (issued by the issuer, no OCSP-signing usage) does not *)
Example ocsp_example :
  let good := OResp ByIssuer true true SGood 200 InvAbsent in
  let self := OResp (ByEmbedded true false false) true true SGood 200 InvAbsent in
  let w1 := fun u => if u =? 1 then UErr else UResp good in
  let w2 := fun u => if u =? 1 then UErr else UResp self in
  cr_result (fst (ocsp_check w1 100 0 [1; 2])) = ROK /\ cr_result (fst (ocsp_check w2 100 0 [1; 2])) = RUnknown.
Proof. split; reflexivity. Qed.

(* ---- time only invalidates a response: an answer that is usable at now' was the same answer
   at every earlier instant, and a failing server keeps failing ---- *)
Theorem server_check_antitone outcome now now' st u : now <= now' ->
  server_check outcome now' st u <> CError ->
  server_check outcome now st u = server_check outcome now' st u.
Proof.
  unfold server_check. intros L H. destruct (outcome u) as [| |r]; try reflexivity.
  destruct (negb (lib_accepts r)); [reflexivity|]. destruct (negb (authorised r)); [reflexivity|].
  destruct (o_next r <? now') eqn:E; [exfalso; apply H; reflexivity|].
  apply Z.ltb_ge in E. assert (o_next r <? now = false) as -> by (apply Z.ltb_ge; lia). reflexivity.
Qed.

Theorem server_error_persists outcome now now' st u : now <= now' ->
  server_check outcome now st u = CError -> server_check outcome now' st u = CError.
Proof.
  unfold server_check. intros L H. destruct (outcome u) as [| |r]; try reflexivity.
  destruct (negb (lib_accepts r)); [reflexivity|]. destruct (negb (authorised r)); [reflexivity|].
  destruct (o_next r <? now) eqn:E.
  - apply Z.ltb_lt in E. assert (o_next r <? now' = true) as -> by (apply Z.ltb_lt; lia). reflexivity.
  - destruct (o_next r <? now'); [reflexivity|]. exact H.
Qed.
