From NCG Require Import Model.Trust.
From Coq Require Import Lia Arith.
Local Open Scope nat_scope.

(* ---------- declarative spec (the property text) ---------- *)

Definition in_trust (c : tcert) (trust : list tcert) : Prop :=
  exists t, In t trust /\ t_raw t = t_raw c.

(* (i, j) is the leaf-most match: chain[i] is byte-identical to trust[j], no earlier chain
   certificate is in the trust list, and no earlier trust entry is byte-identical to chain[i]. *)
Definition first_match (chain trust : list tcert) (i j : nat) : Prop :=
  exists c t, nth_error chain i = Some c /\ nth_error trust j = Some t /\ t_raw t = t_raw c /\
    (forall i' c', i' < i -> nth_error chain i' = Some c' -> ~ in_trust c' trust) /\
    (forall j' t', j' < j -> nth_error trust j' = Some t' -> t_raw t' <> t_raw c).

Lemma find_idx_some c trust : forall j0 j,
  find_idx c trust j0 = Some j ->
  exists t, j0 <= j /\ nth_error trust (j - j0) = Some t /\ t_raw t = t_raw c /\
    (forall j' t', j' < j - j0 -> nth_error trust j' = Some t' -> t_raw t' <> t_raw c).
Proof.
  induction trust as [|t r IH]; intros j0 j H; cbn [find_idx] in H; [discriminate|].
  unfold cert_equal in H. destruct (t_raw t =? t_raw c)%Z eqn:E.
  - inversion H; subst. exists t. rewrite Nat.sub_diag. cbn. apply Z.eqb_eq in E.
    repeat split; auto. intros j' t' Hlt. lia.
  - apply IH in H. destruct H as [t0 [Hle [Hn [Hr Hmin]]]]. exists t0.
    assert (Hs : j - j0 = S (j - S j0)) by lia. rewrite Hs. cbn [nth_error].
    repeat split; auto; [lia|]. intros [|j'] t' Hlt Hn'; cbn in Hn'.
    + inversion Hn'; subst. apply Z.eqb_neq in E. exact E.
    + eapply Hmin; [|exact Hn']. lia.
Qed.

Lemma find_idx_none c trust : forall j0, find_idx c trust j0 = None <-> ~ in_trust c trust.
Proof.
  induction trust as [|t r IH]; intros j0; cbn [find_idx].
  - split; [intros _ [t [[] _]]|reflexivity].
  - unfold cert_equal. destruct (t_raw t =? t_raw c)%Z eqn:E.
    + split; [discriminate|]. intros H. exfalso. apply H. exists t. apply Z.eqb_eq in E. split; [left; reflexivity|exact E].
    + rewrite IH. apply Z.eqb_neq in E. split.
      * intros H [t0 [[<-|Hin] Hr]]; [contradiction|]. apply H. exists t0. auto.
      * intros H [t0 [Hin Hr]]. apply H. exists t0. split; [right; exact Hin|exact Hr].
Qed.

Lemma scan_chain_some chain trust j :
  scan_chain chain trust = Some j -> exists i, first_match chain trust i j.
Proof.
  induction chain as [|c r IH]; cbn [scan_chain]; [discriminate|].
  destruct (find_idx c trust 0) as [j1|] eqn:F.
  - intros H; inversion H; subst j1. apply find_idx_some in F.
    destruct F as [t [_ [Hn [Hr Hmin]]]]. rewrite Nat.sub_0_r in *.
    exists 0%nat, c, t. repeat split; auto. intros i' c' Hlt. lia.
  - intros H. apply IH in H. destruct H as [i [c0 [t [Hc [Ht [Hr [Hpre Hmin]]]]]]].
    exists (S i), c0, t. repeat split; auto.
    intros [|i'] c' Hlt Hn; cbn in Hn.
    + inversion Hn; subst. apply (find_idx_none c' trust 0%nat). exact F.
    + eapply Hpre; [|exact Hn]. lia.
Qed.

Lemma scan_chain_none chain trust :
  scan_chain chain trust = None <-> (forall c, In c chain -> ~ in_trust c trust).
Proof.
  induction chain as [|c r IH]; cbn [scan_chain].
  - split; [intros _ c []|reflexivity].
  - destruct (find_idx c trust 0) as [j1|] eqn:F.
    + split; [discriminate|]. intros H. exfalso. apply find_idx_some in F.
      destruct F as [t [_ [Hn [Hr _]]]]. apply (H c (or_introl eq_refl)).
      exists t. split; [eapply nth_error_In; exact Hn|exact Hr].
    + rewrite IH. apply find_idx_none in F. split.
      * intros H c0 [<-|Hin]; auto.
      * intros H c0 Hin. apply H. right; exact Hin.
Qed.

Lemma first_match_unique chain trust i j i2 j2 :
  first_match chain trust i j -> first_match chain trust i2 j2 -> i = i2 /\ j = j2.
Proof.
  intros [c [t [Hc [Ht [Hr [Hpre Hmin]]]]]] [c2 [t2 [Hc2 [Ht2 [Hr2 [Hpre2 Hmin2]]]]]].
  assert (i = i2).
  { destruct (lt_eq_lt_dec i i2) as [[Hlt|Heq]|Hgt]; [|exact Heq|].
    - exfalso. apply (Hpre2 i c Hlt Hc). exists t. split; [eapply nth_error_In; exact Ht|exact Hr].
    - exfalso. apply (Hpre i2 c2 Hgt Hc2). exists t2. split; [eapply nth_error_In; exact Ht2|exact Hr2]. }
  subst i2. split; [reflexivity|]. rewrite Hc in Hc2. inversion Hc2; subst c2.
  destruct (lt_eq_lt_dec j j2) as [[Hlt|Heq]|Hgt]; [|exact Heq|].
  - exfalso. apply (Hmin2 j t Hlt Ht). exact Hr.
  - exfalso. apply (Hmin j2 t2 Hgt Ht2). exact Hr2.
Qed.

(* C19: returns trust[j]  <->  (i, j) is the leaf-most exact match for some i *)
Theorem verify_authenticity_iff chain trust j :
  verify_authenticity (Some chain) trust = Trusted j <-> exists i, first_match chain trust i j.
Proof.
  unfold verify_authenticity. destruct trust as [|t0 tr] eqn:Et.
  - split; [discriminate|]. intros [i [c [t [_ [Ht _]]]]]. destruct j; discriminate.
  - rewrite <- Et. clear Et. destruct (scan_chain chain trust) as [j1|] eqn:S.
    + split.
      * intros H; inversion H; subst. eapply scan_chain_some; exact S.
      * intros [i Hfm]. apply scan_chain_some in S. destruct S as [i1 Hfm1].
        destruct (first_match_unique _ _ _ _ _ _ Hfm Hfm1) as [_ ->]. reflexivity.
    + split; [discriminate|]. intros [i [c [t [Hc [Ht [Hr _]]]]]]. exfalso.
      rewrite scan_chain_none in S. apply (S c); [eapply nth_error_In; exact Hc|].
      exists t. split; [eapply nth_error_In; exact Ht|exact Hr].
Qed.

(* a certificate is returned iff some chain certificate is byte-identical to a trusted one *)
Theorem verify_authenticity_some_iff chain trust :
  (exists j, verify_authenticity (Some chain) trust = Trusted j) <->
  (exists c, In c chain /\ in_trust c trust).
Proof.
  split.
  - intros [j H]. apply verify_authenticity_iff in H. destruct H as [i [c [t [Hc [Ht [Hr _]]]]]].
    exists c. split; [eapply nth_error_In; exact Hc|]. exists t. split; [eapply nth_error_In; exact Ht|exact Hr].
  - intros [c [Hin Htr]]. unfold verify_authenticity. destruct trust as [|t0 tr] eqn:Et.
    + destruct Htr as [t [[] _]].
    + rewrite <- Et in *. clear Et. destruct (scan_chain chain trust) as [j|] eqn:S; [eauto|].
      exfalso. rewrite scan_chain_none in S. exact (S c Hin Htr).
Qed.

(* look-alikes never matter: the outcome is a function of the raw identities alone *)
Lemma find_idx_raw c c' trust trust' : t_raw c = t_raw c' -> map t_raw trust = map t_raw trust' ->
  forall j0, find_idx c trust j0 = find_idx c' trust' j0.
Proof.
  intros Hc. revert trust'. induction trust as [|t r IH]; intros [|t' r'] Hm j0; cbn in Hm; try discriminate; [reflexivity|].
  inversion Hm as [[Ht Hr]]. cbn [find_idx]. unfold cert_equal. rewrite Ht, Hc.
  destruct (t_raw t' =? t_raw c')%Z; [reflexivity|]. apply IH. exact Hr.
Qed.

Theorem verify_authenticity_only_raw chain chain' trust trust' :
  map t_raw chain = map t_raw chain' -> map t_raw trust = map t_raw trust' ->
  verify_authenticity (Some chain) trust = verify_authenticity (Some chain') trust'.
Proof.
  intros Hc Ht. unfold verify_authenticity.
  assert (Hs : scan_chain chain trust = scan_chain chain' trust').
  { revert chain' Hc. induction chain as [|c r IH]; intros [|c' r'] Hc; cbn in Hc; try discriminate; [reflexivity|].
    inversion Hc as [[Hc1 Hc2]]. cbn [scan_chain]. rewrite (find_idx_raw c c' trust trust' Hc1 Ht 0%nat).
    destruct (find_idx c' trust' 0); [reflexivity|]. apply IH. exact Hc2. }
  destruct trust as [|t r], trust' as [|t' r']; cbn in Ht; try discriminate; [reflexivity|].
  rewrite Hs. reflexivity.
Qed.

Theorem arg_errors signer trust :
  (trust = [] -> verify_authenticity signer trust = ArgErrTrust) /\
  (trust <> [] -> signer = None -> verify_authenticity signer trust = ArgErrSigner) /\
  (verify_authenticity signer trust = AuthErr -> trust <> [] /\ exists chain, signer = Some chain /\
       forall c, In c chain -> ~ in_trust c trust).
Proof.
  unfold verify_authenticity. split; [intros ->; reflexivity|]. split.
  - intros Hn ->. destruct trust; [contradiction|reflexivity].
  - destruct trust as [|t r] eqn:Et; [discriminate|]. rewrite <- Et. destruct signer as [chain|]; [|discriminate].
    destruct (scan_chain chain trust) eqn:S; [discriminate|]. intros _. split; [rewrite Et; discriminate|].
    exists chain. split; [reflexivity|]. apply scan_chain_none. exact S.
Qed.

Theorem ast_iff scheme time :
  (exists t, authentic_signing_time scheme time = Some t) <-> (scheme = 1%Z /\ time <> 0%Z).
Proof.
  unfold authentic_signing_time. destruct (scheme =? 1)%Z eqn:E1; [apply Z.eqb_eq in E1|apply Z.eqb_neq in E1].
  - destruct (time =? 0)%Z eqn:E2; [apply Z.eqb_eq in E2|apply Z.eqb_neq in E2].
    + split; [intros [t H]; discriminate|intros [_ H]; contradiction].
    + split; [intros _; auto|intros _; eauto].
  - split; [intros [t H]; discriminate|intros [H _]; contradiction].
Qed.

Theorem ast_value scheme time t : authentic_signing_time scheme time = Some t -> t = time.
Proof.
  unfold authentic_signing_time. destruct (scheme =? 1)%Z; [|discriminate]. destruct (time =? 0)%Z; [discriminate|]. intros H; inversion H; reflexivity.
Qed.

(* non-vacuity: a look-alike (same subject, key, serial, issuer; other bytes) earlier in the
   chain does not establish trust, the exact match further up does *)
Example first_match_example :
  let lookalike := (Build_tcert 7 1 1 1 2) in
  let real := (Build_tcert 1 1 1 1 2) in
  let ca := (Build_tcert 2 2 2 2 2) in
  verify_authenticity (Some [lookalike; ca]) [real; ca; ca] = Trusted 1 /\
  verify_authenticity (Some [lookalike]) [real; ca] = AuthErr.
Proof. split; reflexivity. Qed.

(* ---- the trust store is monotone for acceptance and antitone for refusal: a chain trusted under
   a store stays trusted under every larger store; a chain refused under a store is refused
   under every smaller one ---- *)
Theorem trust_monotone chain trust trust' :
  (forall t, In t trust -> In t trust') ->
  (exists j, verify_authenticity (Some chain) trust = Trusted j) ->
  (exists j, verify_authenticity (Some chain) trust' = Trusted j).
Proof.
  intros Hsub H. apply verify_authenticity_some_iff in H. apply verify_authenticity_some_iff.
  destruct H as [c [Hc Ht]]. exists c. split; [exact Hc|].
  unfold in_trust in *. destruct Ht as [t [Hin Heq]]. exists t. split; [apply Hsub; exact Hin|exact Heq].
Qed.
