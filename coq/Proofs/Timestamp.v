(* C15: timestamped signing needs a verified, matching, unrevoked TSA token. *)
From NCG Require Import Model.Timestamp Proofs.Sign.
From Coq Require Import Permutation PeanoNat.
From Coq Require Import Lia.

(* ---------- the aggregation of the per-certificate revocation results ---------- *)
Lemma agg_scan_char : forall l u,
  agg_scan l u = if existsb (fun r => match r with RRevoked => true | _ => false end) l then ARevoked
                 else if u || negb (forallb res_ok l) then AUnknown else AOk.
Proof.
  induction l as [|r t IH]; intros u; cbn [agg_scan existsb forallb].
  - rewrite orb_false_r. destruct u; reflexivity.
  - destruct r; cbn [res_ok orb andb negb].
    + rewrite (IH true). destruct (existsb _ t); [reflexivity|]. rewrite orb_true_r. reflexivity.
    + rewrite (IH u). reflexivity.
    + rewrite (IH u). reflexivity.
    + reflexivity.
Qed.

Lemma existsb_rev {A} (f : A -> bool) l : existsb f (rev l) = existsb f l.
Proof.
  induction l as [|a t IH]; [reflexivity|]. cbn [rev]. rewrite existsb_app, IH. cbn. rewrite orb_false_r. apply orb_comm.
Qed.
Lemma forallb_rev {A} (f : A -> bool) l : forallb f (rev l) = forallb f l.
Proof.
  induction l as [|a t IH]; [reflexivity|]. cbn [rev]. rewrite forallb_app, IH. cbn. rewrite andb_true_r. apply andb_comm.
Qed.

(* accepted exactly when there is one result per certificate and every one is OK or NonRevokable *)
Theorem aggregate_ok_iff rs n :
  aggregate rs n = AOk <-> rs <> [] /\ length rs = n /\ Forall (fun r => r = ROK \/ r = RNonRevokable) rs.
Proof.
  unfold aggregate. destruct rs as [|r0 t] eqn:E; [split; [discriminate|intros [H _]; contradiction]|]. rewrite <- E.
  destruct (Nat.eqb (length rs) n) eqn:L; cbn [negb].
  - apply Nat.eqb_eq in L. rewrite agg_scan_char, existsb_rev, forallb_rev. cbn [orb].
    split.
    + intros H. split; [rewrite E; discriminate|]. split; [exact L|].
      destruct (existsb _ rs) eqn:X; [discriminate|]. destruct (forallb res_ok rs) eqn:F; [|discriminate].
      apply Forall_forall. intros r Hr. rewrite forallb_forall in F. specialize (F r Hr). destruct r; cbn in F; try discriminate; auto.
    + intros [_ [_ F]]. rewrite Forall_forall in F.
      assert (X : existsb (fun r => match r with RRevoked => true | _ => false end) rs = false).
      { destruct (existsb _ rs) eqn:Y; [|reflexivity]. apply existsb_exists in Y. destruct Y as [r [Hr Y]]. destruct (F r Hr) as [-> | ->]; discriminate. }
      assert (G : forallb res_ok rs = true).
      { apply forallb_forall. intros r Hr. destruct (F r Hr) as [-> | ->]; reflexivity. }
      rewrite X, G. reflexivity.
  - apply Nat.eqb_neq in L. split; [discriminate|]. intros [_ [H _]]. contradiction.
Qed.

(* a Revoked result anywhere always gives the revoked error (never the unknown one, never success) *)
Theorem aggregate_revoked_priority rs n : rs <> [] -> length rs = n -> In RRevoked rs -> aggregate rs n = ARevoked.
Proof.
  intros Hne L Hin. unfold aggregate. destruct rs as [|r0 t] eqn:E; [contradiction|]. rewrite <- E in *.
  assert (X : Nat.eqb (length rs) n = true) by (apply Nat.eqb_eq; exact L). rewrite X. cbn [negb].
  rewrite agg_scan_char, existsb_rev.
  assert (Y : existsb (fun r => match r with RRevoked => true | _ => false end) rs = true).
  { apply existsb_exists. exists RRevoked. split; [exact Hin|reflexivity]. }
  rewrite Y. reflexivity.
Qed.

Theorem aggregate_unknown rs n : rs <> [] -> length rs = n -> ~ In RRevoked rs -> In RUnknown rs -> aggregate rs n = AUnknown.
Proof.
  intros Hne L Hn Hin. unfold aggregate. destruct rs as [|r0 t] eqn:E; [contradiction|]. rewrite <- E in *.
  assert (X : Nat.eqb (length rs) n = true) by (apply Nat.eqb_eq; exact L). rewrite X. cbn [negb].
  rewrite agg_scan_char, existsb_rev, forallb_rev.
  assert (Y : existsb (fun r => match r with RRevoked => true | _ => false end) rs = false).
  { destruct (existsb _ rs) eqn:Z; [|reflexivity]. apply existsb_exists in Z. destruct Z as [r [Hr Z]]. destruct r; try discriminate. contradiction. }
  assert (G : forallb res_ok rs = false).
  { destruct (forallb res_ok rs) eqn:Z; [|reflexivity]. rewrite forallb_forall in Z. specialize (Z _ Hin). discriminate. }
  rewrite Y, G. reflexivity.
Qed.

Section S.
Variable sigfrom : cert -> cert -> bool.
Variable selfsig : cert -> bool.
Variable tsigfrom : cert -> cert -> bool.
Variable tselfsig : cert -> bool.

(* ---------- the gate ---------- *)
Theorem gate_sound w tok : ts_gate tsigfrom tselfsig w = Some tok ->
  t_answer w = true /\ tok = t_token w /\
  exists chain, t_chain w = Some chain /\ validate_ts tsigfrom tselfsig chain = true /\
    match t_validator w with
    | VNone => True
    | VErr => False
    | VResults rs => rs <> [] /\ length rs = length chain /\ Forall (fun r => r = ROK \/ r = RNonRevokable) rs
    end.
Proof.
  unfold ts_gate. destruct (t_answer w); cbn [negb]; [|discriminate].
  destruct (t_chain w) as [chain|]; [|discriminate].
  destruct (validate_ts tsigfrom tselfsig chain) eqn:V; cbn [negb]; [|discriminate].
  destruct (t_validator w) as [| |rs] eqn:Ev.
  - intros H. inversion H. split; [reflexivity|]. split; [reflexivity|]. exists chain. auto.
  - discriminate.
  - destruct (aggregate rs (length chain)) eqn:A; try discriminate. intros H. inversion H.
    split; [reflexivity|]. split; [reflexivity|]. exists chain. split; [reflexivity|]. split; [exact V|]. apply aggregate_ok_iff. exact A.
Qed.

Theorem gate_fails w :
  (t_answer w = false \/ t_chain w = None \/ (exists chain, t_chain w = Some chain /\ validate_ts tsigfrom tselfsig chain = false) \/
   t_validator w = VErr \/
   (exists rs chain, t_validator w = VResults rs /\ t_chain w = Some chain /\ (In RRevoked rs \/ In RUnknown rs \/ rs = [] \/ length rs <> length chain))) ->
  ts_gate tsigfrom tselfsig w = None.
Proof.
  intros H. destruct (ts_gate tsigfrom tselfsig w) as [tok|] eqn:G; [|reflexivity]. exfalso.
  apply gate_sound in G. destruct G as [A [_ [chain [C [V X]]]]].
  destruct H as [H|[H|[[c [H1 H2]]|[H|[rs [c [H1 [H2 H3]]]]]]]]; try congruence.
  - rewrite H in X. exact X.
  - rewrite H1 in X. destruct X as [Hne [Hl F]]. rewrite C in H2. inversion H2; subst c. rewrite Forall_forall in F.
    destruct H3 as [H3|[H3|[H3|H3]]]; try contradiction.
    + destruct (F _ H3); discriminate.
    + destruct (F _ H3); discriminate.
Qed.

(* ---------- Sign with a timestamper ---------- *)
Theorem not_contacted q ts : (q_scheme q <> 0 \/ ts = None) ->
  ts_contacted q ts = false /\ sign_ts sigfrom selfsig tsigfrom tselfsig q ts = sign sigfrom selfsig q.
Proof.
  intros [H|H].
  - assert (E : (q_scheme q =? 0) = false) by (apply Z.eqb_neq; exact H).
    unfold sign_ts, ts_contacted. destruct ts as [w|]; [|split; reflexivity]. rewrite E. cbn [andb]. split; reflexivity.
  - subst ts. split; reflexivity.
Qed.

(* under notary.x509 with a timestamper, signing succeeds only if every stage of the gate passed, and
   the envelope then carries exactly the token of that response; on any failure: an error, no envelope *)
Theorem sign_ts_sound q w h : q_scheme q = 0 ->
  sign_ts sigfrom selfsig tsigfrom tselfsig q (Some w) = SOk h ->
  ts_contacted q (Some w) = true /\ ts_gate tsigfrom tselfsig w = Some (t_token w) /\ h_ts h = t_token w /\
  exists h0, sign sigfrom selfsig q = SOk h0 /\ h_payload h = h_payload h0 /\ h_sig h = h_sig h0 /\ h_chain h = h_chain h0.
Proof.
  intros Hs H. unfold sign_ts in H. destruct (ts_contacted q (Some w)) eqn:C.
  - destruct (ts_gate tsigfrom tselfsig w) as [tok|] eqn:G; [|discriminate].
    pose proof (gate_sound w tok G) as [_ [-> _]].
    destruct (sign sigfrom selfsig q) as [h0| |] eqn:S; try discriminate. inversion H; subst h; clear H.
    split; [reflexivity|]. split; [reflexivity|]. split; [reflexivity|]. exists h0. repeat split; reflexivity.
  - (* not contacted although the scheme is notary.x509: impossible when Sign succeeds *)
    exfalso. apply (sign_ok_gates sigfrom selfsig) in H. destruct H as [R [s [k [Es [Ek F]]]]].
    unfold ts_contacted in C. rewrite Hs in C. change (0 =? 0) with true in C. cbn [andb] in C. rewrite R, Es, Ek, F in C. discriminate.
Qed.

Theorem sign_ts_fail_no_envelope q w :
  ts_contacted q (Some w) = true -> ts_gate tsigfrom tselfsig w = None ->
  sign_ts sigfrom selfsig tsigfrom tselfsig q (Some w) = SErr.
Proof. intros C G. unfold sign_ts. rewrite C, G. reflexivity. Qed.

(* without a timestamper (or under the signing-authority scheme) no token is embedded *)
Theorem no_token_without_ts q h : sign sigfrom selfsig q = SOk h -> h_ts h = 0.
Proof.
  intros H. apply sign_gate in H. destruct H as [_ [s [k [a [chain [_ [_ [_ [_ [-> _]]]]]]]]]]. reflexivity.
Qed.
End S.

(* ---- revocationResult depends on which results occur, not on their order ---- *)
Theorem aggregate_order_independent rs rs' n : Permutation rs rs' -> aggregate rs n = aggregate rs' n.
Proof.
  intros P.
  destruct rs as [|a t] eqn:Ers.
  { apply Permutation_nil in P. subst rs'. reflexivity. }
  rewrite <- Ers in *. assert (Hne : rs <> []) by (rewrite Ers; discriminate).
  assert (Hne' : rs' <> []).
  { intros ->. apply Permutation_sym, Permutation_nil in P. contradiction. }
  assert (Hlen : length rs = length rs') by (apply Permutation_length; exact P).
  destruct (Nat.eq_dec (length rs) n) as [Hn|Hn].
  2:{ unfold aggregate. destruct rs as [|x r]; [contradiction|]. destruct rs' as [|x' r']; [contradiction|].
      rewrite <- Hlen. assert (Nat.eqb (length (x :: r)) n = false) as -> by (apply Nat.eqb_neq; exact Hn). reflexivity. }
  assert (Hn' : length rs' = n) by (rewrite <- Hlen; exact Hn).
  assert (dec : forall x y : rres, {x = y} + {x <> y}) by decide equality.
  destruct (in_dec dec RRevoked rs) as [Hr|Hr].
  { rewrite (aggregate_revoked_priority rs n Hne Hn Hr).
    symmetry. apply aggregate_revoked_priority; [exact Hne'|exact Hn'|]. eapply Permutation_in; eauto. }
  assert (Hr' : ~ In RRevoked rs').
  { intros H. apply Hr. eapply Permutation_in; [apply Permutation_sym; exact P|exact H]. }
  destruct (in_dec dec RUnknown rs) as [Hu|Hu].
  { rewrite (aggregate_unknown rs n Hne Hn Hr Hu).
    symmetry. apply aggregate_unknown; [exact Hne'|exact Hn'|exact Hr'|]. eapply Permutation_in; eauto. }
  assert (Hall : Forall (fun r => r = ROK \/ r = RNonRevokable) rs).
  { apply Forall_forall. intros x Hx. destruct x; [contradiction|left; reflexivity|right; reflexivity|contradiction]. }
  assert (Hall' : Forall (fun r => r = ROK \/ r = RNonRevokable) rs').
  { apply Forall_forall. intros x Hx. rewrite Forall_forall in Hall. apply Hall.
    eapply Permutation_in; [apply Permutation_sym; exact P|exact Hx]. }
  assert (E1 : aggregate rs n = AOk) by (apply aggregate_ok_iff; auto).
  assert (E2 : aggregate rs' n = AOk) by (apply aggregate_ok_iff; auto).
  rewrite E1, E2. reflexivity.
Qed.
