(* C11, C12, C06: the per-certificate method selection of ValidateContext / ocsp.CheckStatus,
   the shape of the result slice, fail-closedness and isolation. *)
From NCG Require Import Model.Revocation Proofs.Crl Proofs.Ocsp Proofs.CrlCheck.
From Coq Require Import Lia.

(* ---------- extensionality: a check only looks at the URLs it is given ---------- *)
Lemma server_check_ext o o' now st u : o u = o' u -> server_check o now st u = server_check o' now st u.
Proof. intros H. unfold server_check. rewrite H. reflexivity. Qed.

Lemma ocsp_loop_ext o o' now st : forall urls acc log,
  (forall u, In u urls -> o u = o' u) ->
  ocsp_loop o now st urls acc log = ocsp_loop o' now st urls acc log.
Proof.
  induction urls as [|u r IH]; intros acc log H; cbn [ocsp_loop]; [reflexivity|].
  assert (E : o u = o' u) by (apply H; left; reflexivity).
  rewrite (server_check_ext o o' now st u E). unfold contacts. rewrite E.
  destruct (decisive _); [reflexivity|]. apply IH. intros v Hv. apply H. right. exact Hv.
Qed.

Lemma ocsp_check_ext o o' now st urls :
  (forall u, In u urls -> o u = o' u) -> ocsp_check o now st urls = ocsp_check o' now st urls.
Proof. intros H. destruct urls; [reflexivity|]. unfold ocsp_check. apply ocsp_loop_ext. exact H. Qed.

Lemma point_check_ext f f' now st s fr u : f u = f' u -> point_check f now st s fr u = point_check f' now st s fr u.
Proof. intros H. unfold point_check. rewrite H. reflexivity. Qed.

Lemma crl_loop_ext f f' now st s fr : forall urls acc log,
  (forall u, In u urls -> f u = f' u) ->
  crl_loop f now st s fr urls acc log = crl_loop f' now st s fr urls acc log.
Proof.
  induction urls as [|u r IH]; intros acc log H; cbn [crl_loop]; [reflexivity|].
  rewrite (point_check_ext f f' now st s fr u) by (apply H; left; reflexivity).
  destruct (point_check f' now st s fr u) as [[| |]|]; try reflexivity; apply IH; intros v Hv; apply H; right; exact Hv.
Qed.

Lemma crl_check_ext f f' now st s fr urls :
  (forall u, In u urls -> f u = f' u) -> crl_check f now st s fr urls = crl_check f' now st s fr urls.
Proof. intros H. destruct urls; [reflexivity|]. unfold crl_check. apply crl_loop_ext. exact H. Qed.

(* ---------- logs only mention the URLs given ---------- *)
Lemma upto_incl o now st : forall urls, incl (upto o now st urls) urls.
Proof.
  induction urls as [|u r IH]; cbn [upto]; [apply incl_refl|].
  destruct (dec o now st u).
  - intros x [<-|[]]. left; reflexivity.
  - intros x [<-|Hx]; [left; reflexivity|right; apply IH; exact Hx].
Qed.

Lemma ocsp_log_incl o now st urls : incl (snd (ocsp_check o now st urls)) urls.
Proof.
  rewrite ocsp_check_log. intros x Hx. apply filter_In in Hx. destruct Hx as [Hx _]. apply (upto_incl o now st urls). exact Hx.
Qed.

Lemma crl_log_incl f now st s fr urls : incl (snd (crl_check f now st s fr urls)) urls.
Proof.
  destruct (log_prefix f now st s fr urls) as [rest [E _]]. intros x Hx. rewrite E. apply in_or_app. left. exact Hx.
Qed.

(* ---------- shapes of the two per-method results ---------- *)
Lemma ocsp_shape o now st urls : urls <> [] ->
  let c := fst (ocsp_check o now st urls) in
  cr_method c = MOCSP /\ cr_result c <> RNonRevokable /\
  ((exists u, In u urls /\ cr_servers c = [SRes (cr_result c) u]) \/
   (cr_result c = RUnknown /\ cr_servers c = map (SRes RUnknown) urls)).
Proof.
  intros Hne c. subst c. rewrite ocsp_check_exact by exact Hne.
  destruct (find _ urls) as [u|] eqn:F.
  - apply find_some in F. destruct F as [Hin _]. cbn. split; [reflexivity|]. split.
    + destruct (server_check o now st u); discriminate.
    + left. exists u. auto.
  - cbn. split; [reflexivity|]. split; [discriminate|]. right. auto.
Qed.

(* ================= C11 ================= *)
Section Cert.
Variable w : world.
Variable st : Z.

Definition ocsp_of (c : cert) := ocsp_check (w_ocsp w) (w_now w) st (c_ocsp c).
Definition crl_of (c : cert) := crl_check (w_fetch w) (w_now w) st (c_serial c) (c_freshest c) (c_crl c).

(* the decision table *)
Theorem check_cert_table c :
  check_cert w st c =
  match c_ocsp c, c_crl c with
  | [], [] => (nonrev, [])
  | [], _ :: _ => crl_of c
  | _ :: _, [] => ocsp_of c
  | _ :: _, _ :: _ =>
      match cr_result (fst (ocsp_of c)) with
      | RUnknown => (CRes (cr_result (fst (crl_of c))) (cr_servers (fst (ocsp_of c)) ++ cr_servers (fst (crl_of c))) MFallback,
                     snd (ocsp_of c) ++ snd (crl_of c))
      | _ => ocsp_of c
      end
  end.
Proof.
  unfold check_cert, ocsp_of, crl_of.
  destruct (c_ocsp c) as [|u0 r0] eqn:EO; destruct (c_crl c) as [|v0 s0] eqn:EC.
  - reflexivity.
  - destruct (crl_check _ _ _ _ _ _). reflexivity.
  - destruct (ocsp_check _ _ _ _) as [o ol]. destruct (cr_result o); reflexivity.
  - destruct (ocsp_check _ _ _ _) as [o ol]. cbn [fst snd].
    destruct (cr_result o); try reflexivity.
    destruct (crl_check _ _ _ _ _ _) as [r cl]. reflexivity.
Qed.

(* a Good or Revoked OCSP answer is final: the result is OCSP's and no CRL is fetched *)
Theorem ocsp_final c : c_ocsp c <> [] ->
  cr_result (fst (ocsp_of c)) <> RUnknown -> check_cert w st c = ocsp_of c.
Proof.
  intros Hne H. rewrite check_cert_table. destruct (c_ocsp c); [contradiction|].
  destruct (c_crl c); [reflexivity|]. destruct (cr_result (fst (ocsp_of c))); try reflexivity. contradiction.
Qed.

(* OCSP Unknown + distribution points: the CRL outcome, labelled fallback, OCSP entries first *)
Theorem fallback_shape c : c_ocsp c <> [] -> c_crl c <> [] ->
  cr_result (fst (ocsp_of c)) = RUnknown ->
  check_cert w st c =
  (CRes (cr_result (fst (crl_of c))) (cr_servers (fst (ocsp_of c)) ++ cr_servers (fst (crl_of c))) MFallback,
   snd (ocsp_of c) ++ snd (crl_of c)).
Proof.
  intros H1 H2 H. rewrite check_cert_table. destruct (c_ocsp c); [contradiction|]. destruct (c_crl c); [contradiction|].
  rewrite H. reflexivity.
Qed.

(* in every contact log all responder URLs precede all distribution-point URLs, and CRLs are
   fetched only when there is no responder or OCSP ended Unknown *)
Theorem log_order c :
  exists lo lc, snd (check_cert w st c) = lo ++ lc /\ incl lo (c_ocsp c) /\ incl lc (c_crl c) /\
    (lc <> [] -> c_ocsp c = [] \/ cr_result (fst (ocsp_of c)) = RUnknown).
Proof.
  rewrite check_cert_table.
  destruct (c_ocsp c) as [|u0 r0] eqn:EO; destruct (c_crl c) as [|v0 s0] eqn:EC.
  - exists [], []. cbn. repeat split; try apply incl_refl. intros H; contradiction.
  - exists [], (snd (crl_of c)). cbn [app]. repeat split; [apply incl_nil_l| |auto].
    unfold crl_of. rewrite EC. apply crl_log_incl.
  - exists (snd (ocsp_of c)), []. rewrite app_nil_r. repeat split; [|apply incl_nil_l|intros H; contradiction].
    unfold ocsp_of. rewrite EO. apply ocsp_log_incl.
  - assert (Io : incl (snd (ocsp_of c)) (u0 :: r0)) by (unfold ocsp_of; rewrite EO; apply ocsp_log_incl).
    assert (Ic : incl (snd (crl_of c)) (v0 :: s0)) by (unfold crl_of; rewrite EC; apply crl_log_incl).
    destruct (cr_result (fst (ocsp_of c))) eqn:R.
    + exists (snd (ocsp_of c)), (snd (crl_of c)). cbn [snd]. repeat split; auto.
    + exists (snd (ocsp_of c)), []. rewrite app_nil_r. repeat split; [exact Io|apply incl_nil_l|intros H; contradiction].
    + exists (snd (ocsp_of c)), []. rewrite app_nil_r. repeat split; [exact Io|apply incl_nil_l|intros H; contradiction].
    + exists (snd (ocsp_of c)), []. rewrite app_nil_r. repeat split; [exact Io|apply incl_nil_l|intros H; contradiction].
Qed.

(* ================= C12: per-certificate consistency ================= *)
(* OCSP: one decisive entry carrying the verdict, or one Unknown entry per responder *)
Definition OcspEntries (urls : list Z) (verdict : rres) (srv : list sres) : Prop :=
  verdict <> RNonRevokable /\
  ((exists u, In u urls /\ srv = [SRes verdict u]) \/ (verdict = RUnknown /\ srv = map (SRes RUnknown) urls)).
Definition Consistent (c : cert) (r : cres) : Prop :=
  match cr_method r with
  | MUnknown => r = nonrev /\ c_ocsp c = [] /\ c_crl c = []
  | MOCSP => c_ocsp c <> [] /\ OcspEntries (c_ocsp c) (cr_result r) (cr_servers r)
  | MCRL => c_ocsp c = [] /\ c_crl c <> [] /\ CrlEntries (c_crl c) (cr_result r) (cr_servers r)
  | MFallback => c_ocsp c <> [] /\ c_crl c <> [] /\
      exists head tail, cr_servers r = head ++ tail /\ OcspEntries (c_ocsp c) RUnknown head /\
                        CrlEntries (c_crl c) (cr_result r) tail
  end.

Theorem check_cert_consistent c : Consistent c (fst (check_cert w st c)).
Proof.
  rewrite check_cert_table. unfold Consistent.
  destruct (c_ocsp c) as [|u0 r0] eqn:EO; destruct (c_crl c) as [|v0 s0] eqn:EC.
  - cbn. auto.
  - unfold crl_of. rewrite EC.
    destruct (shape (w_fetch w) (w_now w) st (c_serial c) (c_freshest c) (v0 :: s0)) as [M S]; [discriminate|].
    rewrite M. split; [reflexivity|]. split; [discriminate|]. exact S.
  - unfold ocsp_of. rewrite EO.
    destruct (ocsp_shape (w_ocsp w) (w_now w) st (u0 :: r0)) as [M [N S]]; [discriminate|].
    rewrite M. split; [discriminate|]. split; [exact N|exact S].
  - destruct (ocsp_shape (w_ocsp w) (w_now w) st (u0 :: r0)) as [M [N S]]; [discriminate|].
    destruct (shape (w_fetch w) (w_now w) st (c_serial c) (c_freshest c) (v0 :: s0)) as [Mc Sc]; [discriminate|].
    unfold ocsp_of, crl_of. rewrite EO, EC.
    destruct (cr_result (fst (ocsp_check _ _ _ (u0 :: r0)))) eqn:R.
    + cbn [fst cr_method cr_result cr_servers]. split; [discriminate|]. split; [discriminate|].
      eexists _, _. split; [reflexivity|]. split; [split; [discriminate|exact S]|exact Sc].
    + rewrite M. split; [discriminate|]. rewrite ?R. split; [discriminate|]. rewrite ?R in S. exact S.
    + exfalso. apply N. reflexivity.
    + rewrite M. split; [discriminate|]. rewrite ?R. split; [discriminate|]. rewrite ?R in S. exact S.
Qed.

(* every server URL of the result is one of this certificate's URLs (or the empty string) *)
Theorem check_cert_positional c : forall s, In s (cr_servers (fst (check_cert w st c))) ->
  sr_url s = 0 \/ In (sr_url s) (c_ocsp c) \/ In (sr_url s) (c_crl c).
Proof.
  intros s Hs. pose proof (check_cert_consistent c) as H. unfold Consistent in H.
  assert (HO : forall urls v srv, OcspEntries urls v srv -> In s srv -> In (sr_url s) urls).
  { intros urls v srv [_ [[u [Hu E]]|[_ E]]] Hin; rewrite E in Hin.
    - destruct Hin as [<-|[]]. exact Hu.
    - apply in_map_iff in Hin. destruct Hin as [x [<- Hx]]. exact Hx. }
  assert (HC : forall urls v srv, CrlEntries urls v srv -> In s srv -> In (sr_url s) urls).
  { intros urls v srv E Hin. unfold CrlEntries in E. destruct v.
    - destruct E as [u [Hu E]]. rewrite E in Hin. destruct Hin as [<-|[]]. exact Hu.
    - rewrite E in Hin. apply in_map_iff in Hin. destruct Hin as [x [<- Hx]]. exact Hx.
    - contradiction.
    - destruct E as [u [Hu E]]. rewrite E in Hin. destruct Hin as [<-|[]]. exact Hu. }
  destruct (cr_method (fst (check_cert w st c))).
  - destruct H as [E _]. rewrite E in Hs. destruct Hs as [<-|[]]. left. reflexivity.
  - destruct H as [_ E]. right. left. eapply HO; eauto.
  - destruct H as [_ [_ E]]. right. right. eapply HC; eauto.
  - destruct H as [_ [_ [hd [tl [E [EO EC]]]]]]. rewrite E in Hs. apply in_app_or in Hs. destruct Hs as [Hs|Hs].
    + right. left. eapply HO; eauto.
    + right. right. eapply HC; eauto.
Qed.

(* OK never coexists with a Revoked entry *)
Theorem ok_no_revoked_entry c : cr_result (fst (check_cert w st c)) = ROK ->
  forall s, In s (cr_servers (fst (check_cert w st c))) -> sr_result s <> RRevoked.
Proof.
  intros Hok s Hs. pose proof (check_cert_consistent c) as H. unfold Consistent in H.
  assert (HO : forall urls v srv, OcspEntries urls v srv -> v <> RRevoked -> In s srv -> sr_result s <> RRevoked).
  { intros urls v srv [_ [[u [Hu E]]|[_ E]]] Hv Hin; rewrite E in Hin.
    - destruct Hin as [<-|[]]. exact Hv.
    - apply in_map_iff in Hin. destruct Hin as [x [<- Hx]]. discriminate. }
  assert (HC : forall urls srv, CrlEntries urls ROK srv -> In s srv -> sr_result s <> RRevoked).
  { intros urls srv E Hin. cbn in E. rewrite E in Hin. apply in_map_iff in Hin. destruct Hin as [x [<- Hx]]. discriminate. }
  rewrite Hok in H. destruct (cr_method (fst (check_cert w st c))).
  - destruct H as [E _]. rewrite E in Hs. destruct Hs as [<-|[]]. discriminate.
  - destruct H as [_ E]. eapply HO; eauto. discriminate.
  - destruct H as [_ [_ E]]. eapply HC; eauto.
  - destruct H as [_ [_ [hd [tl [E [EO EC]]]]]]. rewrite E in Hs. apply in_app_or in Hs. destruct Hs as [Hs|Hs].
    + eapply HO; eauto. discriminate.
    + eapply HC; eauto.
Qed.

(* ================= C06: fail closed ================= *)
(* authentic evidence of good standing / of revocation, as defined for OCSP (C04) and CRL (C05) *)
Definition GoodEvidence (c : cert) : Prop :=
  (exists u, In u (c_ocsp c) /\ server_check (w_ocsp w) (w_now w) st u = COk) \/
  (c_crl c <> [] /\ forall u, In u (c_crl c) -> PointClear (w_fetch w) (w_now w) st (c_serial c) (c_freshest c) u).
Definition RevokedEvidence (c : cert) : Prop :=
  (exists u, In u (c_ocsp c) /\ server_check (w_ocsp w) (w_now w) st u = CRevoked) \/
  (exists u, In u (c_crl c) /\ PointRevokes (w_fetch w) (w_now w) st (c_serial c) (c_freshest c) u).

Lemma ocsp_ok_evidence urls : cr_result (fst (ocsp_check (w_ocsp w) (w_now w) st urls)) = ROK ->
  exists u, In u urls /\ server_check (w_ocsp w) (w_now w) st u = COk.
Proof.
  intros H. destruct urls as [|u0 r0]; [discriminate|].
  apply Proofs.Ocsp.ok_iff in H; [|discriminate]. destruct H as [u [F S]]. apply find_some in F. exists u. tauto.
Qed.
Lemma ocsp_revoked_evidence urls : cr_result (fst (ocsp_check (w_ocsp w) (w_now w) st urls)) = RRevoked ->
  exists u, In u urls /\ server_check (w_ocsp w) (w_now w) st u = CRevoked.
Proof.
  intros H. destruct urls as [|u0 r0]; [discriminate|].
  apply revoked_iff in H; [|discriminate]. destruct H as [u [F S]]. apply find_some in F. exists u. tauto.
Qed.
Lemma crl_revoked_evidence s fr urls : urls <> [] ->
  cr_result (fst (crl_check (w_fetch w) (w_now w) st s fr urls)) = RRevoked ->
  exists u, In u urls /\ PointRevokes (w_fetch w) (w_now w) st s fr u.
Proof.
  intros Hne H. rewrite crl_check_exact in H by exact Hne.
  destruct (find _ urls) as [u|] eqn:F; [|discriminate]. apply find_some in F. destruct F as [Hin _].
  exists u. split; [exact Hin|]. cbn in H. unfold stop_result in H.
  destruct (point_check _ _ _ _ _ u) as [[| |]|] eqn:P; try discriminate. apply point_check_some in P. exact P.
Qed.

Theorem fail_closed c : c_ocsp c <> [] \/ c_crl c <> [] ->
  let r := cr_result (fst (check_cert w st c)) in
  r <> RNonRevokable /\ (r = ROK -> GoodEvidence c) /\ (r = RRevoked -> RevokedEvidence c).
Proof.
  intros Hn r. subst r. rewrite check_cert_table. unfold GoodEvidence, RevokedEvidence.
  destruct (c_ocsp c) as [|u0 r0] eqn:EO; destruct (c_crl c) as [|v0 s0] eqn:EC.
  - destruct Hn as [Hn|Hn]; contradiction.
  - unfold crl_of. rewrite EC.
    destruct (shape (w_fetch w) (w_now w) st (c_serial c) (c_freshest c) (v0 :: s0)) as [_ S]; [discriminate|].
    split; [intros E; rewrite E in S; exact S|]. split.
    + intros H. right. split; [discriminate|]. exact (proj1 (Proofs.CrlCheck.ok_iff (w_fetch w) (w_now w) st (c_serial c) (c_freshest c) (v0 :: s0) ltac:(discriminate)) H).
    + intros H. right. apply crl_revoked_evidence in H; [exact H|discriminate].
  - unfold ocsp_of. rewrite EO.
    destruct (ocsp_shape (w_ocsp w) (w_now w) st (u0 :: r0)) as [_ [N _]]; [discriminate|].
    split; [exact N|]. split; intros H; left; [apply ocsp_ok_evidence|apply ocsp_revoked_evidence]; exact H.
  - destruct (ocsp_shape (w_ocsp w) (w_now w) st (u0 :: r0)) as [_ [N _]]; [discriminate|].
    destruct (shape (w_fetch w) (w_now w) st (c_serial c) (c_freshest c) (v0 :: s0)) as [_ S]; [discriminate|].
    unfold ocsp_of, crl_of. rewrite EO, EC.
    destruct (cr_result (fst (ocsp_check _ _ _ (u0 :: r0)))) eqn:R.
    + cbn [fst cr_result]. split; [intros E; rewrite E in S; exact S|]. split.
      * intros H. right. split; [discriminate|]. exact (proj1 (Proofs.CrlCheck.ok_iff (w_fetch w) (w_now w) st (c_serial c) (c_freshest c) (v0 :: s0) ltac:(discriminate)) H).
      * intros H. right. apply crl_revoked_evidence in H; [exact H|discriminate].
    + rewrite R. split; [discriminate|]. split; [|discriminate]. intros _. left. apply ocsp_ok_evidence. exact R.
    + exfalso. apply N. reflexivity.
    + rewrite R. split; [discriminate|]. split; [discriminate|]. intros _. left. apply ocsp_revoked_evidence. exact R.
Qed.

(* the standalone OCSP entry point: same for a certificate naming responders *)
Theorem fail_closed_ocsp c : c_ocsp c <> [] ->
  let r := cr_result (fst (ocsp_of c)) in
  r <> RNonRevokable /\
  (r = ROK -> exists u, In u (c_ocsp c) /\ server_check (w_ocsp w) (w_now w) st u = COk) /\
  (r = RRevoked -> exists u, In u (c_ocsp c) /\ server_check (w_ocsp w) (w_now w) st u = CRevoked).
Proof.
  intros Hne r. subst r. unfold ocsp_of.
  destruct (ocsp_shape (w_ocsp w) (w_now w) st (c_ocsp c) Hne) as [_ [N _]].
  split; [exact N|]. split; intros H; [apply ocsp_ok_evidence|apply ocsp_revoked_evidence]; exact H.
Qed.
End Cert.

(* ================= C06: isolation ================= *)
(* worlds that agree on a certificate's own exchanges give that certificate the same result,
   whatever they do to the other certificates' URLs *)
Theorem isolation w w' st c :
  (forall u, In u (c_ocsp c) -> w_ocsp w u = w_ocsp w' u) ->
  (forall u, In u (c_crl c) -> w_fetch w u = w_fetch w' u) ->
  w_now w = w_now w' ->
  check_cert w st c = check_cert w' st c.
Proof.
  intros Ho Hc Hn. unfold check_cert. rewrite <- Hn.
  rewrite (ocsp_check_ext (w_ocsp w) (w_ocsp w') (w_now w) st (c_ocsp c) Ho).
  rewrite (crl_check_ext (w_fetch w) (w_fetch w') (w_now w) st (c_serial c) (c_freshest c) (c_crl c) Hc).
  reflexivity.
Qed.

(* ================= C12 / C11: the result slice ================= *)
Lemma check_positions_length w st : forall l, length (check_positions w st l) = length l.
Proof.
  induction l as [|c r IH]; [reflexivity|]. destruct r as [|d r']; [reflexivity|].
  cbn [check_positions length] in *. rewrite IH. reflexivity.
Qed.
Lemma ocsp_positions_length w st : forall l, length (ocsp_positions w st l) = length l.
Proof.
  induction l as [|c r IH]; [reflexivity|]. destruct r as [|d r']; [reflexivity|].
  cbn [ocsp_positions length] in *. rewrite IH. reflexivity.
Qed.

(* position i of the result describes certificate i: the root slot is NonRevokable, every other
   slot is the per-certificate check of that certificate *)
Lemma check_positions_nth w st : forall l i c, nth_error l i = Some c ->
  nth_error (check_positions w st l) i =
  Some (if Nat.eqb (S i) (length l) then (nonrev, []) else check_cert w st c).
Proof.
  induction l as [|x r IH]; intros i c H; [destruct i; discriminate|].
  destruct r as [|d r'].
  - destruct i as [|i]; [reflexivity|]. destruct i; discriminate.
  - destruct i as [|i].
    + cbn in H. inversion H; subst. reflexivity.
    + cbn [nth_error] in H. change (check_positions w st (x :: d :: r')) with (check_cert w st x :: check_positions w st (d :: r')).
      cbn [nth_error]. rewrite (IH i c H). cbn [length Nat.eqb]. reflexivity.
Qed.
Lemma ocsp_positions_nth w st : forall l i c, nth_error l i = Some c ->
  nth_error (ocsp_positions w st l) i =
  Some (if Nat.eqb (S i) (length l) then (nonrev, []) else ocsp_check (w_ocsp w) (w_now w) st (c_ocsp c)).
Proof.
  induction l as [|x r IH]; intros i c H; [destruct i; discriminate|].
  destruct r as [|d r'].
  - destruct i as [|i]; [reflexivity|]. destruct i; discriminate.
  - destruct i as [|i].
    + cbn in H. inversion H; subst. reflexivity.
    + cbn [nth_error] in H. change (ocsp_positions w st (x :: d :: r')) with (ocsp_check (w_ocsp w) (w_now w) st (c_ocsp x) :: ocsp_positions w st (d :: r')).
      cbn [nth_error]. rewrite (IH i c H). cbn [length Nat.eqb]. reflexivity.
Qed.

Section Entry.
Variable sigfrom : cert -> cert -> bool.
Variable selfsig : cert -> bool.

Theorem validate_ctx_spec purpose w st chain :
  match validate_ctx sigfrom selfsig purpose w st chain with
  | None => validate_chain sigfrom selfsig purpose chain = false
  | Some rs =>
      validate_chain sigfrom selfsig purpose chain = true /\ chain <> [] /\
      length rs = length chain /\
      forall i c, nth_error chain i = Some c ->
        nth_error rs i = Some (if Nat.eqb (S i) (length chain) then (nonrev, []) else check_cert w st c)
  end.
Proof.
  unfold validate_ctx. destruct (validate_chain sigfrom selfsig purpose chain) eqn:V; [|reflexivity].
  split; [reflexivity|]. split.
  - intros E. subst chain. unfold validate_chain in V. destruct (purpose =? 0); [discriminate|]. destruct (purpose =? 1); discriminate.
  - split; [apply check_positions_length|apply check_positions_nth].
Qed.

Theorem ocsp_check_status_spec purpose w st chain :
  match ocsp_check_status sigfrom selfsig purpose w st chain with
  | None => validate_chain sigfrom selfsig purpose chain = false
  | Some rs =>
      validate_chain sigfrom selfsig purpose chain = true /\ chain <> [] /\
      length rs = length chain /\
      forall i c, nth_error chain i = Some c ->
        nth_error rs i = Some (if Nat.eqb (S i) (length chain) then (nonrev, [])
                               else ocsp_check (w_ocsp w) (w_now w) st (c_ocsp c))
  end.
Proof.
  unfold ocsp_check_status. destruct (validate_chain sigfrom selfsig purpose chain) eqn:V; [|reflexivity].
  split; [reflexivity|]. split.
  - intros E. subst chain. unfold validate_chain in V. destruct (purpose =? 0); [discriminate|]. destruct (purpose =? 1); discriminate.
  - split; [apply ocsp_positions_length|apply ocsp_positions_nth].
Qed.

(* the standalone OCSP entry point never consults CRLs: its logs are responder URLs only, and the
   result is independent of what any CRL fetch would return *)
Theorem standalone_no_crl purpose w w' st chain :
  w_ocsp w = w_ocsp w' -> w_now w = w_now w' ->
  ocsp_check_status sigfrom selfsig purpose w st chain = ocsp_check_status sigfrom selfsig purpose w' st chain.
Proof.
  intros Ho Hn. unfold ocsp_check_status. destruct (validate_chain _ _ _ _); [|reflexivity]. f_equal.
  induction chain as [|c r IH]; [reflexivity|]. destruct r as [|d r']; [reflexivity|].
  change (ocsp_positions w st (c :: d :: r')) with (ocsp_check (w_ocsp w) (w_now w) st (c_ocsp c) :: ocsp_positions w st (d :: r')).
  change (ocsp_positions w' st (c :: d :: r')) with (ocsp_check (w_ocsp w') (w_now w') st (c_ocsp c) :: ocsp_positions w' st (d :: r')).
  rewrite IH, Ho, Hn. reflexivity.
Qed.
End Entry.

(* non-vacuity: leaf with a failing responder and a clean CRL -> fallback OK, two server entries,
   responder contacted before the CRL; the same leaf with a Revoked OCSP answer -> Revoked, no CRL *)
Example fallback_example :
  let leaf := Cert 0 1 1 2 77 0 1000 true false 0 false 1 2 [3] 0 0 (PkEC 256) [11] [21] false in
  let good := Crl true 200 [] (Some 5) [] in
  let w1 := World (fun _ => UErr) (fun _ => Fetched (Bundle good None)) 100 in
  let rev := OResp ByIssuer true true SRevoked 200 InvAbsent in
  let w2 := World (fun _ => UResp rev) (fun _ => Fetched (Bundle good None)) 100 in
  check_cert w1 0 leaf = (CRes ROK [SRes RUnknown 11; SRes ROK 21] MFallback, [11; 21]) /\
  check_cert w2 0 leaf = (CRes RRevoked [SRes RRevoked 11] MOCSP, [11]).
Proof. split; reflexivity. Qed.

Theorem invalid_empty sigfrom selfsig purpose w st :
  validate_ctx sigfrom selfsig purpose w st [] = None /\ ocsp_check_status sigfrom selfsig purpose w st [] = None.
Proof.
  unfold validate_ctx, ocsp_check_status, validate_chain. destruct (purpose =? 0)%Z; [split; reflexivity|]. destruct (purpose =? 1)%Z; split; reflexivity.
Qed.

(* a fault is never evidence *)
Theorem fault_not_evidence w st u :
  (w_ocsp w u = UBadURL \/ w_ocsp w u = UErr) -> server_check (w_ocsp w) (w_now w) st u = CError.
Proof. intros [H|H]; unfold server_check; rewrite H; reflexivity. Qed.

Theorem fetch_fault_not_clear w st s fr u :
  w_fetch w u = FetchErr -> ~ PointClear (w_fetch w) (w_now w) st s fr u.
Proof. intros H [b [[E _] _]]. rewrite H in E. discriminate. Qed.

(* totality: a check of any chain in any world yields one result per certificate, or the invalid-chain error *)
Theorem revocation_total sigfrom selfsig purpose w st chain :
  match validate_ctx sigfrom selfsig purpose w st chain with
  | None => validate_chain sigfrom selfsig purpose chain = false
  | Some rs => length rs = length chain
  end.
Proof.
  pose proof (validate_ctx_spec sigfrom selfsig purpose w st chain) as H.
  destruct (validate_ctx sigfrom selfsig purpose w st chain); [tauto|exact H].
Qed.

(* isolation lifted to the whole chain: worlds that agree on the exchanges of the certificates of a
   chain (and on the clock) give the same result slice, whatever else differs between them; the
   root's own URLs need not even agree, it is never checked *)
Theorem isolation_chain w w' st : forall chain,
  (forall c u, In c (removelast chain) -> In u (c_ocsp c) -> w_ocsp w u = w_ocsp w' u) ->
  (forall c u, In c (removelast chain) -> In u (c_crl c) -> w_fetch w u = w_fetch w' u) ->
  w_now w = w_now w' ->
  check_positions w st chain = check_positions w' st chain.
Proof.
  induction chain as [|c r IH]; intros Ho Hc Hn; [reflexivity|].
  destruct r as [|c2 r2]; [reflexivity|].
  change (check_positions w st (c :: c2 :: r2)) with (check_cert w st c :: check_positions w st (c2 :: r2)).
  change (check_positions w' st (c :: c2 :: r2)) with (check_cert w' st c :: check_positions w' st (c2 :: r2)).
  assert (Hrl : removelast (c :: c2 :: r2) = c :: removelast (c2 :: r2)) by reflexivity.
  f_equal.
  - apply isolation; [intros u Hu; apply (Ho c u); [rewrite Hrl; left; reflexivity|exact Hu]
                     |intros u Hu; apply (Hc c u); [rewrite Hrl; left; reflexivity|exact Hu]|exact Hn].
  - apply IH; [intros x u Hx Hu; apply (Ho x u); [rewrite Hrl; right; exact Hx|exact Hu]
              |intros x u Hx Hu; apply (Hc x u); [rewrite Hrl; right; exact Hx|exact Hu]|exact Hn].
Qed.
