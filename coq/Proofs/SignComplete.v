(* C08 / C16, the other direction: every valid sign request is signed.  The envelope the
   format-level Sign builds for a valid request (built_view) meets the envelope specification
   (Conformant, Proofs/Header.v), hence is read back by the wrapper (content_complete), hence Sign
   returns it.  Together with sign_gate: Sign succeeds exactly for the valid requests whose signer
   returns a non-empty signature. *)
From NCG Require Import Model.Sign Proofs.Header Proofs.Sign.
From Coq Require Import Lia.

Section Mono.
Variable sigfrom : cert -> cert -> bool.
Variable selfsig : cert -> bool.

(* dropping the signing time can only make chain validation more permissive *)
Lemma walk_mono (t1 t2 leaf_ok : cert -> bool) (ca_ok : cert -> Z -> bool) :
  (forall c, t1 c = true -> t2 c = true) ->
  forall l i, walk sigfrom t1 leaf_ok ca_ok i l = true -> walk sigfrom t2 leaf_ok ca_ok i l = true.
Proof.
  intros Ht. induction l as [|c rest IH]; intros i H; [reflexivity|].
  cbn [walk] in H |- *. rewrite !andb_true_iff in H |- *. destruct H as [[[T S] L] W].
  repeat split; auto.
Qed.

Lemma validate_cs_drop_time st l :
  validate_cs sigfrom selfsig (Some st) l = true -> validate_cs sigfrom selfsig None l = true.
Proof.
  unfold validate_cs, validate_gen. destruct l as [|c [|d r]]; [discriminate| |].
  - rewrite !andb_true_iff. intros [[[A B] _] D]. repeat split; auto.
  - apply walk_mono. intros x _. reflexivity.
Qed.
End Mono.

Lemma attrs_ok_complete fmt attrs : AttrsOK fmt attrs -> attrs_ok fmt attrs = true.
Proof.
  intros [ls [E [Nd [Hs [Ht He]]]]]. unfold attrs_ok. rewrite E.
  apply andb_true_iff. split; [apply forallb_forall; exact He|].
  apply andb_true_iff. split; [apply andb_true_iff; split|].
  - destruct (fmt =? 0) eqn:F; [|reflexivity]. apply Z.eqb_eq in F. apply forallb_forall. intros l Hl.
    destruct (Ht F l Hl) as [i ->]. reflexivity.
  - apply nodup_labels_NoDup. exact Nd.
  - apply negb_true_iff.
    set (f := fun l0 : label => if fmt =? 0 then is_spec_label l0 else match l0 with LText i => (4 <=? i) && (i <=? 7) | LInt z => (1 <=? z) && (z <=? 3) end) in *.
    destruct (existsb f ls) eqn:X; [|reflexivity]. apply existsb_exists in X. destruct X as [l [Hl Hf]].
    specialize (Hs l Hl). change (f l = false) in Hs. congruence.
Qed.

(* labels of the attributes flagged critical: a sub-sequence of all labels *)
Lemma crit_sub {A B} (f : A * B -> bool) : forall (l : list A) (m : list B) x,
  In x (map fst (filter f (combine l m))) -> In x l.
Proof.
  induction l as [|a t IH]; intros m x H; [destruct H|]. destruct m as [|b u]; [destruct H|].
  cbn [combine filter] in H. destruct (f (a, b)).
  - destruct H as [H|H]; [left; exact H|right; eapply IH; exact H].
  - right. eapply IH. exact H.
Qed.
Lemma crit_nodup {A B} (f : A * B -> bool) : forall (l : list A) (m : list B),
  NoDup l -> NoDup (map fst (filter f (combine l m))).
Proof.
  induction l as [|a t IH]; intros m Nd; [constructor|]. destruct m as [|b u]; [constructor|].
  inversion Nd; subst. cbn [combine filter]. destruct (f (a, b)).
  - cbn [map fst]. constructor; [|apply IH; assumption]. intros X. apply crit_sub in X. contradiction.
  - apply IH. assumption.
Qed.

Section S.
Variable sigfrom : cert -> cert -> bool.
Variable selfsig : cert -> bool.

Lemma alg_Z_nonzero a : alg_Z (Some a) <> 0.
Proof. destruct a; discriminate. Qed.

(* the labels 4..7 (expiry, signing time, scheme, authentic signing time) are refused as attribute keys by both formats *)
Lemma reserved_not_attr fmt ls i : (fmt = 0 \/ fmt = 1) -> 4 <= i <= 7 ->
  (forall l, In l ls -> (if fmt =? 0 then is_spec_label l else match l with LText i => (4 <=? i) && (i <=? 7) | LInt z => (1 <=? z) && (z <=? 3) end) = false) ->
  ~ In (LText i) ls.
Proof.
  intros Hf Hi Hs Hin. specialize (Hs _ Hin). destruct Hf as [-> | ->]; cbn in Hs.
  - apply andb_false_iff in Hs. destruct Hs as [X|X]; [apply Z.leb_gt in X|apply Z.leb_gt in X]; lia.
  - apply andb_false_iff in Hs. destruct Hs as [X|X]; [apply Z.leb_gt in X|apply Z.leb_gt in X]; lia.
Qed.

Theorem built_conformant q s k a leaf rest :
  (q_fmt q = 0 \/ q_fmt q = 1) -> ValidReq sigfrom selfsig q -> q_sig q <> 0 ->
  q_signer q = Some s -> s_ks s = Some k -> sig_alg k = Some a -> s_chain s = Some (leaf :: rest) ->
  Conformant sigfrom selfsig (built_view q a (leaf :: rest)).
Proof.
  intros Hf V Sg Es Ek Ea Ec. unfold ValidReq in V. cbn zeta in V.
  destruct V as (P & _ & _ & T & X & Sc & (s' & k' & a' & leaf' & rest' & Es' & Ek' & Ea' & Ec' & Vc & Ka & _) & (ls & El & Nd & Hs & _ & _)).
  rewrite Es in Es'. inversion Es'; subst s'. rewrite Ek in Ek'. inversion Ek'; subst k'.
  rewrite Ea in Ea'. inversion Ea'; subst a'. rewrite Ec in Ec'. inversion Ec'; subst leaf' rest'. clear Es' Ek' Ea' Ec'.
  assert (Len : length ls = length (q_attrs q)) by (erewrite all_some_length by exact El; apply map_length).
  assert (Nsch : ~ In L_scheme ls) by (apply (reserved_not_attr (q_fmt q)); [exact Hf|lia|exact Hs]).
  assert (Nast : ~ In L_astime ls) by (apply (reserved_not_attr (q_fmt q)); [exact Hf|lia|exact Hs]).
  assert (Nexp : ~ In L_expiry ls) by (apply (reserved_not_attr (q_fmt q)); [exact Hf|lia|exact Hs]).
  set (st := trunc_s (q_time q)) in *. set (ex := trunc_s (q_expiry q)) in *.
  set (ca := map fst (filter (fun p : label * rattr => ra_crit (snd p)) (combine ls (q_attrs q)))).
  assert (Csub : forall v, In v ca -> In v ls) by (intros v Hv; eapply crit_sub; exact Hv).
  assert (Cnd : NoDup ca) by (apply crit_nodup; exact Nd).
  unfold Conformant, built_view. rewrite El. fold st ex ca.
  cbn [h_fmt h_payload h_sig h_cty h_scheme h_ast h_st h_exp h_crit_present h_crit h_alg h_chain].
  split; [exact Hf|]. split; [exact P|]. split; [exact Sg|]. split; [discriminate|]. split; [exact Sc|].
  split.
  { exists st. split; [destruct (q_scheme q =? 1); reflexivity|]. split; [exact T|].
    destruct (ex =? 0) eqn:E0; [left; reflexivity|right]. exists ex. split; [reflexivity|]. apply Z.eqb_neq in E0.
    split; [exact E0|]. destruct X as [X|X]; [contradiction|exact X]. }
  split; [intros _; destruct (q_scheme q =? 1); reflexivity|].
  split; [reflexivity|].
  assert (E1 : q_scheme q = 1 <-> (q_scheme q =? 1) = true) by (symmetry; apply Z.eqb_eq).
  split.
  { (* NoDup of the crit list *)
    cbn [app]. constructor.
    - intros Hin. apply in_app_or in Hin. destruct Hin as [Hin|Hin].
      + destruct (q_scheme q =? 1); [destruct Hin as [Hin|[]]; discriminate|destruct Hin].
      + apply in_app_or in Hin. destruct Hin as [Hin|Hin].
        * destruct (ex =? 0); [destruct Hin|destruct Hin as [Hin|[]]; discriminate].
        * apply Nsch, Csub, Hin.
    - destruct (q_scheme q =? 1); destruct (ex =? 0); cbn [app].
      + constructor; [intros Hin; apply Nast, Csub, Hin|exact Cnd].
      + constructor; [intros [Hin|Hin]; [discriminate|apply Nast, Csub, Hin]|].
        constructor; [intros Hin; apply Nexp, Csub, Hin|exact Cnd].
      + exact Cnd.
      + constructor; [intros Hin; apply Nexp, Csub, Hin|exact Cnd]. }
  split; [left; reflexivity|].
  split. { intros S1. apply E1 in S1. rewrite S1. right. left. reflexivity. }
  split. { intros Tp. destruct (ex =? 0); [discriminate|]. cbn [app]. right. apply in_or_app. right. left. reflexivity. }
  split.
  { intros v Hv. cbn [app] in Hv. destruct Hv as [<-|Hv]; [left; reflexivity|].
    apply in_app_or in Hv. destruct Hv as [Hv|Hv].
    - destruct (q_scheme q =? 1) eqn:S1; [|destruct Hv]. destruct Hv as [<-|[]]. right. left. split; [reflexivity|apply Z.eqb_eq; exact S1].
    - apply in_app_or in Hv. destruct Hv as [Hv|Hv].
      + destruct (ex =? 0); [destruct Hv|]. destruct Hv as [<-|[]]. right. right. left. split; reflexivity.
      + right. right. right. unfold ext_keys. cbn [h_ext]. rewrite map_fst_combine by (rewrite map_length; exact Len). apply Csub. exact Hv. }
  split; [apply alg_Z_nonzero|].
  exists leaf, rest. split; [reflexivity|]. split; [eapply validate_cs_drop_time; exact Vc|]. rewrite Ka. reflexivity.
Qed.

(* every valid request whose signer returns a non-empty signature is signed, and (sign_roundtrip)
   what comes back is the request *)
Theorem sign_complete q : (q_fmt q = 0 \/ q_fmt q = 1) -> ValidReq sigfrom selfsig q -> q_sig q <> 0 ->
  exists h, sign sigfrom selfsig q = SOk h.
Proof.
  intros Hf V Sg. pose proof V as V0. unfold ValidReq in V. cbn zeta in V.
  destruct V as (P & Pk & Ct & T & X & Sc & (s & k & a & leaf & rest & Es & Ek & Ea & Ec & Vc & Ka & Ku) & At).
  pose proof (built_conformant q s k a leaf rest Hf V0 Sg Es Ek Ea Ec) as Cf.
  apply content_complete in Cf.
  unfold sign.
  assert (R : request_ok q = true).
  { unfold request_ok. rewrite Es, Ek. rewrite !andb_true_iff, !negb_true_iff. repeat split.
    - apply Z.eqb_neq. exact P.
    - apply Z.eqb_neq. exact T.
    - apply andb_false_iff. destruct X as [X|X]; [left; apply negb_false_iff, Z.eqb_eq; exact X|right; apply Z.leb_gt; exact X].
    - apply Z.eqb_neq. destruct Sc; lia. }
  rewrite R. cbn [negb]. rewrite Es, Ek.
  assert (F : format_sign_ok q s k = true).
  { unfold format_sign_ok. rewrite Ea, Ec. rewrite !andb_true_iff. repeat split.
    - apply orb_true_iff. destruct Sc as [Y|Y]; [left|right]; apply Z.eqb_eq; exact Y.
    - apply attrs_ok_complete. exact At.
    - destruct (q_fmt q =? 0) eqn:F0; [apply Z.eqb_eq in F0; apply Z.eqb_eq; apply Pk; exact F0|apply Z.eqb_neq in F0; apply Ct; exact F0].
    - destruct (s_local s) eqn:L; [apply Ku; reflexivity|reflexivity]. }
  rewrite F. cbn [negb]. rewrite Ea, Ec, Cf, Vc. cbn [andb]. rewrite Ka, Z.eqb_refl. eexists. reflexivity.
Qed.

(* Sign succeeds exactly for the valid requests (signature non-empty) *)
Theorem sign_exact q : (q_fmt q = 0 \/ q_fmt q = 1) -> q_sig q <> 0 ->
  ((exists h, sign sigfrom selfsig q = SOk h) <-> ValidReq sigfrom selfsig q).
Proof.
  intros Hf Sg. split.
  - intros [h H]. apply sign_gate in H. tauto.
  - intros V. apply sign_complete; assumption.
Qed.
End S.
