(* Reflection: the boolean specs evaluated by the correspondence runs (coq/Run/*.v) on the
   IMPLEMENTATION's outputs are the declarative predicates of the property theorems. *)
From NCG Require Import Run.Env Proofs.Header Model.Object Proofs.Object Run.C20.
From Coq Require Import Lia.

Lemma list_eqb_Z_eq : forall a b, list_eqb Z.eqb a b = true <-> a = b.
Proof.
  induction a as [|x r IH]; destruct b as [|y s]; cbn; try (split; [discriminate|intros H; discriminate]); [tauto|].
  rewrite andb_true_iff, Z.eqb_eq, IH. split; [intros [-> ->]; reflexivity|intros H; inversion H; auto].
Qed.

Lemma attr_eqb_eq a b : attr_eqb a b = true <-> a = b.
Proof.
  unfold attr_eqb. rewrite !andb_true_iff, label_eqb_eq, Z.eqb_eq, eqb_true_iff.
  destruct a, b; cbn. split; [intros [[-> ->] ->]; reflexivity|intros H; inversion H; auto].
Qed.

Lemma list_eqb_attr_eq : forall a b, list_eqb attr_eqb a b = true <-> a = b.
Proof.
  induction a as [|x r IH]; destruct b as [|y s]; cbn; try (split; [discriminate|intros H; discriminate]); [tauto|].
  rewrite andb_true_iff, attr_eqb_eq, IH. split; [intros [-> ->]; reflexivity|intros H; inversion H; auto].
Qed.

Lemma tval_eqb_eq a b : tval_eqb a b = true <-> a = b.
Proof.
  destruct a, b; cbn; try (split; [discriminate|intros H; discriminate]); try tauto.
  rewrite andb_true_iff, !Z.eqb_eq. split; [intros [-> ->]; reflexivity|intros H; inversion H; auto].
Qed.

Lemma spec_present_iff h v : spec_present_b h v = true <-> SpecPresent h v.
Proof.
  unfold spec_present_b, SpecPresent. rewrite !orb_true_iff, !andb_true_iff, !label_eqb_eq, !orb_true_iff, !Z.eqb_eq. tauto.
Qed.

Section S.
Variable sf : cert -> cert -> bool.
Variable ss : cert -> bool.

Lemma chain_ok_b_iff a chain : chain_ok_b sf ss a chain = true <-> ChainOK sf ss a chain.
Proof.
  unfold chain_ok_b, ChainOK. destruct chain as [|leaf rest].
  - split; [discriminate|intros [l [r [E _]]]; discriminate].
  - rewrite andb_true_iff, Z.eqb_eq. split.
    + intros [V K]. exists leaf, rest. auto.
    + intros [l [r [E [V K]]]]. inversion E; subst. auto.
Qed.

(* what the correspondence checks on every content the implementation returns IS ContentOK *)
Theorem content_ok_b_sound h c : (h_fmt h = 0 \/ h_fmt h = 1) ->
  content_ok_b sf ss h c = true -> ContentOK sf ss h c.
Proof.
  intros Hf H. unfold content_ok_b in H.
  apply andb_true_iff in H; destruct H as [H Cty2].
  apply andb_true_iff in H; destruct H as [H Cty1].
  apply andb_true_iff in H; destruct H as [H Ts].
  apply andb_true_iff in H; destruct H as [H Ag].
  apply andb_true_iff in H; destruct H as [H At].
  apply andb_true_iff in H; destruct H as [H Ch].
  apply andb_true_iff in H; destruct H as [H Co].
  apply andb_true_iff in H; destruct H as [H An].
  apply andb_true_iff in H; destruct H as [H Ae].
  apply andb_true_iff in H; destruct H as [H Ot].
  apply andb_true_iff in H; destruct H as [H Cp].
  apply andb_true_iff in H; destruct H as [H Ca].
  apply andb_true_iff in H; destruct H as [H Ce].
  apply andb_true_iff in H; destruct H as [H Cs].
  apply andb_true_iff in H; destruct H as [H Et].
  apply andb_true_iff in H; destruct H as [H Ee].
  apply andb_true_iff in H; destruct H as [H E].
  apply andb_true_iff in H; destruct H as [H Tn].
  apply andb_true_iff in H; destruct H as [H T].
  apply andb_true_iff in H; destruct H as [H Sce].
  apply andb_true_iff in H; destruct H as [H Sc].
  apply andb_true_iff in H; destruct H as [H Se].
  apply andb_true_iff in H; destruct H as [H Pe].
  apply andb_true_iff in H; destruct H as [H S].
  rename H into P.
  apply negb_true_iff, Z.eqb_neq in P. apply negb_true_iff, Z.eqb_neq in S. apply Z.eqb_eq in Pe, Se, Sce, Ee, Ae, Ag, Ts.
  apply negb_true_iff, Z.eqb_neq in Tn. apply negb_true_iff, Z.eqb_neq in An.
  apply list_eqb_Z_eq in Ch. apply list_eqb_attr_eq in At. apply chain_ok_b_iff in Co.
  unfold ContentOK.
  split; [exact P|]. split; [exact S|]. split; [exact Pe|]. split; [exact Se|].
  split. { apply orb_true_iff in Sc. destruct Sc as [X|X]; apply Z.eqb_eq in X; auto. }
  split; [exact Sce|].
  split.
  { destruct (if k_scheme c =? 1 then h_ast h else h_st h) as [|t tag|] eqn:X; try discriminate.
    apply andb_true_iff in T. destruct T as [T1 T2]. apply Z.eqb_eq in T1. subst t. exists tag. split; [reflexivity|].
    intros F1. apply orb_true_iff in T2. destruct T2 as [T2|T2]; apply Z.eqb_eq in T2; [lia|exact T2]. }
  split; [exact Tn|].
  split. { apply orb_true_iff in E. destruct E as [X|X]; [left; apply Z.eqb_eq; exact X|right; apply Z.ltb_lt; exact X]. }
  split; [exact Ee|].
  split.
  { intros F1 Hp. rewrite !orb_true_iff in Et. destruct Et as [[X|X]|X].
    - apply Z.eqb_eq in X. lia.
    - rewrite Hp in X. discriminate.
    - destruct (h_exp h) as [|t tag|]; try discriminate. apply Z.eqb_eq in X. subst. exists t. reflexivity. }
  split; [apply mem_label_in; exact Cs|].
  split. { intros Hx. apply orb_true_iff in Ce. destruct Ce as [X|X]; [apply Z.eqb_eq in X; contradiction|apply mem_label_in; exact X]. }
  split. { intros H1. apply orb_true_iff in Ca. destruct Ca as [X|X]; [apply negb_true_iff, Z.eqb_neq in X; contradiction|apply mem_label_in; exact X]. }
  split.
  { intros F0 v Hv. apply orb_true_iff in Cp. destruct Cp as [X|X]; [apply negb_true_iff, Z.eqb_neq in X; contradiction|].
    rewrite forallb_forall in X. specialize (X v Hv). apply orb_true_iff in X. destruct X as [X|X].
    - left. apply spec_present_iff. exact X.
    - right. apply ext_has. exact X. }
  split.
  { intros F0. apply orb_true_iff in Ot. destruct Ot as [X|X]; [apply negb_true_iff, Z.eqb_neq in X; contradiction|]. apply tval_eqb_eq. exact X. }
  split; [exact Ae|]. split; [exact An|]. split; [exact Co|]. split; [exact Ch|]. split; [exact At|]. split; [exact Ag|]. split; [exact Ts|].
  split; [apply Z.eqb_eq; exact Cty1|].
  intros F1 X. rewrite X in Cty2. apply orb_true_iff in Cty2. destruct Cty2 as [Y|Y]; [apply Z.eqb_eq in Y; lia|discriminate].
Qed.

(* and nothing stricter: every content satisfying ContentOK passes the boolean *)
Theorem content_ok_b_complete h c : (h_fmt h = 0 \/ h_fmt h = 1) ->
  ContentOK sf ss h c -> content_ok_b sf ss h c = true.
Proof.
  intros Hf H. unfold ContentOK in H.
  destruct H as (P & S & Pe & Se & Sc & Sce & (tag & Ht & Htag) & Tn & E & Ee & Et & Cs & Ce & Ca & Cp & Ot & Ae & An & Co & Ch & At & Ag & Ts & Cty1 & Cty2).
  unfold content_ok_b.
  apply andb_true_iff. split; [apply andb_true_iff; split|].
  {
  apply andb_true_iff. split.
  {
    apply andb_true_iff. split.
    {
      apply andb_true_iff. split.
      {
        apply andb_true_iff. split.
        {
          apply andb_true_iff. split.
          {
            apply andb_true_iff. split.
            {
              apply andb_true_iff. split.
              {
                apply andb_true_iff. split.
                {
                  apply andb_true_iff. split.
                  {
                    apply andb_true_iff. split.
                    {
                      apply andb_true_iff. split.
                      {
                        apply andb_true_iff. split.
                        {
                          apply andb_true_iff. split.
                          {
                            apply andb_true_iff. split.
                            {
                              apply andb_true_iff. split.
                              {
                                apply andb_true_iff. split.
                                {
                                  apply andb_true_iff. split.
                                  {
                                    apply andb_true_iff. split.
                                    {
                                      apply andb_true_iff. split.
                                      {
                                        apply andb_true_iff. split.
                                        {
                                          apply andb_true_iff. split.
                                          {
                                            apply andb_true_iff. split.
                                            {
                                              apply negb_true_iff, Z.eqb_neq. exact P.
                                            }
                                            { apply negb_true_iff, Z.eqb_neq. exact S. }
                                          }
                                          { apply Z.eqb_eq. exact Pe. }
                                        }
                                        { apply Z.eqb_eq. exact Se. }
                                      }
                                      { apply orb_true_iff. destruct Sc as [X|X]; [left|right]; apply Z.eqb_eq; exact X. }
                                    }
                                    { apply Z.eqb_eq. exact Sce. }
                                  }
                                  { rewrite Ht. apply andb_true_iff. split; [apply Z.eqb_refl|]. apply orb_true_iff. destruct Hf as [F|F]; [left; apply Z.eqb_eq; exact F|right; apply Z.eqb_eq; apply Htag; exact F]. }
                                }
                                { apply negb_true_iff, Z.eqb_neq. exact Tn. }
                              }
                              { apply orb_true_iff. destruct E as [X|X]; [left; apply Z.eqb_eq; exact X|right; apply Z.ltb_lt; exact X]. }
                            }
                            { apply Z.eqb_eq. exact Ee. }
                          }
                          { rewrite !orb_true_iff. destruct Hf as [F|F]; [left; left; apply Z.eqb_eq; exact F|]. destruct (tpresent (h_exp h)) eqn:Tp; [|left; right; reflexivity]. right. destruct (Et F eq_refl) as [t Hx]. rewrite Hx. apply Z.eqb_refl. }
                        }
                        { apply mem_label_in. exact Cs. }
                      }
                      { apply orb_true_iff. destruct (k_expiry c =? 0) eqn:X; [left; reflexivity|right]. apply mem_label_in. apply Ce. apply Z.eqb_neq. exact X. }
                    }
                    { apply orb_true_iff. destruct (k_scheme c =? 1) eqn:X; [right; apply mem_label_in; apply Ca; apply Z.eqb_eq; exact X|left; reflexivity]. }
                  }
                  { apply orb_true_iff. destruct (h_fmt h =? 0) eqn:X; [right|left; reflexivity]. apply Z.eqb_eq in X. apply forallb_forall. intros v Hv. apply orb_true_iff. destruct (Cp X v Hv) as [Y|Y]; [left; apply spec_present_iff; exact Y|right; apply ext_has; exact Y]. }
                }
                { apply orb_true_iff. destruct (h_fmt h =? 0) eqn:X; [right|left; reflexivity]. apply Z.eqb_eq in X. apply tval_eqb_eq. apply Ot. exact X. }
              }
              { apply Z.eqb_eq. exact Ae. }
            }
            { apply negb_true_iff, Z.eqb_neq. exact An. }
          }
          { apply chain_ok_b_iff. exact Co. }
        }
        { apply list_eqb_Z_eq. exact Ch. }
      }
      { apply list_eqb_attr_eq. exact At. }
    }
    { apply Z.eqb_eq. exact Ag. }
  }
  { apply Z.eqb_eq. exact Ts. }
  }
  { apply Z.eqb_eq. exact Cty1. }
  { apply orb_true_iff. destruct Hf as [F|F]; [left; apply Z.eqb_eq; exact F|right]. destruct (h_cty h); [reflexivity|exfalso; apply (Cty2 F); reflexivity]. }
Qed.
End S.

(* C20: the executable acceptance check used on implementation traces is the reference machine *)
Lemma out_eqb_eq a b : out_eqb a b = true <-> a = b.
Proof.
  destruct a, b; cbn; try (split; [discriminate|intros H; discriminate]); try tauto;
  rewrite Z.eqb_eq; (split; [intros ->; reflexivity|intros H; inversion H; reflexivity]).
Qed.

Lemma ref_next_spec a o x b : In b (ref_next a o x) <-> ref_step a o b x.
Proof.
  unfold ref_next, ref_step. destruct o.
  - destruct (out_eqb x (OBytes r)) eqn:E.
    + apply out_eqb_eq in E. subst. cbn. split; [intros [<-|[]]; auto|intros [-> _]; left; reflexivity].
    + split; [intros []|]. intros [_ H]. apply out_eqb_eq in H. congruence.
  - destruct (out_eqb x OErr) eqn:E.
    + apply out_eqb_eq in E. subst. cbn. split; [intros [<-|[<-|[]]]; auto|intros [[->| ->] _]; auto].
    + split; [intros []|]. intros [_ H]. apply out_eqb_eq in H. congruence.
  - destruct (out_eqb x OErr) eqn:E.
    + apply out_eqb_eq in E. subst. cbn. split; [intros [<-|[<-|[]]]; auto|intros [[->| ->] _]; auto].
    + split; [intros []|]. intros [_ H]. apply out_eqb_eq in H. congruence.
  - destruct (out_eqb x OErr) eqn:E.
    + apply out_eqb_eq in E. subst. cbn. split; [intros [<-|[<-|[]]]; auto|intros [[->| ->] _]; auto].
    + split; [intros []|]. intros [_ H]. apply out_eqb_eq in H. congruence.
  - match goal with |- context [out_eqb x ?e] => destruct (out_eqb x e) eqn:E end.
    + apply out_eqb_eq in E. cbn. split; [intros [<-|[]]; auto|intros [-> _]; left; reflexivity].
    + split; [intros []|]. intros [_ H]. apply out_eqb_eq in H. congruence.
  - match goal with |- context [out_eqb x ?e] => destruct (out_eqb x e) eqn:E end.
    + apply out_eqb_eq in E. cbn. split; [intros [<-|[]]; auto|intros [-> _]; left; reflexivity].
    + split; [intros []|]. intros [_ H]. apply out_eqb_eq in H. congruence.
Qed.

(* a trace is accepted (ref_accepts = 0) exactly when it is a run of the reference machine from one of
   the possible start states *)
Theorem ref_accepts_sound : forall ops outs poss,
  ref_accepts poss ops outs = 0 -> poss <> [] -> exists a c, In a poss /\ ref_run a ops outs c.
Proof.
  induction ops as [|o r IH]; intros outs poss H Hne.
  - destruct outs; [|discriminate]. destruct poss as [|a t]; [contradiction|]. exists a, a. split; [left; reflexivity|constructor].
  - destruct outs as [|x xs]; [discriminate|]. cbn [ref_accepts] in H.
    destruct (flat_map (fun a => ref_next a o x) poss) as [|n0 nr] eqn:F.
    + destruct o; discriminate.
    + rewrite <- F in H. destruct (IH xs _ H) as [b [c [Hb Hr]]]; [rewrite F; discriminate|].
      apply in_flat_map in Hb. destruct Hb as [a [Ha Hn]]. apply ref_next_spec in Hn.
      exists a, c. split; [exact Ha|]. econstructor; eassumption.
Qed.

Theorem ref_accepts_complete : forall ops outs a c poss,
  In a poss -> ref_run a ops outs c -> ref_accepts poss ops outs = 0.
Proof.
  induction ops as [|o r IH]; intros outs a c poss Ha Hr; inversion Hr; subst; [reflexivity|].
  cbn [ref_accepts].
  assert (Hin : In b (flat_map (fun a0 => ref_next a0 o x) poss)).
  { apply in_flat_map. exists a. split; [exact Ha|]. apply ref_next_spec. assumption. }
  destruct (flat_map (fun a0 => ref_next a0 o x) poss) as [|n0 nr] eqn:F; [contradiction|].
  rewrite <- F. eapply IH; [rewrite F; exact Hin|eassumption].
Qed.

(* C16: the boolean applied to every request for which the IMPLEMENTATION produced an envelope is implied
   by ValidReq: an envelope for a request failing valid_req_b contradicts C16_gate *)
From NCG Require Import Run.SignCase Proofs.Sign.

Lemma nodup_labels_of_NoDup l : NoDup l -> nodup_labels l = true.
Proof. apply nodup_labels_NoDup. Qed.

Theorem valid_req_b_complete sf ss q : (q_fmt q = 0 \/ q_fmt q = 1) -> ValidReq sf ss q -> valid_req_b sf ss q = true.
Proof.
  intros Hf. unfold ValidReq. cbn zeta.
  intros (P & Pk & _ & T & X & S & (s & k & a & leaf & rest & Es & Ek & Ea & Ec & V & K & _) & (ls & El & Hnd & Hspec & Htext & _)).
  unfold valid_req_b. rewrite Es, Ek, Ec, Ea, El. rewrite !andb_true_iff. repeat split.
  - apply negb_true_iff, Z.eqb_neq. exact P.
  - apply orb_true_iff. destruct Hf as [F|F]; [right; apply Z.eqb_eq; apply Pk; exact F|left; apply Z.eqb_eq; exact F].
  - apply negb_true_iff, Z.eqb_neq. exact T.
  - apply orb_true_iff. destruct X as [X|X]; [left; apply Z.eqb_eq; exact X|right; apply Z.ltb_lt; exact X].
  - apply orb_true_iff. destruct S as [S|S]; [left|right]; apply Z.eqb_eq; exact S.
  - exact V.
  - rewrite K. apply Z.eqb_refl.
  - apply nodup_labels_of_NoDup. exact Hnd.
  - apply negb_true_iff. destruct (existsb _ ls) eqn:E; [|reflexivity]. apply existsb_exists in E. destruct E as [l [Hl Hx]].
    rewrite (Hspec l Hl) in Hx. discriminate.
  - apply orb_true_iff. destruct Hf as [F|F]; [right|left; apply Z.eqb_eq; exact F].
    apply forallb_forall. intros l Hl. destruct (Htext F l Hl) as [i ->]. reflexivity.
Qed.

(* hence: whenever the model of Sign returns an envelope, the request passes the boolean *)
Corollary sign_ok_valid_req_b sf ss q h : (q_fmt q = 0 \/ q_fmt q = 1) ->
  sign sf ss q = SOk h -> valid_req_b sf ss q = true.
Proof. intros Hf H. apply valid_req_b_complete; [exact Hf|]. apply sign_gate in H. tauto. Qed.
